"""Source of MANIFEST.json (bin/mkmanifest writes it). One entry per claimed property."""
import json, os, subprocess

ALL = ["C%02d" % i for i in range(1, 21)]

CORE_NOTE = ("Trusted: the controlled scheduler (code between two verif hooks of one goroutine is atomic w.r.t. other scenario goroutines; events are logged "
             "by the goroutine performing them), the recording reporters, TLC. DFS is exhaustive over thread choices at the listed points only; "
             "other points and the larger scenarios are covered by seeded random schedules. The TallyCore model is exhaustive for its small universe "
             "(one subscope identity, one counter per scope object, one root gauge). For C01 C02 C07 C08 C09 the scenarios that stay inside that universe are also replayed "
             "step by step (every granted hook of every goroutine, delivered values compared) through the PlusCal algorithm (TallyStepTrace.tla); a step the model "
             "does not have is reported as drift, not as a verdict.")

CHECKS = {
 "C01": dict(
   technique="TLA+ model TallyCore.tla checked by TLC; observable traces of the real code under a controlled scheduler validated by TLC against TallyObs.tla",
   text=("TLC exhaustively checks conservation / never-ahead / no-negative-delta on the implementation-shaped model (load prev, load curr, CAS as separate actions, "
         "concurrent passes, loop, Close, re-acquire report). The real counter code is then run through every interleaving of those atomic steps for the micro "
         "scenario (exhaustive stateless DFS on hook points, plain and cached, int64 wrap-around via 2^61 scaling, histogram buckets) plus random schedules of a "
         "larger scenario; TLC replays each recorded observable trace through TallyObs and evaluates the same invariants after every event."),
   note=CORE_NOTE, design_ref="DESIGN.md section 6 C01"),
 "C02": dict(
   technique="TLA+ model TallyCore.tla checked by TLC; observable traces of the real gauge code under a controlled scheduler validated by TLC against TallyObs.tla",
   text=("TLC checks authenticity, freshness-after-pass and the delivery count bound on the model with Update as two actions and report as swap/load/deliver, and shows "
         "that swapping either pair is caught. The real code is driven through every interleaving of those steps (one updater against back-to-back passes and against "
         "the real report loop goroutine) with NaN-payload / +-0 / subnormal / infinity bit patterns; TLC judges every recorded trace."),
   note=CORE_NOTE + " Passes over a live gauge are assumed not to overlap each other (see DESIGN.md section 9 for the recorded observation).",
   design_ref="DESIGN.md section 6 C02"),
 "C04": dict(
   technique="TLA+ specs ScopeNaming.tla / KeyGen.tla checked by TLC; derivation programs executed on real scopes validated by TLC against ScopeNamingTrace.tla",
   text=("TLC checks the derivation algebra (right-biased overlay, idempotence, regrouping, prefix/separator joining, empty prefix) over all roots x maps x names of a "
         "small domain and shows each weakening is caught. All derivation programs up to depth 2 (thorough 3) are executed on real roots - plain reporter, cached reporter, "
         "test scope; ASCII / multi-byte / invalid UTF-8 / long strings; with and without sanitizer - and TLC recomputes name and tags of every metric that reached the "
         "reporter from the logged derivation events; caller maps are compared before/after and mutated afterwards."),
   note=("Trusted: the abstract-string tables of the harness (order preserving, uniquely decodable), the recording reporters, TLC. With a sanitizer the per-character table "
         "is derived from the options (C06 decides the sanitizer)."), design_ref="DESIGN.md section 6 C04"),
 "C05": dict(
   technique="TLA+ specs KeyGen.tla (key writer transcribed literally) / ScopeNaming.tla checked by TLC; pairs of derivations on real scopes and the public key function validated by TLC",
   text=("TLC checks order independence, rightmost precedence, agreement with the merged map and injectivity on delimiter-free strings for all (prefix, map, map) of a small "
         "domain, and exhibits the collision witness once delimiter characters are in the alphabet (known finding). All pairs of derivation programs are executed on one real "
         "root per shard count (1, 2, 7, 64) and TLC judges pointer identity of scopes and counters against identity in the model; the public key function is compared "
         "character by character with the transcribed writer."),
   note=("Trusted: harness tables, TLC. Collisions caused only by unescaped '+', ',', '=' inside strings are the recorded known finding C05-key-delimiters; every other merge of "
         "different identities is a violation."), design_ref="DESIGN.md section 6 C05"),
 "C06": dict(
   technique="TLA+ specs Sanitize.tla (per-rune loop with lazy buffer) and SanitizePool.tla (pooled buffers, concurrent calls) checked by TLC; real sanitizer outputs validated by TLC against SanitizeTrace.tla",
   text=("TLC checks only-allowed-or-replacement, valid-unchanged (no copy), idempotence, rune count and position-wise replacement on the transcribed loop for all class "
         "sequences up to length 4 (5) x configurations, and result stability for two concurrent calls sharing the buffer pool; each weakening is shown to be caught. "
         "The real NewSanitizer is run on every class sequence for default and seeded random options, on 4 KiB repetitions, through scopes whose every reported string is "
         "classified, and from 8 goroutines; TLC compares each logged output with the loop's result."),
   note=("Trusted: the harness's class images (concrete runes chosen per ValidCharacters value incl. range ends +-1) and its abstraction of outputs, its own validity "
         "predicate for strings reaching the reporter, TLC."), design_ref="DESIGN.md section 6 C06"),
 "C07": dict(
   technique="TLA+ model TallyCore.tla checked by TLC; observable traces of the real registry code under a controlled scheduler validated by TLC against TallyObs.tla",
   text=("TLC checks, on the model of the registry (RUnlock/Lock/delete/RLock hand-over, closed-flag read, Subscope with report-on-reacquire), that everything promised "
         "before a subscope's Close is delivered exactly once, that a re-acquired scope is fresh and stays registered, lock order and deadlock freedom; both pre-fix "
         "deviations are shown to violate it. The real code is explored by DFS over the registry hook points and random schedules; TLC judges every trace."),
   note=CORE_NOTE, design_ref="DESIGN.md section 6 C07"),
 "C08": dict(
   technique="TLA+ model TallyCore.tla checked by TLC; observable traces of the real root scope (real report loop goroutine) under a controlled scheduler validated by TLC against TallyObs.tla",
   text=("TLC checks the shutdown barrier (everything promised at the Close call delivered and flushed at its return, for every caller), quiet-after-Close, loop-ended, "
         "reporter closed once after the final flush, on the model of ticker loop x Close (mutex, CAS, close done, wait, final pass, purge); each pre-fix deviation "
         "(no wait, purge by any pass, no mutex, no final pass) is shown to violate it. The real code runs with its real loop goroutine whose ticks the scheduler hands out; "
         "DFS over loop / Close / pass points and random schedules for two closers, late calls, no-interval roots; TLC judges every trace."),
   note=CORE_NOTE, design_ref="DESIGN.md section 6 C08"),
 "C09": dict(
   technique="TLA+ model TallyCore.tla checked by TLC; observable traces of the real get-or-create paths under a controlled scheduler validated by TLC against TallyObs.tla",
   text=("Model: two goroutines first-using the same subscope and counter while a pass runs; dropping the re-check under the write lock violates conservation. Real code: "
         "DFS over probe / lock / Allocate points for each of counter, gauge, timer, histogram, child scope (plain and cached) and random mixed schedules with shard counts 1, 2, 16; "
         "TLC checks on every trace that all handles of one identity are the same object, Allocate* happened at most once, and everything recorded was delivered."),
   note=CORE_NOTE + " The data-race clause is outside TLA+: the thorough tier re-runs the random scenarios under the Go race detector as an observation channel.",
   design_ref="DESIGN.md section 6 C09"),
 "C10": dict(
   technique="TLA+ specs TallyObs.tla (timer windows), Instrument.tla (stopwatch, Exec) and TimerSink.tla (concurrent append to a reporter-less timer) checked by TLC; traces of the real code validated by TLC",
   text=("Timer records from two goroutines interleaved with passes, the loop and root Close under the controlled scheduler: every Record window must contain exactly one "
         "synchronous delivery of the same identity and duration, none outside. Instrument.tla is model-checked (with three weakenings shown to be caught) and random "
         "tick/Start/Stop/Exec histories over a harness-driven clock are replayed through its actions: Stop records exactly clock(Stop)-clock(Start), Exec runs once, one "
         "latency, exactly the matching outcome counter, same error value. TimerSink.tla models the append of a reporter-less timer as the two-step critical section it is (a sink "
         "without mutual exclusion between appenders is shown to lose a value); free-running histories - 2-6 goroutines recording distinct durations on one shared timer while passes / "
         "snapshots run, on a test scope, a plain and a cached reporter - are compared with what Snapshot().Timers() / the reporter holds afterwards (TimerSinkTrace.tla)."),
   note=CORE_NOTE, design_ref="DESIGN.md section 6 C10"),
 "C03": dict(
   technique="TLA+ spec (Histogram.tla) model-checked by TLC; traces of the real histogram code validated by TLC against HistogramTrace.tla",
   text=("TLC exhaustively checks tiling, right-bucket placement, infinity/NaN placement and conservation on Histogram.tla for all bucket "
         "specifications up to a small length over ordered bound tokens; the real code is then driven through every spec x sample token x "
         "reporter path under several float64/duration concretisation tables and TLC replays each recorded event through the spec's Record/Report "
         "actions, flagging any delivered bucket tuple the model does not produce."),
   note=("Trusted: the harness's token<->value tables (bit-exact inverse), TLC, the transcription of sort.Search in the spec. Exhaustive only for "
         "the small bound-token domain; longer specs are covered by the absence of length-dependent state."),
   design_ref="DESIGN.md section 6 C03"),
 "C11": dict(
   technique="TLA+ spec TestScope.tla checked by TLC; record/snapshot histories on real test scopes replayed through its actions by TLC (TestScopeTrace.tla)",
   text=("TLC checks snapshot independence, last-update gauges and survival of closed sub-scopes on the sequential model for all short histories and shows the three "
         "weakenings are caught. Seeded random histories (all four kinds, derived scopes, snapshots at arbitrary points, Close of sub-scopes) run on real test scopes; every "
         "event is replayed through the model's action and every snapshot - including earlier ones re-read later and after the harness wrote into snapshot maps - is compared "
         "with the model state by TLC. SnapshotWindow.tla gives the bound for a snapshot taken while others record (returned-before-call <= value <= called-before-return); "
         "real snapshots taken by two goroutines against 2-4 recorders are judged against it."),
   note="Trusted: the harness's abstraction of snapshot entries (name{tags}, bucket upper bounds as strings, value tokens), TLC. Concurrent snapshots are free-running goroutines (not scheduler-controlled): the window bound is checked on whatever interleavings occur.",
   design_ref="DESIGN.md section 6 C11"),
 "C12": dict(
   technique="TLA+ specs M3Batching.tla (the batching loop over items with charged and actual sizes; assumptions A1-A3 as named predicates) and M3Reporter.tla checked by TLC; the real loop's dequeued items (observation hooks) and the datagrams at a loopback sink validated by TLC against M3BatchingTrace.tla",
   text=("TLC checks for all item sequences of the small domain (charged sizes, actual <= charged, flush markers anywhere, Close) that with A1 (charged >= actual per metric), A2 (overhead >= envelope + "
         "common tags) and A3 (each metric fits alone) no datagram exceeds the maximum, nothing is dropped or duplicated, the open batch never exceeds the free bytes and the metric that does not fit "
         "starts the next packet; the pinned tree's two deviations (bucket tags uncharged, constant envelope allowance) and three weakenings are each shown to violate their clause. On the real reporter "
         "A1 and A2 are MEASURED for every metric and datagram (charged size from the batching loop's hook, actual size by re-encoding each decoded metric alone) over kinds x name lengths x tag "
         "counts x extreme values x both protocols x common tags x sequence-id varint lengths x packet sizes, and TLC replays the dequeued items through the model's loop, requiring the same emits "
         "with the same batch lengths - so the bound holds for every composition of such metrics, not only the sampled ones."),
   note=("Trusted: the observation hooks m3p_got / m3p_emit (order of dequeued items and emits), the loopback sink + the repository's thrift decoder, re-encoding a decoded metric alone as its actual size "
         "(struct encodings are context-free in both protocols), TLC. Cases containing a metric larger than the free bytes are outside the property's proviso."),
   design_ref="DESIGN.md section 6 C12"),
 "C13": dict(
   technique="TLA+ specs M3Reporter.tla (producers / Flush / Close / batching goroutine / clock as threads over the bounded queue) and M3TagCache.tla (hash-keyed tag cache over strings containing '=') checked by TLC; executions of the real reporter under the controlled scheduler and free-running histories, decoded at loopback sinks, validated by TLC against M3ObsTrace.tla",
   text=("TLC checks on the model, for all interleavings of 2 producers, Flush and 1-2 Close callers with a queue of 1 (2), that every report whose call returned before Close was called is emitted exactly "
         "once by the time Close returns, nothing twice, per-thread order, timestamps within [construction, call], and on the tag-cache model that every allocation gets its own tags; the pinned tree's two "
         "deviations (clock first written by the time loop; cache hit trusted on the hash) and the dropped final flush are shown to violate their clause. The real reporter is run through every "
         "interleaving of the handshake points for the micro scenarios and random schedules of larger mixes, plus free-running histories from 1-4 goroutines with byte-string names/tags whose k=v "
         "renderings collide, int64/float64 extremes, both protocols, 1 and 3 destinations, queue 1..4096; TLC judges every decoded datagram and the state at Close's return."),
   note=("Trusted: the controlled scheduler (code between two verif hooks of one goroutine is atomic w.r.t. the other scenario goroutines; the reporter's clock goroutine has no hooks and runs freely), "
         "loopback UDP sinks and the repository's own thrift decoder as observation of what was emitted, recover() / goroutine dumps as observation of panics and leaks, TLC. "
         "DFS is exhaustive over thread choices at the listed handshake points only; larger mixes are seeded random schedules.") + " Wall-clock relations (timestamp vs construction / return of the call) are computed by the harness. Real UDP loss is out of scope.",
   design_ref="DESIGN.md section 6 C13"),
 "C14": dict(
   technique="TLA+ spec M3Reporter.tla (enter protocol pending++ / done / select-send / pending-- against Close's CAS / spin / close donech / close queue / wait, bounded queue, blocking marker send) checked by TLC; every interleaving of those points on the real reporter under the controlled scheduler validated by TLC against M3ObsTrace.tla",
   text=("TLC checks for all interleavings of 2 producers, Flush (internal metrics + blocking marker send) and 1-2 Close callers followed by a late report, queue capacity 1: no send on a closed queue, "
         "no deadlock (ENABLED-based), at most one nil from Close, late calls enqueue nothing, the reporter's goroutines have ended when Close returns, pending returns to 0; five weakenings (pending++ after "
         "the done check, Close without the spin, Flush ignoring done, a second nil from Close, the done path leaking pending) are each shown to violate their clause. The real reporter is driven through "
         "every interleaving of the hook points of that protocol (1 producer x Close + late report; x 2 closers; Flush x Close; 2 producers x Close) and random schedules of larger mixes (4 kinds of "
         "metrics, Flush, 1-2 closers, queue 1..4096, both protocols, 1 and 3 destinations, a first destination nobody listens on with a queue of one entry (send errors), no Close at all); panics, deadlocks (incl. a Close that spins while nobody else moves), leaked goroutines and "
         "unbalanced pending are observed per execution and judged by TLC."),
   note=("Trusted: the controlled scheduler (code between two verif hooks of one goroutine is atomic w.r.t. the other scenario goroutines; the reporter's clock goroutine has no hooks and runs freely), "
         "loopback UDP sinks and the repository's own thrift decoder as observation of what was emitted, recover() / goroutine dumps as observation of panics and leaks, TLC. "
         "DFS is exhaustive over thread choices at the listed handshake points only; larger mixes are seeded random schedules.") + " Data-race freedom is not expressible in TLA+: the free-running conformance drivers (producers of all kinds incl. several goroutines on one value / duration bucket handle, concurrent Allocate*, Flush, concurrent Close, both protocols, reachable and unreachable destinations) are re-run as a `go build -race` binary and a race report touching the m3 packages is a violation (clause DataRace); a hang of those drivers is reported with the stacks of the goroutines inside the m3 package (clause NoDeadlock).",
   design_ref="DESIGN.md section 6 C14"),
 "C15": dict(
   technique="TLA+ spec UDPTransport.tla (per-destination buffer / closed / dead socket, multi fan-out, writer's view of the message as ghost state) checked by TLC; call and fault histories on the real transports against loopback UDP sinks validated by TLC against UDPTransportTrace.tla",
   text=("TLC checks for every history of <= 7 (8) Write / Flush / Discard / Close calls and socket faults, one destination and multi transports over 2 (3), that each sink received exactly the "
         "accepted chunks of each flushed message as one datagram, a refused chunk is never sent, buffers are empty after Flush (also on send error, on every destination) and "
         "Discard, fitting writes are accepted and oversize ones refused, Close is idempotent and later calls return not-open; the two pre-fix deviations and five dropped design "
         "decisions are each shown to violate their clause. The real TUDPTransport / TMultiUDPTransport are driven through every history of <= 4 (5) calls/faults with 13000-byte units "
         "(5 units = the limit exactly) and random histories landing on 64999/65000/65001 bytes; datagrams are segmented byte for byte into the chunks written and TLC evaluates the "
         "same invariants over the observed results, datagrams and buffered lengths after every call. The real M3 reporter (both protocols, 1 and 3 destinations) is pushed over the "
         "transport limit and must deliver every later batch alone."),
   note=("Trusted: loopback UDP delivery being synchronous (a late datagram aborts the run as an infrastructure error), the (id, offset) byte pattern segmentation, the verif accessors "
         "VerifBufLen / VerifTransports, TLC. Socket failure is injected by closing the transport's net.UDPConn underneath it."),
   design_ref="DESIGN.md section 6 C15"),
 "C16": dict(
   technique="TLA+ spec ThriftSize.tla (wire size of MetricTag / MetricValue / Metric / MetricBatch / message as a function of shape for Compact and Binary; the compact writer's field-id stack as a state machine over consecutive, possibly abandoned writes) checked by TLC; real encoder / size calculator / decoder results for enumerated shapes validated by TLC against ThriftSizeTrace.tla",
   text=("TLC checks on the writer state machine that the size of a structure written through one reused protocol object does not depend on what was written - or abandoned half-way - before it (two "
         "weakenings of the field-id stack discipline are caught), and that the maximal-placeholder size bounds the size for every choice of varint length classes in both protocols. The size function "
         "itself is bound to the code by conformance: for every enumerated shape (all varint classes of every integer field, string lengths 0..1024 of random bytes, tag lists around the 14/15 "
         "list-header switch, batches of 0..16 (500) metrics, all sequence-id lengths) a concrete value is encoded through one reused real encoder, measured through one reused TCalcTransport "
         "protocol, sent through the generated client and decoded; TLC requires encoder length = calculator count = the model's function of the shape, also right after an abandoned write, "
         "round-trip equality, and that the size the real reporter charges at allocation equals the kind-maximal size of the shape (incl. the two bucket tags), also for ~10^5 handles allocated by 16 goroutines at the same time (size measurement under a lock through one reused protocol)."),
   note=("Trusted: the harness's construction of a concrete value for a shape (own varint-length functions), its equality predicate for the round trip (floats by bit pattern, nil vs empty tag list), TLC. "
         "The byte content of the encoding is observed (decode with the repository's own readers), not predicted by the model - stated in DESIGN.md section 7."),
   design_ref="DESIGN.md section 6 C16"),
 "C17": dict(
   technique="TLA+ spec PromReporter.tla (Prometheus registry rule, the reporter's three by-id caches with the shared timers map, vectors keyed by label values, Observe(upper) x samples) checked by TLC; first-use / record histories on the real reporter and under real scopes, gathered from a fresh Registry, validated by TLC against PromReporterTrace.tla",
   text=("TLC checks for all sequences of <= 4 (5) first uses over 2 names x 4 kinds x 2 key sets x timer flavour x callback flavour that a rejected registration is reported to the callback once, "
         "that a panic only ever comes from a panicking callback, that every returned handle is live or no-op and one name is one family; and for all record histories of the small domain that "
         "counter sums, last gauge values, timer counts and cumulative bucket counts (samples on / between / outside bounds, replayed as Observe(upper)) equal what was recorded, with separate "
         "series per tag value; the pinned tree's nil-slot deviation and five weakenings are each shown to violate their clause. The same histories are executed on the real reporter - all eight "
         "callback configurations incl. Configuration.OnError none / log / stderr / unset - directly and through real tally scopes with a report pass; the Registry is gathered and TLC compares "
         "panics, callback invocations, live / no-op handles and every series with the model."),
   note=("Trusted: the harness's token tables (gauge values by bit pattern, bounds by exact float equality with Buckets.AsValues()), recover() as panic observation, the prometheus client's Gather, TLC. "
         "Non-negative counter increments; one bucket specification per name; sequential histories (concurrent first use is a seeded stress run, not model-level)."),
   design_ref="DESIGN.md section 6 C17"),
 "C18": dict(
   technique="TLA+ spec StatsdReporter.tla (one client call per report; bucket stat name over C03's bucket pairs) checked by TLC; call logs of the real reporter over a recording statsd client validated by TLC against StatsdTrace.tla",
   text=("TLC checks, for all bucket specifications of the small ordered-token domain, that every report is one client call, that open ends are rendered as -infinity / infinity "
         "and that two buckets of one histogram never share a stat name, and shows the weakening the property names (lower open end rendered as infinity) is caught. The real "
         "reporter is driven over a recording statsd.Statter for precisions 1..12 and default, sample rates unset / 1 / 0.5 / 1e-6, int64 extremes, fractional and negative gauges, "
         "every bucket pair of every specification under value and duration concretisation tables; TLC compares every logged client call with the model's."),
   note=("Trusted: the harness's tokenisation of stat names against strconv / Duration.String renderings of the bounds (the model treats the renderer as an injective "
         "uninterpreted function on bounds that differ at the precision), the recording Statter, TLC."),
   design_ref="DESIGN.md section 6 C18"),
 "C19": dict(
   technique="TLA+ spec MultiReporter.tla (fan-out to children in order, capability conjunction) checked by TLC; per-child call logs of real multi reporters validated by TLC against MultiReporterTrace.tla",
   text=("TLC checks for 0..3 (4) children x all capability combinations x all short call histories that every child's log equals the parent's log, children are called in index "
         "order and capabilities are the conjunction, and shows four weakenings (skip last child, first child twice, capabilities OR-ed, stop at first incapable child) are caught. "
         "Random call histories over both flavours (Report*, Allocate*, handle reports incl. histogram bucket handles, Flush) with 0..5 recording children are executed on the real "
         "multi reporters and TLC compares, per parent call, what each child received and the global order in which children were called."),
   note="Trusted: the recording children (global sequence number, exact argument rendering, float64 by bit pattern), TLC.",
   design_ref="DESIGN.md section 6 C19"),
 "C20": dict(
   technique="TLA+ spec Buckets.tla (constructor recurrences; bucket cache with order/kind-blind identity, two threads) checked by TLC; real constructor results and histogram bounds validated by TLC; concurrent creations under the controlled scheduler judged against TallyObs.tla",
   text=("TLC checks that every histogram uses its own bounds for colliding request sequences of two threads on the cache model and that dropping the equality re-check (or "
         "making it kind-blind) is caught. The real constructors are evaluated on an exact-arithmetic grid and compared with the recurrences by TLC; all sequences of 3 (4) "
         "creations over 8 colliding specifications and exhaustive interleavings of two concurrent creators are executed on real roots and the bounds each histogram "
         "allocates are compared with the specification it was created with."),
   note="Trusted: the collision-preserving concretisation tables (float bit patterns / nanoseconds), the cached recording reporter, TLC. Constructors only on exactly representable arguments.",
   design_ref="DESIGN.md section 6 C20"),
}

# what the later rounds of seeded changes added to the conformance runs (appended to the texts above)
_ADDED = {
 "C02": " A gauge handle kept from a closed and re-acquired sub-scope (updates through it promise nothing and must not surface under a live gauge); free-running: update then pass, repeatedly, while another goroutine keeps the scope's gauge lock busy inside a slow AllocateGauge; a report pass or root Close that starts while an earlier pass is still blocked inside the reporter's Flush, after one more Update.",
 "C03": " A duration reaches a value histogram also through a stopwatch started from it; specifications of 32 / 63 / 64 / 65 bounds.",
 "C04": " SubScope children are closed and retired by a pass, then their parents and siblings emit again (tags of a scope never change over its lifetime).",
 "C07": " A SubScope child of a tagged scope is closed and retired while its parent, a sibling and a later scope keep emitting; free-running: four goroutines close one sub-scope handle at the same moment, the root closes its sub-scopes concurrently.",
 "C08": " A Close while a periodic pass is between two metrics of the root; scopes derived after Close from a sub-scope handle obtained before it.",
 "C09": " A closed child re-acquired by two goroutines at once; first use of sanitized names; histograms created at the same moment in different scopes from specifications whose bucket-cache identities collide; free-running: the first metrics of a fresh sub-scope requested by six goroutines at once, concurrent Record on one timer, the root's own identity asked for again under a sanitizer.",
 "C11": " Derivations that lead back to the root's own identity; first use of fresh counter names by all recorders at the same moment; several histograms of one tree with different bucket lists of the same length and sum; the empty metric name.",
 "C12": " Counters whose names run through a range of lengths so that one is charged exactly the free bytes of a packet; a first destination nobody listens on; IncludeHost and custom bucket tag names.",
 "C13": " Tag sets of 10 / 11 / 12 / 25 tags; plain handles shared by all goroutines and a hammer phase of 120 000 distinct values through one handle (duplicates counted per destination); a first destination nobody listens on.",
 "C15": " A destination that stops listening (sends are refused now and then, nothing arrives): the buffer is still empty after every Flush; a datagram that no Flush accounts for (e.g. sent by Close) is a violation.",
 "C14": " A panic raised inside the m3 package that kills the driver process (a goroutine of the reporter nobody can recover) is reported as NeverPanics with its stack.",
 "C16": " Every bucket of a histogram is charged for its own range tag (tags of different lengths).",
 "C17": " Duration specifications with a negative and a zero bound; Register* calls, label-name collisions, concurrent first use; bursts of up to 200 000 samples for one bucket in one pass.",
 "C18": " Bounds of a minute and more; one reporter used by several goroutines at once; a client that answers some calls with an error.",
 "C19": " A multi reporter among the children of a multi reporter; concurrent callers.",
 "C20": " A value set and a duration set with the same numbers under one root; a longer set created before its prefix when the extra bound contributes nothing to the cache identity; the buckets of a histogram are allocated in ascending order.",
 "C10": " The clock is stepped back between Start and Stop; typed-nil error values; with both reporters configured timers go through the cached handle; histories of several thousand values on one timer in every mode.",
 "C06": " A root without tags whose caller keeps dirtying the map it passed to Tagged.",
}
for _k, _v in _ADDED.items():
    CHECKS[_k]["text"] = CHECKS[_k]["text"] + _v

NOT_YET = "check not built yet in this session (work in progress; see DESIGN.md)"


def hook_commits():
    try:
        out = subprocess.run(["git", "-C", "/repo", "log", "--format=%h %s"], stdout=subprocess.PIPE, text=True).stdout
        return [l.split()[0] for l in out.splitlines() if l.split(" ", 1)[1].startswith("verif:")]
    except Exception:
        return []


def manifest():
    checks = []
    for pid in ALL:
        if pid not in CHECKS:
            continue
        c = CHECKS[pid]
        checks.append(dict(
            property_id=pid,
            quick_cmd="bin/check %s quick" % pid,
            thorough_cmd="bin/check %s thorough" % pid,
            evidence_file="/verif/evidence/%s.json" % pid,
            replay_cmd_template="bin/replay {path}",
            engine="tlc+vh",
            level_claimed=dict(category=c.get("category", "model_checking"), text=c["text"], design_ref=c["design_ref"]),
            level_note=c["note"],
            technique=c["technique"]))
    na = [dict(property_id=p, reason=NA.get(p, NOT_YET)) for p in ALL if p not in CHECKS]
    return dict(
        version=1,
        setup_cmd="bin/setup",
        hooks=dict(
            guard="verif",
            enable="go build -tags verif (harness module /verif/harness with replace github.com/uber-go/tally/v4 => /repo)",
            baseline_off_cmd="cd /repo && GOFLAGS=-mod=mod GOPROXY=off GOSUMDB=off go test -json -vet=off -count=1 -timeout 25m ./...",
            source_commits=hook_commits(),
            add_only=True),
        engines=[
            dict(name="tlc", path="/verif/specs", serves_properties=sorted(CHECKS), kind_free_text="TLA+ specifications model-checked with TLC; trace specifications (*Trace.tla) validate ndjson traces recorded from the real code"),
            dict(name="vh", path="/verif/harness", serves_properties=sorted(CHECKS), kind_free_text="Go harness built with -tags verif against /repo: controlled scheduler over hook points, case-table replay, recording reporters; emits ndjson traces"),
        ],
        checks=checks,
        notes="Model-based verification with explicit TLA+ specifications; see DESIGN.md. VIOLATION only from real-code traces judged by TLC; exit 2 = infrastructure.",
        not_applicable=na)

NA = {}
