"""C11 - a test scope's snapshot shows exactly what was recorded."""
import json, os
import vlib


def run(res, work, tier, seed):
    vlib.stage_specs(work)
    big = tier == "thorough"
    cfg = vlib.write_cfg(work, "ts.cfg", "TestScope.cfg", {"MaxOps": 5 if big else 4})
    vlib.mc_expect_ok(work, "TestScope.tla", cfg, "TestScope: all histories of %d ops over 2 ids" % (5 if big else 4), res, timeout=1500)
    for w in ("WeakSnapshotSharesState", "WeakCloseDropsSubscope", "WeakGaugeAccumulates"):
        c = vlib.write_cfg(work, "ts_%s.cfg" % w, "TestScope.cfg", {w: "TRUE"})
        vlib.mc_expect_violation(work, "TestScope.tla", c, "*", w, res, timeout=300)
    out = os.path.join(work, "c11")
    os.makedirs(out)
    vlib.stage_specs(out)
    vlib.run_vh(["c11", "-out", out, "-seed", seed, "-tier", tier], timeout=1800)
    meta = vlib.read_meta(out)
    trace = os.path.join(out, "trace.ndjson")
    fails, r = vlib.tlc_trace(out, "TestScopeTrace.tla", "TestScopeTrace.cfg", trace, meta["events"], timeout=3000)
    if r["violated"]:
        fails.append((0, "ModelInvariant:" + ",".join(r["violated"]), None))
    res.add_trace_run("TestScopeTrace", r, meta["cases"], meta["events"])
    res.states += r["distinct"]; res.transitions += r["generated"]
    lines = vlib.read_lines(trace)
    res.judge_fails(fails, lines, lambda ln: vlib.case_context(lines, max(ln, 1), lambda s: s.startswith('{"e":"new"')))
    res.evaluations += meta["evals"]
    res.distinct += meta["distinct"]
    res.samples += meta["samples"][:4]
    concurrent(res, work, tier, seed)
    res.rule = ("seeded random histories of %s operations on a real test scope and a random tree of 3 derived scopes (SubScope / Tagged incl. an empty tag value, three root "
                "prefixes, with and without root tags, 1-3 registry shards): counter increments (incl. negative, zero), gauge updates (incl. +Inf, subnormal, MaxFloat64), "
                "timer records (incl. Min/MaxInt64), value and duration histograms with unsorted / duplicated bounds and samples on the bounds, Close of sub-scopes, snapshots at "
                "arbitrary points; every snapshot is compared by TLC with the model state, an earlier snapshot is re-read after later recording, and the harness writes "
                "into the maps, tag maps and slices of a snapshot before taking the next one. Plus snapshots taken by two goroutines while 2-4 others record (a shared counter, per-goroutine "
                "counters, gauges, timers, histograms on the root and a tagged scope): per metric, what had returned when the snapshot was called <= value <= what had been called when it "
                "returned, timer values exactly 1..n in order. Distinct by operation history." % ("40" if big else "25"))
    res.assumptions += ["snapshot entries are abstracted to name{sorted tags}; the map key of every entry is additionally compared with KeyForPrefixedStringMap(name, tags)",
                        "names and tags here contain no key-format delimiters (identities that collide through them are the known finding of C05)"]


def concurrent(res, work, tier, seed):
    """'also concurrently with recording': SnapshotWindow.tla + the real test scope under free-running goroutines"""
    import os
    vlib.mc_expect_ok(work, "SnapshotWindow.tla", "SnapshotWindow.cfg", "SnapshotWindow: a snapshot (one read per counter, any order) against two recorders (call / add / return)", res, timeout=600)
    c = vlib.write_cfg(work, "sw_w.cfg", "SnapshotWindow.cfg", {"WeakSnapshotReadsReportedValue": "TRUE"})
    vlib.mc_expect_violation(work, "SnapshotWindow.tla", c, "WindowBound", "WeakSnapshotReadsReportedValue", res, timeout=300)
    out = os.path.join(work, "c11conc")
    os.makedirs(out)
    vlib.stage_specs(out)
    vlib.run_vh(["c11conc", "-out", out, "-seed", seed, "-tier", tier], timeout=2400)
    meta = vlib.read_meta(out)
    trace = os.path.join(out, "trace.ndjson")
    fails, r = vlib.tlc_trace(out, "SnapshotWindowTrace.tla", "SnapshotWindowTrace.cfg", trace, meta["events"], timeout=3000)
    if r["violated"] or not r["consumed"]:
        raise vlib.Infra("SnapshotWindowTrace did not consume the trace: %s\n%s" % (r["violated"], r["out"][-2000:]))
    res.add_trace_run("SnapshotWindowTrace", r, meta["cases"], meta["events"])
    res.states += r["distinct"]; res.transitions += r["generated"]
    lines = vlib.read_lines(trace)
    res.judge_fails(fails, lines, lambda ln: dict(failing_line=ln, snapshot=__import__("json").loads(lines[max(ln, 1) - 1])))
    res.evaluations += meta["evals"]
