"""C07 - closing a subscope loses nothing recorded before it and harms no other scope."""
import vlib

CLAUSES = {"NeverAhead", "NoNegativeDelta", "Conservation", "IdleCycleSilent", "ReacquireFresh", "NoCrash"}
BASE = dict(Script="ScriptC07a", Passers='{"p1"}', NObj=2)


def run(res, work, tier, seed):
    vlib.stage_specs(work)
    vlib.tallycore(work, res, "C07: <sub,inc,close,sub,inc> || pass", deadlock=True, **BASE)
    vlib.tallycore(work, res, "DevDeleteByKey", expect="Conservation", **dict(BASE, DevDeleteByKey="TRUE"))
    vlib.tallycore(work, res, "DevClosedAfterReport", expect="Conservation", **dict(BASE, DevClosedAfterReport="TRUE"))
    registry_keys(res, work, tier)
    if tier == "thorough":
        vlib.tallycore(work, res, "C07: two goroutines cycling on one identity || pass (4.7M states)", deadlock=True, timeout=3000,
                       Script="ScriptC07b", Apps='{"a1","a2"}', Passers='{"p1"}', NObj=4)
        vlib.tallycore(work, res, "C07: cycle || report loop (2 ticks) || root Close", deadlock=True,
                       Script="ScriptC07a", Passers="{}", Closers='{"z1"}', HasLoop="TRUE", MaxTicks=2, NObj=2)
    vlib.run_core_family(res, work, "c07", tier, seed, parts=6 if tier == "quick" else 12, clauses=CLAUSES, timeout=3400)
    from props import corestep
    corestep.run(res, work, tier, seed, "C07")   # step-level replay of the st-c07 scenarios through TallyCore.tla (drift, not a verdict)
    res.rule = ("executions of the real registry code under the controlled scheduler: DFS over the thread choices at the registry's lock hand-over "
                "(RUnlock / Lock / delete / re-RLock), the closed-flag read, the lookup and insert of Subscope (quick: reduced point set, exhaustive; "
                "thorough: all registry / metric-lock points, ~250k schedules) for one goroutine cycling obtain / record / Close / obtain / record against a "
                "report pass and against the real report loop; seeded random schedules over all points for three goroutines (same identity, tagged identity, "
                "child of a closed scope, double Close) with loop and explicit passes, 2 shards; the same cycles on a root whose sanitizer rewrites the tags "
                "(the scope is registered under two keys): DFS over the operations against two passes, random schedules for two goroutines. Per counter identity: promised <= delivered <= incremented at "
                "quiescence, never ahead at any step, no scope handed out that was closed before the request, no panic, no deadlock.")
    res.assumptions += [
        "an increment is 'promised' when it returned before Close of its scope object (or of the root) was called",
        "Go's writer-preferring RWMutex is not reproduced by gated schedules (a goroutine is only released into Lock when it is free); lock order is checked in the model",
    ]


def registry_keys(res, work, tier):
    """RegistryKeys.tla: the two registry keys of a scope whose tags the sanitizer rewrites (TallyCore has one key per scope)."""
    def cfg(name, **ov):
        ov = {k: ("TRUE" if v is True else "FALSE" if v is False else v) for k, v in ov.items()}
        return vlib.write_cfg(work, name, "RegistryKeys.cfg", ov)
    vlib.mc_expect_ok(work, "MCRegistryKeys.tla", cfg("rk1.cfg"), "RegistryKeys: <tagged,inc,close,tagged,inc,inc> || pass || pass, scope registered under its unsanitized and its sanitized key", res, timeout=1500)
    vlib.mc_expect_ok(work, "MCRegistryKeys.tla", cfg("rk2.cfg", Apps='{"a1", "a2"}', Passes='{"p1"}', Script="MCScript2", MaxObj=4 if tier == "thorough" else 3),
                      "RegistryKeys: two goroutines cycling on the identity || pass", res, timeout=3000)
    for w, inv in [("DevNoClosedCheckUnderWriteLock", "ReacquireFresh"), ("DevDeleteByKey", "Conservation"), ("WeakNoReportOnReacquire", "Conservation")]:
        vlib.mc_expect_violation(work, "MCRegistryKeys.tla", cfg("rk_%s.cfg" % w, **{w: True}), inv, "RegistryKeys " + w, res, timeout=600)
