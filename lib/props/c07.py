"""C07 - closing a subscope loses nothing recorded before it and harms no other scope."""
import vlib

CLAUSES = {"NeverAhead", "NoNegativeDelta", "Conservation", "IdleCycleSilent", "ReacquireFresh", "NoCrash", "ClosedParentInert"}
BASE = dict(Script="ScriptC07a", Passers='{"p1"}', NObj=2)


def run(res, work, tier, seed):
    vlib.stage_specs(work)
    vlib.tallycore(work, res, "C07: <sub,inc,close,sub,inc> || pass", deadlock=True, **BASE)
    vlib.tallycore(work, res, "DevDeleteByKey", expect="Conservation", **dict(BASE, DevDeleteByKey="TRUE"))
    vlib.tallycore(work, res, "DevClosedAfterReport", expect="Conservation", **dict(BASE, DevClosedAfterReport="TRUE"))
    registry_keys(res, work, tier)
    if tier == "thorough":
        vlib.tallycore(work, res, "C07: two goroutines cycling on one identity || pass (4.7M states)", deadlock=True, timeout=3000,
                       Script="ScriptC07b", Apps='{"a1","a2"}', Passers='{"p1"}', NObj=4)
        vlib.tallycore(work, res, "C07: cycle || report loop (2 ticks) || root Close", deadlock=True,
                       Script="ScriptC07a", Passers="{}", Closers='{"z1"}', HasLoop="TRUE", MaxTicks=2, NObj=2)
    vlib.run_core_family(res, work, "c07", tier, seed, parts=6 if tier == "quick" else 12, clauses=CLAUSES, timeout=3400)
    conc(res, work, tier, seed)
    from props import corestep
    corestep.run(res, work, tier, seed, "C07")   # step-level replay of the st-c07 scenarios through TallyCore.tla (drift, not a verdict)
    res.rule = ("executions of the real registry code under the controlled scheduler: DFS over the thread choices at the registry's lock hand-over "
                "(RUnlock / Lock / delete / re-RLock), the closed-flag read, the lookup and insert of Subscope (quick: reduced point set, exhaustive; "
                "thorough: all registry / metric-lock points, ~250k schedules) for one goroutine cycling obtain / record / Close / obtain / record against a "
                "report pass and against the real report loop; seeded random schedules over all points for three goroutines (same identity, tagged identity, "
                "child of a closed scope, double Close) with loop and explicit passes, 2 shards; the same cycles on a root whose sanitizer rewrites the tags "
                "(the scope is registered under two keys): DFS over the operations against two passes, random schedules for two goroutines. Per counter identity: promised <= delivered <= incremented at "
                "quiescence, never ahead at any step, no scope handed out that was closed before the request, no panic, no deadlock.")
    res.assumptions += [
        "an increment is 'promised' when it returned before Close of its scope object (or of the root) was called",
        "Go's writer-preferring RWMutex is not reproduced by gated schedules (a goroutine is only released into Lock when it is free); lock order is checked in the model",
    ]


def conc(res, work, tier, seed):
    """Free-running: several goroutines close one sub-scope handle at the same moment (the controlled scheduler cannot
    interleave inside the unhooked window between the check and the set of a closed flag)."""
    import os
    out = os.path.join(work, "conc")
    os.makedirs(out)
    vlib.stage_specs(out)
    vlib.run_vh(["c07conc", "-out", out, "-seed", seed, "-tier", tier], timeout=1800)
    meta = vlib.read_meta(out)
    trace = os.path.join(out, "trace.ndjson")
    fails, r = vlib.tlc_trace(out, "TallyObsTrace.tla", "TallyObsTrace.cfg", trace, meta["events"], timeout=3000, boundary='"e":"scn"')
    if r["violated"] or not r["consumed"]:
        raise vlib.Infra("TallyObsTrace did not consume the c07conc trace: %s\n%s" % (r["violated"], r["out"][-2000:]))
    res.add_trace_run("TallyObsTrace concurrent Close of one sub-scope (free-running)", r, meta["cases"], meta["events"])
    res.states += r["distinct"]; res.transitions += r["generated"]
    lines = vlib.read_lines(trace)
    res.judge_fails([f for f in fails if f[1] in CLAUSES], lines, lambda ln: vlib.case_context(lines, max(ln, 1), lambda s: '"e":"scn"' in s, max_lines=30))
    res.evaluations += meta["evals"]


def registry_keys(res, work, tier):
    """RegistryKeys.tla: the two registry keys of a scope whose tags the sanitizer rewrites (TallyCore has one key per scope)."""
    def cfg(name, **ov):
        ov = {k: ("TRUE" if v is True else "FALSE" if v is False else v) for k, v in ov.items()}
        return vlib.write_cfg(work, name, "RegistryKeys.cfg", ov)
    vlib.mc_expect_ok(work, "MCRegistryKeys.tla", cfg("rk1.cfg"), "RegistryKeys: <tagged,inc,close,tagged,inc,inc> || pass || pass, scope registered under its unsanitized and its sanitized key", res, timeout=1500)
    vlib.mc_expect_ok(work, "MCRegistryKeys.tla", cfg("rk2.cfg", Apps='{"a1", "a2"}', Passes='{"p1"}', Script="MCScript2", MaxObj=4 if tier == "thorough" else 3),
                      "RegistryKeys: two goroutines cycling on the identity || pass", res, timeout=3000)
    for w, inv in [("DevNoClosedCheckUnderWriteLock", "ReacquireFresh"), ("DevDeleteByKey", "Conservation"), ("WeakNoReportOnReacquire", "Conservation")]:
        vlib.mc_expect_violation(work, "MCRegistryKeys.tla", cfg("rk_%s.cfg" % w, **{w: True}), inv, "RegistryKeys " + w, res, timeout=600)
