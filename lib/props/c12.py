"""C12 - no M3 datagram exceeds the configured maximum packet size."""
import json, os
import vlib
from props import m3common

BINVS = "NoDropNoDup ChargedWithinFree OverflowStartsNext NoEmptyBatch DatagramWithinLimit"


def bcfg(work, name, invariants=None, **ov):
    ov = {k: ("TRUE" if v is True else "FALSE" if v is False else v) for k, v in ov.items()}
    c = vlib.write_cfg(work, name, "M3Batching.cfg", ov)
    if invariants:
        p = os.path.join(work, name)
        src = open(p).read().replace("INVARIANTS " + BINVS, "INVARIANTS " + invariants)
        open(p, "w").write(src)
    return c


def run(res, work, tier, seed):
    vlib.stage_specs(work)
    big = tier == "thorough"
    vlib.mc_expect_ok(work, "M3Batching.tla", bcfg(work, "b.cfg", MaxItems=5 if big else 4),
                      "M3Batching: all sequences of <= %d items (charged sizes 2,3,4,6 of free 6, actual <= charged, bucket / plain, flush markers anywhere, Close)" % (5 if big else 4), res, timeout=3000)
    for const, inv in [("DevBucketTagsUncharged", "DatagramWithinLimit"), ("DevEnvelopeConst", "DatagramWithinLimit"), ("WeakCheckAfterAppend", "ChargedWithinFree"),
                       ("WeakNoResetOfBytes", "ChargedWithinFree"), ("WeakFlushDropsOverflowing", "NoDropNoDup")]:
        vlib.mc_expect_violation(work, "M3Batching.tla", bcfg(work, "w_%s.cfg" % const, invariants=inv, MaxItems=4, **{const: True}), inv, const, res, timeout=600)
    # the batching loop inside the threaded model (queue, Flush markers from a concurrent thread, Close)
    vlib.mc_expect_ok(work, "MCM3Reporter.tla", m3common.cfg(work, "m3_a.cfg", Closers='{"c1"}', invariants="BatchWithinFree OpenBatchWithinFree OrderPreserved AtMostOnce"),
                      "M3Reporter: batches within free bytes under all interleavings of producers, Flush and Close", res, timeout=3000)
    # real code
    out = os.path.join(work, "c12")
    os.makedirs(out)
    vlib.stage_specs(out)
    vlib.run_vh(["c12", "-out", out, "-seed", seed, "-tier", tier], timeout=3000)
    meta = vlib.read_meta(out)
    trace = os.path.join(out, "trace.ndjson")
    fails, r = vlib.tlc_trace(out, "M3BatchingTrace.tla", "M3BatchingTrace.cfg", trace, meta["events"], timeout=3000, xss=True)
    if r["violated"] or not r["consumed"]:
        raise vlib.Infra("M3BatchingTrace did not consume the trace: %s\n%s" % (r["violated"], r["out"][-3000:]))
    res.add_trace_run("M3BatchingTrace", r, meta["cases"], meta["events"])
    res.states += r["distinct"]; res.transitions += r["generated"]
    lines = vlib.read_lines(trace)
    drift = [f for f in fails if f[1].startswith("Drift:")]
    real = [f for f in fails if not f[1].startswith("Drift:")]
    if drift:
        res.drift.append(dict(count=len(drift), first=dict(line=drift[0][0], clause=drift[0][1])))
    res.judge_fails(real, lines, lambda ln: vlib.case_context(lines, max(ln, 1), lambda s: '"e":"cfg"' in s, max_lines=60))
    if meta.get("hung"):
        # a hang of the reporter is C14's subject; the cases completed before it are judged here
        res.extra.setdefault("other_property_observations", {})["NoDeadlock"] = "the reporter hung in case %d: %s" % (meta["cases"] + 1, meta.get("where"))
    res.evaluations += meta["evals"]
    res.distinct += meta["distinct"]
    res.samples += meta["samples"][:3]
    # datagram lengths in the scheduler-driven executions (incl. 420-byte packets)
    m3common.sched_runs(res, work, tier, seed, m3common.C12, parts=5)
    res.rule = ("seeded cases over the model's shape domain: metric kind {counter, gauge, timer, value-histogram bucket, duration-histogram bucket} x name length {1, 30, 1..600} x {0, 1, 8} tags x "
                "values at the extremes of their encodings (Min/MaxInt64, MaxFloat64, NaN) x {Compact, Binary} x {0, 3, 8} extra common tags x thrift sequence ids at every varint length "
                "(0, 126, 16382, 2097150, ~2^31) x MaxPacketSizeBytes from just above overhead + largest metric up to 65000, histogram-only traffic, 40-200 (5000) reports with Flush at random positions, then "
                "Close. The batching loop's observation hooks give the charged size of every dequeued item; every datagram is decoded and each metric re-encoded alone with the real protocol (actual "
                "size; the rest of the datagram is the envelope). TLC replays the dequeued items through M3Batching!Recv, requires every emit where the model emits and with the model's batch length, "
                "and evaluates A1 (charged >= actual), A2 (overhead >= envelope), datagram <= MaxPacketSizeBytes, overflow-starts-next-packet, no drop / duplicate. Distinct by (protocol, common tags, "
                "sequence id, packet size, shapes).")
    res.assumptions += ["'provided each single metric fits on its own' is taken as: charged size <= freeBytes (cases with a larger metric are replayed but not judged on the datagram bound)",
                        "actual per-metric size = the length of the decoded metric re-encoded alone with the same protocol (struct encodings are context-free in both protocols)"]
