"""C20 - bucket constructors are exact and a histogram keeps the bounds it was given."""
import os
import vlib


def run(res, work, tier, seed):
    vlib.stage_specs(work)
    for req in ("ReqA", "ReqB", "ReqSeq"):
        thr = '{"t1"}' if req == "ReqSeq" else '{"t1", "t2"}'
        cfg = vlib.write_cfg(work, "bk_%s.cfg" % req, "MCBuckets.cfg", {"Requests": req, "Threads": thr})
        vlib.mc_expect_ok(work, "MCBuckets.tla", cfg, "bucket cache, colliding specifications (%s)" % req, res, timeout=900)
    for w in ("WeakNoEqualityRecheck", "WeakKindBlindEquality"):
        c = vlib.write_cfg(work, "bk_%s.cfg" % w, "MCBuckets.cfg", {w: "TRUE"})
        vlib.mc_expect_violation(work, "MCBuckets.tla", c, "KeepsOwnBounds", w, res, timeout=300)
    # constructors and sequential creation histories
    out = os.path.join(work, "c20")
    os.makedirs(out)
    vlib.stage_specs(out)
    vlib.run_vh(["c20", "-out", out, "-seed", seed, "-tier", tier], timeout=1800)
    meta = vlib.read_meta(out)
    trace = os.path.join(out, "trace.ndjson")
    fails, r = vlib.tlc_trace(out, "BucketsTrace.tla", "BucketsTrace.cfg", trace, meta["events"], timeout=3000)
    if r["violated"]:
        fails.append((0, "ModelInvariant:" + ",".join(r["violated"]), None))
    res.add_trace_run("BucketsTrace", r, meta["cases"], meta["events"])
    res.states += r["distinct"]; res.transitions += r["generated"]
    lines = vlib.read_lines(trace)
    import json
    res.judge_fails(fails, lines, lambda ln: dict(failing_line=ln, events=[json.loads(x) for x in lines[max(0, ln - 8):ln]]))
    res.evaluations += meta["evals"]
    res.distinct += meta["distinct"]
    res.samples += meta["samples"][:3]
    # concurrent creations under the controlled scheduler
    vlib.run_core_family(res, work, "c20", tier, seed, parts=4, clauses={"KeepsOwnBounds", "NoCrash", "SameObject"}, timeout=3400)
    res.rule = ("constructors: a grid of (start, width | factor p/q, n) incl. n <= 0, start <= 0, factor <= 1, negative widths, on float64 values scaled by 1, 1/4, 1024 and "
                "durations in units of 1ns, 1ms, 1h (arithmetic exact), exponential duration buckets with non-integral factors (per-step truncation), plain and Must "
                "variants; bucket cache: all sequences of %d histogram creations over 8 specifications whose cache identities collide (permutations, equal sums of bit "
                "patterns, value vs duration with equal bit patterns, duplicates) under one root in different scopes, bounds observed through the cached reporter's bucket "
                "allocations; caller slices compared before/after; two goroutines creating colliding histograms concurrently: DFS over the cache's probe / insert / "
                "equality-check points." % (4 if tier == "thorough" else 3))
    res.assumptions += ["constructors are only claimed where start + i*width and repeated multiplication are exact in float64 (integers and dyadic scalings); other arguments are not generated",
                        "a caller that modifies its bucket slice after handing it to Histogram() is outside the quantifier"]
