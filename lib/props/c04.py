"""C04 - reported names and tags follow the scope derivation exactly."""
import os
import vlib

NAMING_CLAUSES = {"NameFollowsDerivation", "TagsFollowDerivation", "CallerMapUntouched"}


def naming_run(res, work, tier, seed, mode, clauses, matcher=None):
    out = os.path.join(work, "naming-" + mode)
    os.makedirs(out)
    vlib.stage_specs(out)
    vlib.run_vh(["naming", "-mode", mode, "-out", out, "-seed", seed, "-tier", tier], timeout=1800)
    meta = vlib.read_meta(out)
    trace = os.path.join(out, "trace.ndjson")
    fails, r = vlib.tlc_trace(out, "ScopeNamingTrace.tla", "ScopeNamingTrace.cfg", trace, meta["events"], timeout=3000)
    if r["violated"]:
        fails.append((0, "ModelInvariant:" + ",".join(r["violated"]), None))
    res.add_trace_run("ScopeNamingTrace " + mode, r, meta["cases"], meta["events"])
    res.states += r["distinct"]; res.transitions += r["generated"]
    lines = vlib.read_lines(trace)
    fails = [f for f in fails if clauses is None or f[1].split(":")[0] in clauses]
    res.judge_fails(fails, lines, lambda ln: root_context(lines, ln), known_matcher=matcher)
    res.evaluations += meta["evals"]
    res.distinct += meta["distinct"]
    res.samples += meta["samples"][:4]
    return meta


def root_context(lines, ln):
    """the root event, the derivation events of the handles involved and the failing event"""
    import json
    i = max(ln, 1) - 1
    s = i
    while s > 0 and '"e":"root"' not in lines[s]:
        s -= 1
    fail = json.loads(lines[i])
    need = {fail.get(k) for k in ("h", "a", "b") if fail.get(k) is not None}
    derivs = {}
    for x in lines[s + 1:i]:
        if x.startswith('{"e":"sub"') or x.startswith('{"e":"tag"'):
            o = json.loads(x)
            derivs[o["h"]] = o
    chain = []
    todo = list(need)
    while todo:
        h = todo.pop()
        if h in derivs and derivs[h] not in chain:
            chain.append(derivs[h])
            todo.append(derivs[h]["p"])
    chain.sort(key=lambda o: o["h"])
    return dict(root=json.loads(lines[s]), derivation=chain, failing_event=fail, failing_line=ln)


def model(res, work, weak):
    vlib.mc_expect_ok(work, "MCScopeNaming.tla", "MCScopeNaming.cfg", "ScopeNaming algebra (all roots x maps x names)", res, timeout=900)
    for w, inv in weak:
        c = vlib.write_cfg(work, "sn_%s.cfg" % w, "MCScopeNaming.cfg", {w: "TRUE"})
        vlib.mc_expect_violation(work, "MCScopeNaming.tla", c, inv, w, res, timeout=300)


def run(res, work, tier, seed):
    vlib.stage_specs(work)
    model(res, work, [("WeakLeftBiasedMerge", "*"), ("WeakLeadingSeparator", "*"), ("WeakTaggedAppendsPrefix", "*")])
    naming_run(res, work, tier, seed, "c04", NAMING_CLAUSES)
    res.exhaustive = True
    res.rule = ("all derivation programs of depth 0..%d over {SubScope(a|b|''|a.b), Tagged of 6 maps incl. empty, overlapping and re-tagging maps} on roots with empty / simple / "
                "dotted prefix, default / custom / multi-character separator, with and without root tags; one metric of each kind recorded through the final handle of every "
                "program; plain reporter (Report* arguments), cached reporter (Allocate* arguments), test scope (Snapshot); string tables: ASCII, multi-byte UTF-8, invalid "
                "UTF-8 bytes, 40-byte repetitions; a sanitizer configuration (names/keys/values mapped per character); caller maps compared before/after and mutated "
                "afterwards followed by another report. A case is distinct by (root, table, path)." % (3 if tier == "thorough" else 2))
    res.assumptions += [
        "abstract strings are decoded from the reported bytes through an order-preserving, uniquely decodable table; '?' marks bytes that are no image",
        "with a sanitizer the expected strings use a per-character table derived from the options (C06 decides the sanitizer itself)",
        "Tagged maps whose keys collide after sanitizing are not generated (their meaning depends on map iteration order)",
    ]
