"""Shared by C12 / C13 / C14: model checking of M3Reporter.tla and the scheduler-driven executions of the real
M3 reporter (vh m3sched) judged by TLC against M3ObsTrace.tla."""
import json, os
from concurrent.futures import ThreadPoolExecutor
import vlib

INVS = ("NoSendOnClosedQueue SecondCloseErrors AfterCloseNoop NoLeak PendingBalanced NoDeadlock AtMostOnce ReturnedBeforeCloseDelivered "
        "NothingPendingAfterClose TimestampBracket BatchWithinFree OpenBatchWithinFree OrderPreserved")
C14 = {"NoSendOnClosedQueue", "NoDeadlock", "SecondCloseErrors", "AfterCloseNoop", "NoLeak", "PendingBalanced"}
C13 = {"AtMostOnce", "ReturnedBeforeCloseDelivered", "TimestampBracket", "OrderPreserved", "Intact:metric-nobody-reported", "Intact:kind", "Intact:tags",
       "CommonTagsEverywhere", "OneMessagePerDatagram", "CloseDrains:emit-after-Close-returned", "EveryDestinationGetsEveryBatch"}
C12 = {"DatagramWithinLimit"}


def cfg(work, name, invariants=None, **ov):
    ov = {k: ("TRUE" if v is True else "FALSE" if v is False else v) for k, v in ov.items()}
    c = vlib.write_cfg(work, name, "M3Reporter.cfg", ov)
    if invariants:
        p = os.path.join(work, name)
        s = open(p).read().replace("INVARIANTS " + INVS, "INVARIANTS " + invariants)
        open(p, "w").write(s)
    return c


def model(res, work, tier, weak):
    """weak: [(constant, invariant expected to fail)] of the calling property"""
    big = tier == "thorough"
    vlib.mc_expect_ok(work, "MCM3Reporter.tla", cfg(work, "m3_a.cfg", Closers='{"c1"}'),
                      "M3Reporter: 2 producers, Flush (1 internal metric, blocking marker send), Close + late report, queue 1, all interleavings", res, timeout=3000)
    vlib.mc_expect_ok(work, "MCM3Reporter.tla", cfg(work, "m3_b.cfg", Flushers="{}"), "M3Reporter: 2 producers, 2 concurrent Close callers, queue 1", res, timeout=3000)
    if big:
        vlib.mc_expect_ok(work, "MCM3Reporter.tla", cfg(work, "m3_c.cfg"), "M3Reporter: 2 producers, Flush, 2 Close callers (3.2M states)", res, timeout=3000)
        vlib.mc_expect_ok(work, "MCM3Reporter.tla", cfg(work, "m3_d.cfg", Closers='{"c1"}', Flushers="{}", NRep=2, QCap=2, Free=5),
                          "M3Reporter: 2 producers x 2 reports, queue 2, Close", res, timeout=3000)
        vlib.mc_expect_ok(work, "MCM3Reporter.tla", cfg(work, "m3_e.cfg", Closers='{"c1"}', Producers='{"p1"}', EmitFails=True, NRep=2),
                          "M3Reporter: emit may fail at any batch (destination gone)", res, timeout=3000)
    for w in weak:
        const, inv = w[0], w[1]
        ov = dict(Closers='{"c1"}')
        if len(w) > 2:
            ov.update(w[2])
        ov[const] = True
        vlib.mc_expect_violation(work, "MCM3Reporter.tla", cfg(work, "w_%s.cfg" % const, invariants=inv, **ov), inv, const, res, timeout=900)


def sched_runs(res, work, tier, seed, clauses, parts=5, only=None, matcher=None, step_level=False):
    vlib.build_harness()

    def one(i):
        d = os.path.join(work, "m3s-p%d" % i)
        os.makedirs(d, exist_ok=True)
        vlib.stage_specs(d)
        args = ["m3sched", "-out", d, "-seed", seed + i * 1000003, "-tier", tier, "-part", "%d/%d" % (i, parts)]
        if only:
            args += ["-only", only]
        vlib.run_vh(args, timeout=3000)
        meta = vlib.read_meta(d)
        if meta["execs"] == 0:
            return d, meta, [], None
        fails, r = vlib.tlc_trace(d, "MCM3ObsTrace.tla", "M3ObsTrace.cfg", os.path.join(d, "trace.ndjson"), meta["events"], timeout=3000, boundary='"e":"scn"')
        if r["violated"] or not r["consumed"]:
            raise vlib.Infra("M3ObsTrace did not consume the trace of part %d: %s\n%s" % (i, r["violated"], r["out"][-3000:]))
        if step_level and meta.get("step_events", 0) > 0:
            step_validate_all(res, d, meta, selftest=True)
        return d, meta, fails, r

    with ThreadPoolExecutor(max_workers=min(parts, 6)) as ex:
        outs = list(ex.map(one, range(parts)))
    other = {}
    for d, meta, fails, r in outs:
        res.evaluations += meta["execs"]
        res.extra.setdefault("scenarios", []).extend(meta.get("scenarios") or [])
        res.extra["steps"] = res.extra.get("steps", 0) + meta["steps"]
        res.distinct += meta["distinct"]
        if meta.get("stuck"):
            raise vlib.Infra("scheduler: %d executions got stuck (%s)" % (meta["stuck"], meta.get("stuck_msg")))
        if r is None:
            continue
        res.add_trace_run("M3ObsTrace part", r, meta["execs"], meta["events"])
        res.states += r["distinct"]; res.transitions += r["generated"]
        if len(res.samples) < 4:
            res.samples.extend(meta.get("samples", [])[:2])
        if not fails:
            continue
        lines = vlib.read_lines(os.path.join(d, "trace.ndjson"))
        scheds = None
        for (ln, clause, extra) in fails:
            if clause not in clauses:
                other[clause] = other.get(clause, 0) + 1
                continue
            ctx = vlib.case_context(lines, ln, lambda s: s.startswith('{"closers"') or '"e":"scn"' in s[:80] or '"e":"scn"' in s, max_lines=120)
            x = ctx["events"][0].get("x")
            if scheds is None:
                scheds = {}
                for sl in vlib.read_lines(os.path.join(d, "scheds.ndjson")):
                    o = json.loads(sl)
                    scheds[o["x"]] = o
            ctx["execution"] = scheds.get(x)
            if len([v for v in res.violations if v["clause"] == clause]) < 2 and len(set(v["replay"] for v in res.violations)) < 10:
                res.violation(clause, "scenario %s execution %s trace line %d" % ((ctx["execution"] or {}).get("scenario"), x, ln), ctx)
            else:
                same = [v for v in res.violations if v["clause"] == clause] or res.violations
                res.violations.append(dict(clause=clause, detail="", replay=same[0]["replay"]))
    if other:
        res.extra["other_property_observations"] = other
    return outs


_RE_CONSUMED = __import__("re").compile(r'<<"CONSUMED", (\d+), (\d+)>>')


def _run_steps(d):
    r = vlib.tlc(d, "MCM3StepTrace.tla", "M3StepTrace.cfg", workers=1, timeout=3000, deque=True)
    m = _RE_CONSUMED.search(r["out"])
    if not m:
        raise vlib.Infra("M3StepTrace did not report how much of the step trace it consumed (rc=%d)\n%s" % (r["rc"], r["out"][-3000:]))
    return int(m.group(1)), int(m.group(2)), r


def step_validate_all(res, d, meta, selftest=False):
    """Step-level conformance of every scenario of this part: one step file per scenario (its first line carries the model
    constants), each replayed through M3Reporter.tla."""
    import shutil
    files = meta.get("step_files") or []
    did = False
    for f in files:
        src = os.path.join(d, f)
        if not os.path.exists(src) or os.path.getsize(src) == 0:
            continue
        sd = os.path.join(d, "st-" + f.replace(".ndjson", ""))
        os.makedirs(sd, exist_ok=True)
        for x in os.listdir(d):
            if x.endswith(".tla") or x.endswith(".cfg"):
                shutil.copyfile(os.path.join(d, x), os.path.join(sd, x))
        shutil.copyfile(src, os.path.join(sd, "steps.ndjson"))
        n = len(vlib.read_lines(os.path.join(sd, "steps.ndjson")))
        step_validate(res, sd, n, selftest=(selftest and not did and f.startswith("steps-hs-")), label=f)
        did = did or f.startswith("steps-hs-")
        shutil.rmtree(sd, ignore_errors=True)


def step_validate(res, d, nlines, selftest=False, label=""):
    """Step-level conformance: every granted step of the handshake scenarios must be the action of M3Reporter.tla for that
    thread and label, from a state with the logged projection.  A rejected step is DRIFT (recorded, not a verdict)."""
    consumed, total, r = _run_steps(d)
    res.add_trace_run("M3StepTrace %s (every granted step replayed through M3Reporter.tla)" % label, r, 0, total)
    res.states += r["distinct"]; res.transitions += r["generated"]
    res.extra["step_level_lines"] = res.extra.get("step_level_lines", 0) + consumed
    lines = vlib.read_lines(os.path.join(d, "steps.ndjson"))
    if consumed < total:
        bad = lines[consumed] if consumed < len(lines) else ""
        res.drift.append(dict(module="M3StepTrace", file=label, consumed=consumed, total=total, rejected_step=bad))
        print("DRIFT (not a verdict): line %d of %s is not an action of M3Reporter.tla from the logged state: %s" % (consumed + 1, label, bad))
    elif selftest and total > 200:
        # the binding is demonstrated on every run: one corrupted projection and one removed step must be rejected at that line
        good = os.path.join(d, "steps.good.ndjson")
        os.rename(os.path.join(d, "steps.ndjson"), good)
        i = next(k for k in range(total // 3, total) if '"pending"' in lines[k] and '"m3r_inc"' in lines[k])  # not a stutter label
        o = json.loads(lines[i]); o["pending"] += 1
        open(os.path.join(d, "steps.ndjson"), "w").write("\n".join(lines[:i] + [json.dumps(o)] + lines[i + 1:]) + "\n")
        c1, _, _ = _run_steps(d)
        # remove one m3r_done step: the same thread's next step (m3r_now) is then not the model's action at its label;
        # steps of other threads in between are still consumed
        j = want = None
        for k in range(total // 2, total):
            if '"m3r_done"' not in lines[k]:
                continue
            t = json.loads(lines[k])["t"]
            for k2 in range(k + 1, total):
                o2 = json.loads(lines[k2])
                if o2.get("e") != "step":
                    break
                if o2.get("t") == t:
                    j, want = k, k2 - 1
                    break
            if j is not None:
                break
        c2 = None
        if j is not None:
            open(os.path.join(d, "steps.ndjson"), "w").write("\n".join(lines[:j] + lines[j + 1:]) + "\n")
            c2, _, _ = _run_steps(d)
        os.rename(good, os.path.join(d, "steps.ndjson"))
        if c1 != i or c2 != want:
            raise vlib.Infra("binding self-test failed: a corrupted projection at line %d was consumed up to %d; with the step at line %s removed %s lines were consumed, expected %s" % (i + 1, c1, j, c2, want))
        res.extra["binding_selftest"] = "corrupted projection rejected at line %d; with the step at line %d removed, the same thread's next step was rejected" % (i + 1, j + 1)
