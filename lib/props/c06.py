"""C06 - everything handed to a reporter is sanitized; valid input passes unchanged."""
import os
import vlib


def run(res, work, tier, seed):
    vlib.stage_specs(work)
    big = tier == "thorough"
    cfg = vlib.write_cfg(work, "san.cfg", "Sanitize.cfg", {"MaxLen": 5 if big else 4})
    vlib.mc_expect_ok(work, "Sanitize.tla", cfg, "Sanitize: all class sequences x configurations", res, timeout=1500)
    for w, inv in [("DevFFFDAllowedPassesInvalid", "OnlyAllowedOrReplacement"), ("WeakExclusiveRangeEnd", "*"), ("WeakNoBackfill", "*")]:
        c = vlib.write_cfg(work, "san_%s.cfg" % w, "Sanitize.cfg", {w: "TRUE", "MaxLen": 3})
        vlib.mc_expect_violation(work, "Sanitize.tla", c, inv, w, res, timeout=300)
    pc = vlib.write_cfg(work, "pool.cfg", "SanitizePool.cfg", {"Calls": 3 if big else 2})
    vlib.mc_expect_ok(work, "SanitizePool.tla", pc, "SanitizePool: 2 threads", res, timeout=900)
    for w in ("WeakResultAliasesBuffer", "WeakPutBeforeString"):
        c = vlib.write_cfg(work, "pool_%s.cfg" % w, "SanitizePool.cfg", {w: "TRUE"})
        vlib.mc_expect_violation(work, "SanitizePool.tla", c, "ResultsStable", w, res, timeout=300)
    out = os.path.join(work, "c06")
    os.makedirs(out)
    vlib.stage_specs(out)
    vlib.run_vh(["c06", "-out", out, "-seed", seed, "-tier", tier], timeout=1800)
    meta = vlib.read_meta(out)
    trace = os.path.join(out, "trace.ndjson")
    fails, r = vlib.tlc_trace(out, "SanitizeTrace.tla", "SanitizeTrace.cfg", trace, meta["events"], timeout=3000, xss=True)
    if r["violated"]:
        fails.append((0, "ModelInvariant:" + ",".join(r["violated"]), None))
    res.add_trace_run("SanitizeTrace", r, meta["cases"], meta["events"])
    res.states += r["distinct"]; res.transitions += r["generated"]
    lines = vlib.read_lines(trace)
    import json
    res.judge_fails(fails, lines, lambda ln: dict(failing_line=ln, event=json.loads(lines[max(ln, 1) - 1])))
    res.evaluations += meta["evals"]
    res.distinct += meta["distinct"]
    res.samples += meta["samples"][:4]
    res.rule = ("for the M3 and Prometheus default options, an all-runes / U+FFFD-allowing configuration and seeded random SanitizeOptions (empty, single-rune, overlapping "
                "ranges in ASCII / Latin / CJK / astral planes, extra characters, replacement inside or outside the allowed set): every sequence of rune classes up to "
                "length %d (valid 1-byte, valid multi-byte, rune at a range end, invalid just outside a range end, invalid multi-byte, the replacement, U+FFFD, an invalid "
                "byte) through Name / Key / Value, plus 4 KiB repetitions; same-string (no copy) observed via the data pointer; second application for idempotence; every "
                "string a scope with those options hands to a recording reporter (prefix, separator, subscope names, tags at every level, cardinality metric names and "
                "tags); 8 goroutines x 4000 calls re-read at the end. Distinct by (options, role)." % (4 if big else 3))
    res.assumptions += ["a replacement rune that is not a Unicode scalar value is not generated",
                        "class images are concrete runes chosen per ValidCharacters value (range ends +-1 always included); outputs are abstracted back rune by rune"]
