"""C08 - root Close is a complete, idempotent shutdown barrier."""
import vlib

CLAUSES = {"CloseBarrier", "QuietAfterClose", "ReporterClosedOnce", "ReporterClosedAfterFlush", "LoopEnded", "CloseErrorPropagated",
           "InertAfterClose", "NeverAhead", "NoNegativeDelta", "Conservation", "NoCrash"}
BASE = dict(Script="ScriptC08", Passers="{}", Closers='{"z1"}', HasLoop="TRUE", MaxTicks=2, NObj=1)


def run(res, work, tier, seed):
    vlib.stage_specs(work)
    vlib.tallycore(work, res, "C08: recorder || loop (2 ticks) || Close", deadlock=True, **BASE)
    vlib.tallycore(work, res, "C08: two concurrent Close callers", deadlock=True, **dict(BASE, Closers='{"z1","z2"}', MaxTicks=1))
    for dev, inv in [("DevCloseNoWait", "*"), ("DevPurgeAnyPass", "CloseBarrier"), ("WeakNoFinalPass", "CloseBarrier")]:
        vlib.tallycore(work, res, dev, expect=inv, **dict(BASE, **{dev: "TRUE"}))
    vlib.tallycore(work, res, "DevNoCloseMutex (second closer returns early)", expect="*", **dict(BASE, Closers='{"z1","z2"}', MaxTicks=1, DevNoCloseMutex="TRUE"))
    if tier == "thorough":
        vlib.tallycore(work, res, "C08: no interval (no loop goroutine), two closers", deadlock=True, **dict(BASE, HasLoop="FALSE", MaxTicks=0, Closers='{"z1","z2"}'))
        # n.b. GaugeFresh (C02) is not an invariant once a root Close is in the picture: an Update in flight when Close is called is promised
        #      nothing, and the pass that sees the root closed unregisters it (TLC shows it in 46 steps); C08's own invariants are checked
        vlib.tallycore(work, res, "C08: gauge + subscope, loop (3 ticks), Close", deadlock=True, drop_invariants=("GaugeFresh",), **dict(BASE, Script="ScriptC08g", MaxTicks=3))
    vlib.run_core_family(res, work, "c08", tier, seed, parts=12, clauses=CLAUSES, timeout=3400)
    free(res, work, tier, seed)
    from props import corestep
    corestep.run(res, work, tier, seed, "C08")   # step-level replay of the st-c08 scenarios through TallyCore.tla (drift, not a verdict)
    res.rule = ("executions of the real root scope under the controlled scheduler with the real report loop goroutine (ticks handed out by the scheduler, so Close can arrive "
                "before the first tick, between ticks, while the periodic pass is part-way through the registry or held inside a reporter call): DFS over the loop / "
                "Close / pass points for recorder || loop || one Close caller (plain / cached, reporter with and without io.Closer and a Close error); seeded random "
                "schedules over all points for two concurrent Close callers, repeated Close, scopes obtained and handles used after Close, and a root without interval.")
    res.assumptions += [
        "'the reporting goroutine has ended' is observed as: the loop goroutine has passed its exit hook (after which it only runs its deferred wg.Done / ticker.Stop)",
        "a slow reporter is modelled by parking the calling goroutine at the reporter call",
    ]


def free(res, work, tier, seed):
    """Free-running: create a root with an interval, record, Close at once (the scheduler-driven scenarios always let the
    reporting goroutine reach its first hook first); a goroutine dump taken when Close returns must not show the loop."""
    import os
    out = os.path.join(work, "free")
    os.makedirs(out)
    vlib.stage_specs(out)
    vlib.run_vh(["c08free", "-out", out, "-seed", seed, "-tier", tier], timeout=1800)
    meta = vlib.read_meta(out)
    trace = os.path.join(out, "trace.ndjson")
    fails, r = vlib.tlc_trace(out, "TallyObsTrace.tla", "TallyObsTrace.cfg", trace, meta["events"], timeout=3000, boundary='"e":"scn"')
    if r["violated"] or not r["consumed"]:
        raise vlib.Infra("TallyObsTrace did not consume the c08free trace: %s\n%s" % (r["violated"], r["out"][-2000:]))
    res.add_trace_run("TallyObsTrace create / record / Close at once (free-running)", r, meta["cases"], meta["events"])
    res.states += r["distinct"]; res.transitions += r["generated"]
    lines = vlib.read_lines(trace)
    res.judge_fails([f for f in fails if f[1] in CLAUSES], lines, lambda ln: vlib.case_context(lines, max(ln, 1), lambda s: '"e":"scn"' in s, max_lines=30))
    res.evaluations += meta["evals"]
