"""C17 - Prometheus exposes what was recorded; registration conflicts never crash."""
import json, os
import vlib
from props import c19


def cfg(work, name, base, **ov):
    ov = {k: ("TRUE" if v is True else "FALSE" if v is False else v) for k, v in ov.items()}
    return vlib.write_cfg(work, name, base, ov)


def run(res, work, tier, seed):
    vlib.stage_specs(work)
    big = tier == "thorough"
    vlib.mc_expect_ok(work, "PromReporter.tla", cfg(work, "p_conf.cfg", "PromReporter.cfg", MaxOps=5 if big else 4),
                      "PromReporter: all sequences of <= %d first uses over 2 names x 4 kinds x 2 key sets x timer flavour x callback flavour" % (5 if big else 4), res, timeout=3000)
    vlib.mc_expect_ok(work, "PromReporter.tla", cfg(work, "p_val.cfg", "PromReporterValues.cfg", MaxOps=5 if big else 4),
                      "PromReporter: first uses and records (all bucket specs over 2 bounds, all sample positions, 2 tag values)", res, timeout=3000)
    for name, base, inv in [("DevCrossKindNilSlot", "PromReporter.cfg", "NeverPanicsWhenCallbackReturns"), ("WeakNoNoopOnError", "PromReporter.cfg", "NeverPanicsWhenCallbackReturns"),
                            ("WeakCallbackSkipped", "PromReporter.cfg", "RejectionReported"), ("WeakObserveLowerBound", "PromReporterValues.cfg", "Exposed"),
                            ("WeakCounterSet", "PromReporterValues.cfg", "Exposed"), ("WeakSharedSeries", "PromReporterValues.cfg", "SeriesSeparate")]:
        vlib.mc_expect_violation(work, "PromReporter.tla", cfg(work, "w_%s.cfg" % name, base, **{name: True}), inv, name, res, timeout=600)
    meta, fails, lines = c19.simple_trace_check(res, work, "c17", "PromReporterTrace.tla", "PromReporterTrace.cfg", '"e":"new"', tier, seed)
    drift = [f for f in fails if f[1].startswith("Drift:")]
    real = [f for f in fails if not f[1].startswith("Drift:")]
    if drift:
        res.drift.append(dict(count=len(drift), first=dict(line=drift[0][0], clause=drift[0][1])))
        print("DRIFT (not a verdict): %s" % json.dumps(res.drift))
    res.judge_fails(real, lines, lambda ln: vlib.case_context(lines, max(ln, 1), lambda s: '"e":"new"' in s, max_lines=60))
    res.evaluations += meta["evals"]
    res.distinct += meta["distinct"]
    res.samples += meta["samples"][:3]
    res.rule = ("(A) every sequence of <= %d first uses over {2 names} x {counter, gauge, timer, histogram} x {no tags, one tag key} on a fresh prometheus Registry, for the callback flavours "
                "{Options.OnRegisterError returning / panicking / nil (default panic), Configuration.OnError none / log / stderr / unset, ConfigurationOptions.OnError} x timer flavour "
                "{summary, histogram}, directly on the reporter and through real tally scopes (first use = scope.Counter/Gauge/Timer/Histogram), each use followed by a report; "
                "(B) seeded random record histories without name reuse across kinds: counters, gauges (bit-exact table), timers, value and duration histograms over every bucket "
                "specification of 4 bounds (tables incl. subnormal / 1e300 bounds and durations whose seconds value is not exactly representable), samples on / between / outside the bounds, "
                "two tag values per family, through scopes + one report pass; the Registry is gathered and TLC compares panics, callback invocations, live/no-op handles and every "
                "series (sum, last value, count, cumulative count per bound) with the model. Distinct by (flavours, history incl. results)." % (4 if big else 3))
    res.assumptions += ["counter increments are non-negative and below 2^53 in total (a Prometheus counter cannot decrease; float64 sums)",
                        "one bucket specification per histogram name (a Prometheus family has one set of bounds)",
                        "the reporter is used from one goroutine in the replayed histories; concurrent first use is exercised separately by the stress part of the harness"]
