"""C14 - the M3 reporter never crashes, hangs or leaks, whatever the call order."""
import vlib
from props import m3common


def run(res, work, tier, seed):
    vlib.stage_specs(work)
    m3common.model(res, work, tier, [("WeakPendingAfterDoneCheck", "NoSendOnClosedQueue"), ("WeakCloseNoSpin", "NoSendOnClosedQueue"), ("WeakFlushIgnoresDone", "NoSendOnClosedQueue"),
                                     ("WeakSecondCloseOk", "SecondCloseErrors", dict(Closers='{"c1", "c2"}', Flushers="{}")), ("WeakLeakPendingOnDone", "NoDeadlock")])
    m3common.sched_runs(res, work, tier, seed, m3common.C14, step_level=True)
    res.rule = ("executions of the real M3 reporter under the controlled scheduler against loopback UDP sinks: exhaustive DFS over the thread choices at the handshake points "
                "(pending++ / done check / select-send / pending-- against CAS done / spin / close donech / close queue / wait, and the batching goroutine's receive) for one producer x "
                "Close + late report, one producer x two concurrent Close callers, Flush x Close, two producers x Close with queue size 1; seeded random schedules over all hook points for "
                "larger mixes (2-4 producers of all four kinds, Flush, 1-2 Close callers, queue 1 / 2 / 3 / 4096, Compact and Binary, 1 and 3 destinations, 420-byte packets, no Close at all). "
                "A panic in any thread, a deadlock (no thread enabled and not all finished; a Close that spins without anybody else moving), a second nil from Close, an emitted late report, "
                "reporter goroutines alive after Close returned, or pending != 0 at the end is a violation. Distinct by schedule (thread@point sequence). In addition every granted "
                "step of the four DFS scenarios (thread, label, projection pending / done / queue length before the step) is replayed through the actions of M3Reporter.tla (M3StepTrace: "
                "step-level conformance; a corrupted projection and a removed step are shown to be rejected on every run).")
    res.assumptions += ["schedule points are the verif-tagged hooks; code between two hooks of one goroutine is atomic w.r.t. the other scenario goroutines; the reporter's clock goroutine has no hooks and runs freely",
                        "data-race freedom is not decided here (not expressible in TLA+); the thorough tier re-runs the random scenarios with the Go race detector as an observation channel"]
