"""C14 - the M3 reporter never crashes, hangs or leaks, whatever the call order."""
import vlib
from props import m3common


def run(res, work, tier, seed):
    vlib.stage_specs(work)
    m3common.model(res, work, tier, [("WeakPendingAfterDoneCheck", "NoSendOnClosedQueue"), ("WeakCloseNoSpin", "NoSendOnClosedQueue"), ("WeakFlushIgnoresDone", "NoSendOnClosedQueue"),
                                     ("WeakSecondCloseOk", "SecondCloseErrors", dict(Closers='{"c1", "c2"}', Flushers="{}")), ("WeakLeakPendingOnDone", "NoDeadlock")])
    from concurrent.futures import ThreadPoolExecutor
    side = vlib.Result(res.pid, res.tier, res.seed)
    side.tag = "r"
    with ThreadPoolExecutor(max_workers=1) as ex:
        fut = ex.submit(race_clause, side, work, tier, seed)   # at the same time as the scheduler-driven runs
        panics = []
        try:
            m3common.sched_runs(res, work, tier, seed, m3common.C14, step_level=True)
        except vlib.LibraryPanic as e:
            panics.append(e)
        try:
            fut.result()
        except vlib.LibraryPanic as e:
            panics.append(e)
    res.merge(side)
    for e in panics[:1]:
        # "completes without panic": the driver process died of a panic raised inside the m3 package (on one of the reporter's
        # own goroutines nobody can recover it)
        res.violation("NeverPanics", str(e), dict(stack=e.stack))
    res.rule = ("executions of the real M3 reporter under the controlled scheduler against loopback UDP sinks: exhaustive DFS over the thread choices at the handshake points "
                "(pending++ / done check / select-send / pending-- against CAS done / spin / close donech / close queue / wait, and the batching goroutine's receive) for one producer x "
                "Close + late report, one producer x two concurrent Close callers, Flush x Close, two producers x Close with queue size 1; seeded random schedules over all hook points for "
                "larger mixes (2-4 producers of all four kinds, Flush, 1-2 Close callers, queue 1 / 2 / 3 / 4096, Compact and Binary, 1 and 3 destinations, 420-byte packets, no Close at all). "
                "A panic in any thread, a deadlock (no thread enabled and not all finished; a Close that spins without anybody else moving), a second nil from Close, an emitted late report, "
                "reporter goroutines alive after Close returned, or pending != 0 at the end is a violation. Distinct by schedule (thread@point sequence). In addition every granted "
                "step of the four DFS scenarios (thread, label, projection pending / done / queue length before the step) is replayed through the actions of M3Reporter.tla (M3StepTrace: "
                "step-level conformance; a corrupted projection and a removed step are shown to be rejected on every run).")
    res.assumptions += ["schedule points are the verif-tagged hooks; code between two hooks of one goroutine is atomic w.r.t. the other scenario goroutines; the reporter's clock goroutine has no hooks and runs freely",
                        "data-race freedom is not expressible in the TLA+ model: the free-running conformance drivers (c13: producers of all kinds incl. several goroutines on ONE value / duration "
                        "bucket handle, Flush, concurrent Close callers, both protocols, reachable and unreachable destinations; c12: concurrent Allocate*) are re-run as a binary built with "
                        "`go build -race`, and a race report whose stacks touch the m3 packages is a violation (clause DataRace)"]


def race_clause(res, work, tier, seed):
    """'without data races': the free-running drivers under the Go race detector (observation channel of the conformance runs)."""
    import os, subprocess
    exe = vlib.build_harness(race=True)
    reports = []
    runs = 0
    for cmd in ("c13", "c12"):
        for k in range(3 if tier == "thorough" else 1):
            d = os.path.join(work, "race-%s-%d" % (cmd, k))
            os.makedirs(d, exist_ok=True)
            e = vlib.goenv()
            e["GORACE"] = "halt_on_error=0 exitcode=66 log_path=" + os.path.join(d, "race")
            p = subprocess.run([exe, cmd, "-out", d, "-seed", str(seed + k), "-tier", tier], env=e, stdout=subprocess.PIPE, stderr=subprocess.STDOUT, text=True, timeout=3000)
            runs += 1
            if cmd == "c13" and os.path.exists(os.path.join(d, "meta.json")):
                # the histories of the instrumented binary are conformance runs like any other: crash / hang / leak clauses
                vlib.stage_specs(d)
                meta = vlib.read_meta(d)
                trace = os.path.join(d, "trace.ndjson")
                fails, r = vlib.tlc_trace(d, "MCM3ObsTrace.tla", "M3ObsTrace.cfg", trace, meta["events"], timeout=3000, boundary='"e":"scn"')
                if r["violated"] or not r["consumed"]:
                    raise vlib.Infra("M3ObsTrace did not consume the free-running trace: %s\n%s" % (r["violated"], r["out"][-3000:]))
                res.add_trace_run("M3ObsTrace free-running histories (race-detector build)", r, meta["cases"], meta["events"])
                res.states += r["distinct"]; res.transitions += r["generated"]
                lines = vlib.read_lines(trace)
                res.judge_fails([f for f in fails if f[1] in m3common.C14], lines,
                                lambda ln: vlib.case_context(lines, max(ln, 1), lambda s: '"e":"scn"' in s, max_lines=80))
                if meta.get("hung"):
                    res.extra["free_running_hang"] = "a history hung; the run ended there"
            if cmd == "c12" and os.path.exists(os.path.join(d, "meta.json")):
                meta = vlib.read_meta(d)
                if meta.get("hung"):
                    res.violation("NoDeadlock", "the reporter hung in the sequential batching driver (c12), case %d" % (meta["cases"] + 1),
                                  dict(where=meta.get("where"), note="stacks of the goroutines inside the m3 package, identical in three dumps one second apart after 20 s without progress"))
            logs = sorted(f for f in os.listdir(d) if f.startswith("race."))
            for f in logs:
                txt = open(os.path.join(d, f)).read()
                if "tally" in txt and "/m3" in txt:
                    reports.append(txt)
            if not logs and p.returncode != 0:
                lp = vlib.library_panic(p.stdout)
                if lp:
                    raise vlib.LibraryPanic("driver %s died of a panic inside the library: %s" % (cmd, lp[0]), lp[1])
                raise vlib.Infra("race-detector run of %s failed rc=%d\n%s" % (cmd, p.returncode, p.stdout[-3000:]))
    res.extra["race_detector_runs"] = runs
    res.evaluations += runs
    if reports:
        res.violation("DataRace", "Go race detector report in the m3 reporter (%d report files)" % len(reports), dict(report=reports[0][:8000]))

