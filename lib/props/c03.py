"""C03 - each histogram sample lands in the one correct bucket; buckets tile the line."""
import json, os
import vlib

WEAK = [("DevSearchUnclamped", "InfPlacement"), ("WeakStrictGreater", "RightBucket"),
        ("WeakNoSort", "Tiling"), ("WeakLowerFromSelf", "Tiling")]


def run(res, work, tier, seed):
    thorough = tier == "thorough"
    K, L = (4, 4) if thorough else (3, 3)
    vlib.stage_specs(work)
    # 1. the design: exhaustive model checking of Histogram.tla
    cfg = vlib.write_cfg(work, "mc.cfg", "Histogram_mc.cfg", {"K": K, "MaxSpecLen": L, "MaxRec": 3 if thorough else 2})
    vlib.mc_expect_ok(work, "Histogram.tla", cfg, "Histogram K=%d L=%d" % (K, L), res, timeout=1500)
    # 2. non-vacuity: each dropped design decision is caught by the invariant that guards it
    for const, inv in WEAK:
        c = vlib.write_cfg(work, "weak_%s.cfg" % const, "Histogram_mc.cfg", {"K": 3, "MaxSpecLen": 2, "MaxRec": 1, const: "TRUE"})
        vlib.mc_expect_violation(work, "Histogram.tla", c, inv, const, res, timeout=300)
    # 3. the code: every spec x sample x table through the real histogram, judged by the trace spec
    out = os.path.join(work, "run")
    os.makedirs(out)
    vlib.run_vh(["c03", "-out", out, "-seed", seed, "-tier", tier, "-K", K, "-L", L], timeout=1200)
    meta = vlib.read_meta(out)
    tcfg = vlib.write_cfg(work, "trace.cfg", "HistogramTrace.cfg", {"K": K, "MaxSpecLen": L})
    trace = os.path.join(out, "trace.ndjson")
    fails, r = vlib.tlc_trace(work, "HistogramTrace.tla", tcfg, trace, meta["events"], timeout=3000)
    if r["violated"]:
        fails.append((0, "ModelInvariant:" + ",".join(r["violated"]), None))
    res.add_trace_run("HistogramTrace", r, meta["cases"], meta["events"])
    lines = vlib.read_lines(trace)
    res.judge_fails(fails, lines, lambda ln: vlib.case_context(lines, max(ln, 1), lambda s: '"e":"new"' in s))
    res.evaluations = meta["records"]
    # long specifications (32 / 63 / 64 / 65 bounds: the top of the 1..64 range and beyond), all three paths
    KL = 66
    out2 = os.path.join(work, "runlong")
    os.makedirs(out2)
    vlib.stage_specs(out2)
    vlib.run_vh(["c03", "-out", out2, "-seed", seed, "-tier", "quick", "-K", KL, "-L", KL, "-long"], timeout=1200)
    meta2 = vlib.read_meta(out2)
    tcfg2 = vlib.write_cfg(out2, "tracelong.cfg", "HistogramTrace.cfg", {"K": KL, "MaxSpecLen": KL})
    trace2 = os.path.join(out2, "trace.ndjson")
    fails2, r2 = vlib.tlc_trace(out2, "HistogramTrace.tla", tcfg2, trace2, meta2["events"], timeout=3000, xss=True)
    if r2["violated"]:
        fails2.append((0, "ModelInvariant:" + ",".join(r2["violated"]), None))
    res.add_trace_run("HistogramTrace (specifications of 32..65 bounds)", r2, meta2["cases"], meta2["events"])
    lines2 = vlib.read_lines(trace2)
    res.judge_fails(fails2, lines2, lambda ln: vlib.case_context(lines2, max(ln, 1), lambda s: '"e":"new"' in s, max_lines=40))
    res.evaluations += meta2["records"]
    res.distinct = meta["distinct"]
    res.exhaustive = True
    res.rule = ("all bucket specifications of length 0..%d over %d ordered bound tokens (unsorted, duplicated) x value/duration kind x "
                "plain/cached/test-scope path x concretisation tables (integers, negative/zero, subnormal, near +-MaxFloat64 / Min/MaxInt64, seeded random; "
                "between-samples one ulp above the lower or below the upper bound) x every sample token (each bound, between any two, MIN, MAX, -Inf, +Inf, NaN) "
                "each followed by a report, plus a random batch; a case is distinct by (kind, spec, path, table); "
                "a duration reaches a value histogram also through a stopwatch started from it; specifications of 32 / 63 / 64 / 65 bounds, sorted and shuffled, "
                "with the sample tokens around both ends and the top of the specification" % (L, K))
    res.samples = meta["samples"]
    res.extra.update(K=K, MaxSpecLen=L, specs=meta["specs"], value_tables=meta["value_tables"], duration_tables=meta["duration_tables"])
    res.assumptions += [
        "token abstraction: the harness maps concrete float64/int64 bounds back to tokens by exact bit equality; only the order of bounds and samples is used by the model",
        "TLC model checking is exhaustive only for the stated K / MaxSpecLen; longer specs rely on the search having no length-dependent behaviour beyond the binary search transcribed in the spec",
    ]
