"""C13 - M3 delivers every reported value exactly once and intact."""
import json, os
import vlib
from props import m3common


def run(res, work, tier, seed):
    vlib.stage_specs(work)
    big = tier == "thorough"
    m3common.model(res, work, tier, [("DevClockStartsAtZero", "TimestampBracket"), ("WeakNoFinalFlush", "ReturnedBeforeCloseDelivered")])
    c = vlib.write_cfg(work, "tc.cfg", "M3TagCache.cfg", {"MaxAllocs": 3 if big else 2})
    vlib.mc_expect_ok(work, "M3TagCache.tla", c, "M3TagCache: all sequences of allocations over tag maps on the alphabet {a, =} (<= 2 entries, strings <= 2)", res, timeout=3000)
    c = vlib.write_cfg(work, "tc_w.cfg", "M3TagCache.cfg", {"DevTagCacheHashOnly": "TRUE"})
    vlib.mc_expect_violation(work, "M3TagCache.tla", c, "TagsIntact", "DevTagCacheHashOnly", res, timeout=600)
    # real code: scheduler-driven executions and, at the same time, free-running histories
    from concurrent.futures import ThreadPoolExecutor
    out = os.path.join(work, "c13free")
    os.makedirs(out)
    vlib.stage_specs(out)
    vlib.build_harness()

    def free():
        vlib.run_vh(["c13", "-out", out, "-seed", seed, "-tier", tier], timeout=3000)
        meta = vlib.read_meta(out)
        fails, r = vlib.tlc_trace(out, "MCM3ObsTrace.tla", "M3ObsTrace.cfg", os.path.join(out, "trace.ndjson"), meta["events"], timeout=3000, boundary='"e":"scn"')
        return meta, fails, r

    with ThreadPoolExecutor(max_workers=1) as ex:
        fut = ex.submit(free)
        m3common.sched_runs(res, work, tier, seed, m3common.C13)
        meta, fails, r = fut.result()
    trace = os.path.join(out, "trace.ndjson")
    if r["violated"] or not r["consumed"]:
        raise vlib.Infra("M3ObsTrace did not consume the free-running trace: %s\n%s" % (r["violated"], r["out"][-3000:]))
    res.add_trace_run("M3ObsTrace free-running histories", r, meta["cases"], meta["events"])
    res.states += r["distinct"]; res.transitions += r["generated"]
    lines = vlib.read_lines(trace)
    mine = [(ln, cl.split(":")[0] if cl.startswith("TimestampBracket") else cl, ex) for (ln, cl, ex) in fails]
    other = {}
    keep = []
    for f in mine:
        if f[1] in m3common.C13:
            keep.append(f)
        else:
            other[f[1]] = other.get(f[1], 0) + 1
    if other:
        res.extra.setdefault("other_property_observations", {}).update(other)
    res.judge_fails(keep, lines, lambda ln: vlib.case_context(lines, max(ln, 1), lambda s: '"e":"scn"' in s, max_lines=80))
    res.evaluations += meta["evals"]
    res.distinct += meta["distinct"]
    res.samples += meta["samples"][:2]
    res.rule = ("(1) executions of the real M3 reporter under the controlled scheduler (see C14): DFS over the handshake points and random schedules of larger mixes, every datagram decoded with the "
                "repository's thrift types at loopback sinks; (2) free-running histories: 1-4 goroutines allocate counters / gauges / timers / value and duration histograms with names and tags that are "
                "arbitrary byte strings (incl. empty, NUL, invalid UTF-8, '=' inside keys and values - tag maps whose k=v renderings coincide) and report int64 / float64 extremes (Min/MaxInt64, +-Inf, NaN "
                "payload, -0, subnormal), Flush at random positions, Close after or concurrently with the producers, a second Close; Compact and Binary, 1 and 3 destinations, queue 1 / 2 / 7 / 4096, "
                "packets 700 / 1440 / 32768 / 65000, bucket tag precision 1..9; the first report is made immediately after NewReporter returns. TLC checks per datagram: one well-formed one-way "
                "message, common tags incl. service and env, every metric is one that was reported with the same kind, value and tags (+ bucket id / range tags), at most once, timestamp within "
                "[construction, return of the call], order per goroutine; at Close's return: everything whose call returned before Close was called has arrived exactly once at every destination, "
                "nothing arrives later. Distinct by schedule / by configuration.")
    res.assumptions += ["wall-clock comparisons (timestamp vs construction / return of the call) are made by the harness and logged as a three-valued relation",
                        "bucket range tags are rendered by the harness with strconv.FormatFloat(b,'f',precision) / Duration.String and -infinity / infinity for the open ends",
                        "real UDP loss is out of scope: loopback sinks with an 8 MiB receive buffer"]
