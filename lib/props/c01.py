"""C01 - counter increments are delivered exactly once (delta conservation)."""
import vlib

CLAUSES = {"NeverAhead", "NoNegativeDelta", "Conservation", "IdleCycleSilent"}


def run(res, work, tier, seed):
    vlib.stage_specs(work)
    model(res, work, tier)
    vlib.run_core_family(res, work, "c01", tier, seed, parts=12 if tier == "quick" else 14, clauses=CLAUSES)
    from props import corestep
    corestep.run(res, work, tier, seed, "C01")   # step-level replay of the st-c01 scenarios through TallyCore.tla (drift, not a verdict)
    res.rule = ("executions of the real counter / report-pass code under the controlled scheduler: exhaustive DFS over the thread choices at the atomic steps of "
                "the delta computation (load prev, load curr, CAS, reporter call) for {2 increments} || pass || pass, plain and cached reporter, plain ints and "
                "2^61-scaled values (int64 wrap-around), histogram bucket counters; seeded random schedules over all hook points for the mixed scenario "
                "(2 incrementers, 2 scopes, report loop ticks, explicit passes, root Close). A case is distinct by its schedule (thread@point sequence).")
    res.assumptions += [
        "schedule points are the verif-tagged hooks; code between two hooks of one goroutine is executed atomically w.r.t. the other scenario goroutines",
        "observable events are logged by the goroutine performing them while it is the only scenario goroutine running (total order = trace order)",
    ]


def model(res, work, tier):
    vlib.tallycore(work, res, "C01 micro: 2 increments || pass || pass", deadlock=True)
    vlib.tallycore(work, res, "DevNonAtomicDelta", expect="*", DevNonAtomicDelta="TRUE")
    if tier == "thorough":
        vlib.tallycore(work, res, "C01: sub-scope cycle, 2 apps, pass (4.7M states)", Script="ScriptC07b", Apps='{"a1","a2"}', Passers='{"p1"}', NObj=4, deadlock=True, timeout=3000)
        vlib.tallycore(work, res, "C01: root incs, loop with 2 ticks, Close", Script="ScriptC08", Passers="{}", Closers='{"z1"}', HasLoop="TRUE", MaxTicks=2, deadlock=True)
