"""C18 - StatsD: each value forwarded once under a deterministic, distinct stat name."""
import vlib
from props import c19


def run(res, work, tier, seed):
    vlib.stage_specs(work)
    big = tier == "thorough"
    cfg = vlib.write_cfg(work, "sd.cfg", "StatsdReporter.cfg", {"K": 4 if big else 3, "MaxSpecLen": 4 if big else 3})
    vlib.mc_expect_ok(work, "StatsdReporter.tla", cfg, "bucket stat names distinct and open ends rendered, all specs", res, timeout=1500)
    c = vlib.write_cfg(work, "sd_w.cfg", "StatsdReporter.cfg", {"WeakLowerOpenEndIsInfinity": "TRUE"})
    vlib.mc_expect_violation(work, "StatsdReporter.tla", c, "OpenEndsRendered", "WeakLowerOpenEndIsInfinity", res, timeout=300)
    meta, fails, lines = c19.simple_trace_check(res, work, "c18", "StatsdTrace.tla", "StatsdTrace.cfg", '"e":"caps"', tier, seed)
    import json
    res.judge_fails(fails, lines, lambda ln: dict(failing_line=ln, event=json.loads(lines[max(ln, 1) - 1])))
    res.evaluations += meta["evals"]
    res.distinct += meta["distinct"]
    res.samples += meta["samples"][:3]
    res.rule = ("for bucket-name precisions %s and sample rates {unset, 1, 0.5, 1e-6}: counters and timers with int64 extremes, gauges with fractional / negative / large "
                "values (truncation towards zero), names incl. empty, tags given and ignored; every bucket pair BucketPairs produces for all specifications of length 0..3 over 4 "
                "ordered bounds (value tables: integers, negative/zero, subnormal, near MaxFloat64, random; duration tables incl. Min/MaxInt64 neighbours) reported through "
                "the real reporter over a recording statsd client; stat names are tokenised against the strconv / Duration.String renderings of the bounds and compared "
                "with <name>.<B(lower)>-<B(upper)>; tables whose bounds do not differ at the precision are skipped (the property's premise). Distinct by (kind, spec, precision)."
                % ("1..12 and default" if big else "{default, 1, 2, 6, 12}"))
    res.assumptions += ["'rendered with the configured precision' is interpreted as strconv.FormatFloat(b, 'f', precision, 64); duration bounds as time.Duration.String()",
                        "gauge values outside the int64 range / non-finite are not generated (float-to-int conversion is implementation-defined there)"]
