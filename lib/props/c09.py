"""C09 - concurrent first use creates one metric / scope per identity."""
import vlib

CLAUSES = {"SameObject", "AllocateOnce", "NeverAhead", "NoNegativeDelta", "Conservation", "NoCrash", "TimersSynchronousOnce", "GaugeAuthentic", "GaugeCountBound"}


def run(res, work, tier, seed):
    vlib.stage_specs(work)
    vlib.tallycore(work, res, "C09: two goroutines first-use the same subscope and counter || pass", deadlock=True,
                   Script="ScriptC09", Apps='{"a1","a2"}', Passers='{"p1"}', NObj=2)
    vlib.tallycore(work, res, "WeakNoRecheckUnderLock", expect="Conservation", Script="ScriptC09", Apps='{"a1","a2"}', Passers='{"p1"}', NObj=3, WeakNoRecheckUnderLock="TRUE")
    vlib.run_core_family(res, work, "c09", tier, seed, parts=16, clauses=CLAUSES, timeout=3400)
    # the third get-or-create the property anchors: the shared bucket storage (bucketCache.mtx) - histograms created at the
    # same moment in different scopes from specifications whose cache identities collide must each get their own bounds
    # (samples recorded through a histogram that was handed another one's storage are delivered under the wrong buckets)
    vlib.run_core_family(res, work, "c20", tier, seed, parts=4, clauses={"KeepsOwnBounds", "NoCrash"}, timeout=3400)
    free(res, work, tier, seed)
    # "everything recorded through any of the returned handles is delivered", timers: several goroutines record on one
    # timer at the same time (test scope, plain, cached) - the driver and trace spec of C10
    from props import c10
    c10.conc(res, work, tier, seed)
    from props import corestep
    corestep.run(res, work, tier, seed, "C09")   # step-level replay of the st-c09 scenarios through TallyCore.tla (drift, not a verdict)
    if tier == "thorough":
        # data-race clause: the same random scenarios under the Go race detector (observation channel of the conformance runs)
        race_clause(res, work, seed)
    res.rule = ("executions of the real get-or-create paths under the controlled scheduler: DFS over probe (read lock) / lock (write lock) / Allocate* for two goroutines "
                "first-using the same counter, gauge, timer, histogram and child scope while a pass runs (plain and cached); random schedules over all points for "
                "three goroutines on overlapping names of all kinds plus a recorder on an existing metric and the report loop, shard counts 1, 2, 16. "
                "All handles for one (kind, name, scope object) identical; at most one Allocate* per identity; everything recorded is delivered.")
    res.assumptions += ["data-race freedom is not expressible in the TLA+ model; the thorough tier re-runs the random scenarios under `go build -race` and counts a race report as a violation"]


def race_clause(res, work, seed):
    import os, subprocess
    exe = vlib.build_harness(race=True)
    d = os.path.join(work, "race")
    os.makedirs(d, exist_ok=True)
    e = vlib.goenv()
    e["GORACE"] = "halt_on_error=0 exitcode=66 log_path=" + os.path.join(d, "race")
    p = subprocess.run([exe, "core", "-family", "c09race", "-out", d, "-seed", str(seed), "-tier", "thorough"], env=e, stdout=subprocess.PIPE, stderr=subprocess.STDOUT, text=True, timeout=3000)
    logs = [f for f in os.listdir(d) if f.startswith("race.")]
    res.extra["race_detector_runs"] = vlib.read_meta(d)["execs"] if os.path.exists(os.path.join(d, "meta.json")) else 0
    if logs:
        txt = open(os.path.join(d, logs[0])).read()
        res.violation("DataRace", "Go race detector report", dict(report=txt[:6000]))
    elif p.returncode != 0:
        raise vlib.Infra("race run failed rc=%d\n%s" % (p.returncode, p.stdout[-3000:]))


def free(res, work, tier, seed):
    """Free-running: the first metrics of a fresh sub-scope requested by six goroutines at the same moment (the window
    between a probe and the lock that follows has no hook inside; the scheduler cannot put two goroutines into it)."""
    import os
    out = os.path.join(work, "free")
    os.makedirs(out)
    vlib.stage_specs(out)
    vlib.run_vh(["c09free", "-out", out, "-seed", seed, "-tier", tier], timeout=1800)
    meta = vlib.read_meta(out)
    trace = os.path.join(out, "trace.ndjson")
    fails, r = vlib.tlc_trace(out, "TallyObsTrace.tla", "TallyObsTrace.cfg", trace, meta["events"], timeout=3000, boundary='"e":"scn"')
    if r["violated"] or not r["consumed"]:
        raise vlib.Infra("TallyObsTrace did not consume the c09free trace: %s\n%s" % (r["violated"], r["out"][-2000:]))
    res.add_trace_run("TallyObsTrace concurrent first metrics of a fresh sub-scope (free-running)", r, meta["cases"], meta["events"])
    res.states += r["distinct"]; res.transitions += r["generated"]
    lines = vlib.read_lines(trace)
    res.judge_fails([f for f in fails if f[1] in CLAUSES], lines, lambda ln: vlib.case_context(lines, max(ln, 1), lambda s: '"e":"scn"' in s, max_lines=30))
    res.evaluations += meta["evals"]
