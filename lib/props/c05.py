"""C05 - equal identities share one scope and metric; different identities never merge."""
import vlib
from props import c04

CLAUSES = {"EqualIdentitiesShareScope", "EqualIdentitiesShareMetric", "DifferentIdentitiesMerged", "KeyFunction", "KeyAgreesWithMerged",
           "NameFollowsDerivation", "TagsFollowDerivation"}


def matcher(k, clause, ctx):
    # known finding: identities that collide only because a prefix / tag key / tag value contains one of the key format's delimiters
    return k.get("id") == "C05-key-delimiters" and clause.endswith(":delimiter-collision")


def run(res, work, tier, seed):
    vlib.stage_specs(work)
    big = tier == "thorough"
    for mode in ("merge", "inj"):
        cfg = vlib.write_cfg(work, "kg_%s.cfg" % mode, "MCKeyGen.cfg", {"Mode": '"%s"' % mode, "Alphabet": '{"a", "b"}'})
        vlib.mc_expect_ok(work, "MCKeyGen.tla", cfg, "KeyGen %s over {'', a, b}" % mode, res, timeout=1500)
    if big:
        cfg = vlib.write_cfg(work, "kg_merge_delims.cfg", "MCKeyGen.cfg", {"Mode": '"merge"', "Alphabet": '{"a", "=", ","}'})
        vlib.mc_expect_ok(work, "MCKeyGen.tla", cfg, "KeyGen merge over {'', a, =, ,}", res, timeout=3000)
    for w, inv, mode in [("DevEmptyKeyDedup", "AgreesWithMerged", "merge"), ("WeakLeftmostWins", "AgreesWithMerged", "merge"), ("WeakNoSort", "OrderIndependent", "merge")]:
        cfg = vlib.write_cfg(work, "kg_%s.cfg" % w, "MCKeyGen.cfg", {"Mode": '"%s"' % mode, w: "TRUE"})
        vlib.mc_expect_violation(work, "MCKeyGen.tla", cfg, inv, w, res, timeout=600)
    # the known finding at model level: with delimiter characters in the alphabet the key is not injective
    cfg = vlib.write_cfg(work, "kg_delims.cfg", "MCKeyGen.cfg", {"Mode": '"inj"', "Alphabet": '{"a", "="}'})
    cfg_src = open(work + "/" + cfg).read().replace("INVARIANTS OrderIndependent AgreesWithMerged InjectiveNoDelims", "INVARIANTS Injective")
    open(work + "/" + cfg, "w").write(cfg_src)
    vlib.mc_expect_violation(work, "MCKeyGen.tla", cfg, "Injective", "known finding C05-key-delimiters (model witness)", res, timeout=600)
    c04.model(res, work, [("WeakLeftBiasedMerge", "*")])
    c04.naming_run(res, work, tier, seed, "c05", CLAUSES, matcher=matcher)
    res.rule = ("all pairs of derivation programs of depth 0..2 executed on one root (shard counts 1, 2, 7, 64): pointer identity of the scopes and of a same-named counter "
                "compared with the model's identity (prefix + effective tags); programs over strings containing the key format's delimiters and the empty key; the public key "
                "function on (prefix, map) over a domain with delimiter characters compared character by character with the transcribed key writer. Distinct by root/table/path.")
    res.assumptions += ["collisions of identities that differ only in the placement of '+', ',' or '=' inside prefix, keys or values are the recorded finding C05-key-delimiters"]
