"""C16 - thrift encoding round-trips and the size calculator agrees with the encoder."""
import json
import vlib
from props import c19


def run(res, work, tier, seed):
    vlib.stage_specs(work)
    big = tier == "thorough"
    c = vlib.write_cfg(work, "ts.cfg", "ThriftSize.cfg", {"MaxWrites": 3 if big else 2})
    vlib.mc_expect_ok(work, "MCThriftSize.tla", c, "ThriftSize: compact writer state machine, %d consecutive (possibly abandoned) writes of all metric shapes through one protocol object; max-placeholder bound for both protocols" % (3 if big else 2), res, timeout=3000)
    for w in ("WeakStackNotPopped", "WeakNoResetAtStructBegin"):
        cw = vlib.write_cfg(work, "w_%s.cfg" % w, "ThriftSize.cfg", {w: "TRUE"})
        vlib.mc_expect_violation(work, "MCThriftSize.tla", cw, "HistoryIndependent", w, res, timeout=600)
    meta, fails, lines = c19.simple_trace_check(res, work, "c16", "ThriftSizeTrace.tla", "ThriftSizeTrace.cfg", '"e":', tier, seed, xss=True)
    res.judge_fails(fails, lines, lambda ln: dict(failing_line=ln, event=json.loads(lines[max(ln, 1) - 1]) if len(lines[max(ln, 1) - 1]) < 20000 else "(large batch)"))
    res.evaluations += meta["evals"]
    res.distinct += meta["distinct"]
    res.samples += meta["samples"][:2]
    res.rule = ("concrete Metric / MetricBatch values built for enumerated shapes: every zig-zag varint length class 1..10 of count / timer / timestamp (values at both ends of the class, both signs) and 1..5 of the "
                "metric type, string lengths {0, 1, 127, 128, 1024} of random bytes, tag lists absent / empty / 1 / 2 / 14 / 15 / 16 entries, batches of {0, 1, 2, 3, 14, 15, 16} (500) metrics with and "
                "without common tags, sequence ids at every varint length; each is written through ONE reused encoder object per protocol (every fourth write preceded by a write the transport refuses "
                "half-way), measured through ONE reused size-calculating protocol, sent as a whole message through the generated client, and decoded again. TLC requires encoder length = calculator "
                "count = ThriftSize's function of the shape (also right after an abandoned write), the maximal-placeholder size to bound it, and the decoded value to equal the original "
                "(floats by bit pattern, nil vs empty tag lists preserved). Distinct by (protocol, shape classes).")
    res.assumptions += ["byte CONTENT of the encoding is not predicted by the model: round-trip equality is observed by the harness (decode with the repository's own readers) and logged as a boolean",
                        "the varint length class of each concrete value is computed by the harness's own zig-zag / varint length functions"]
