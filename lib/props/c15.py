"""C15 - UDP transport: one flush = one exact datagram; a failed message never poisons."""
import json, os
from concurrent.futures import ThreadPoolExecutor
import vlib
from props import c19

INVS = ("ExactDelivery RefusedNeverSent BufferEmptyAfterFlush FanOutComplete WithinLimit OversizeRefused FittingAccepted "
        "FlushOkWhenHealthy BufferEmptyAfterDiscard NotOpenAfterClose CloseIdempotent UseAfterCloseNotOpen SecondCloseOk NeverPanics")


def cfg(work, name, invariants=None, **ov):
    ov = {k: ("TRUE" if v is True else "FALSE" if v is False else v) for k, v in ov.items()}
    c = vlib.write_cfg(work, name, "UDPTransport.cfg", ov)
    if invariants:
        p = os.path.join(work, name)
        s = open(p).read().replace("INVARIANTS " + INVS, "INVARIANTS " + invariants)
        open(p, "w").write(s)
    return c


def run(res, work, tier, seed):
    vlib.stage_specs(work)
    big = tier == "thorough"
    # 1. the design: all call / fault histories of the small domain
    vlib.mc_expect_ok(work, "UDPTransport.tla", cfg(work, "u1.cfg", MaxOps=8 if big else 7),
                      "UDPTransport: one destination, all histories of <= %d calls/faults (write sizes 1,3,5 of limit 4)" % (8 if big else 7), res, timeout=3000)
    vlib.mc_expect_ok(work, "UDPTransport.tla", cfg(work, "u2.cfg", NChild=2, Multi=True, MaxOps=7 if big else 6),
                      "UDPTransport: multi transport over 2 destinations, faults per destination", res, timeout=3000)
    if big:
        vlib.mc_expect_ok(work, "UDPTransport.tla", cfg(work, "u3.cfg", NChild=3, Multi=True, MaxOps=6), "UDPTransport: multi transport over 3 destinations", res, timeout=3000)
    # 2. non-vacuity: the pre-fix behaviour and each dropped design decision violate the clause they are responsible for
    for name, ov, inv in [
        ("DevWriterAbandonsWithoutDiscard", dict(DevWriterAbandonsWithoutDiscard=True), "ExactDelivery"),
        ("DevMultiFlushStopsAtFirstError", dict(DevMultiFlushStopsAtFirstError=True, NChild=2, Multi=True, MaxOps=5), "BufferEmptyAfterFlush"),
        ("WeakDiscardKeepsBuffer", dict(WeakDiscardKeepsBuffer=True), "ExactDelivery"),
        ("WeakNoResetOnFlushError", dict(WeakNoResetOnFlushError=True), "BufferEmptyAfterFlush"),
        ("WeakCheckAfterAppend", dict(WeakCheckAfterAppend=True), "WithinLimit"),
        ("WeakOffByOne", dict(WeakOffByOne=True), "FittingAccepted"),
        ("WeakCloseNotIdempotent", dict(WeakCloseNotIdempotent=True), "CloseIdempotent"),
    ]:
        vlib.mc_expect_violation(work, "UDPTransport.tla", cfg(work, "w_%s.cfg" % name, invariants=inv, **ov), inv, name, res, timeout=600)
    # 3. the real transports against loopback sinks, every call judged by TLC
    vlib.build_harness()
    runs = [("c15", "t1", dict(NChild=1, Multi=False), ["-n", 1]),
            ("c15", "m1", dict(NChild=1, Multi=True), ["-n", 1, "-multi"]),
            ("c15", "m2", dict(NChild=2, Multi=True), ["-n", 2, "-multi"]),
            ("c15", "m3", dict(NChild=3, Multi=True), ["-n", 3, "-multi"]),
            ("c15rep", "rep", dict(NChild=1, Multi=False), [])]
    if big:
        runs = [(c, "%s_%d" % (n, i), ov, ex + ["-part", "%d/4" % i]) for (c, n, ov, ex) in runs[:4] for i in range(4)] + runs[4:]

    def one(r):
        cmd, name, ov, extra = r
        sub = vlib.Result(res.pid, tier, seed)
        out = os.path.join(work, name)
        os.makedirs(out)
        vlib.stage_specs(out)
        tc = vlib.write_cfg(out, "trace_%s.cfg" % name, "UDPTransportTrace.cfg", {k: ("TRUE" if v is True else "FALSE" if v is False else v) for k, v in ov.items()})
        vlib.run_vh([cmd, "-out", out, "-seed", seed, "-tier", tier] + list(extra), timeout=2400)
        meta = vlib.read_meta(out)
        trace = os.path.join(out, "trace.ndjson")
        fails, r = vlib.tlc_trace(out, "UDPTransportTrace.tla", tc, trace, meta["events"], timeout=3000)
        if r["violated"]:
            raise vlib.Infra("UDPTransportTrace: TLC stopped on %s\n%s" % (r["violated"], r["out"][-2000:]))
        sub.add_trace_run("UDPTransportTrace " + name, r, meta["cases"], meta["events"])
        sub.states += r["distinct"]; sub.transitions += r["generated"]
        return name, sub, meta, fails, vlib.read_lines(trace)

    with ThreadPoolExecutor(max_workers=6) as ex:
        outs = list(ex.map(one, runs))
    for name, sub, meta, fails, lines in outs:
        res.mc_runs += sub.mc_runs
        res.traces += sub.traces; res.events += sub.events; res.states += sub.states; res.transitions += sub.transitions
        drift = [f for f in fails if f[1].startswith("Drift:")]
        real = [f for f in fails if not f[1].startswith("Drift:")]
        if drift:
            res.drift.append(dict(run=name, count=len(drift), first=dict(line=drift[0][0], clause=drift[0][1])))
        res.judge_fails(real, lines, lambda ln, lines=lines: vlib.case_context(lines, max(ln, 1), lambda s: '"e":"new"' in s, max_lines=40))
        res.evaluations += meta["evals"]
        res.distinct += meta["distinct"]
        res.samples += meta["samples"][:2]
    if res.drift and not res.violations:
        print("DRIFT (not a verdict): the transport's calls differ from UDPTransport.tla although no clause of C15 failed: %s" % json.dumps(res.drift))
    res.exhaustive = False
    res.rule = ("every history of <= %d calls over {Write 13000 / 39000 / 65000 / 78000 bytes, WriteString 39000, WriteByte, Flush, Discard, Close, socket dies} "
                "on a real TUDPTransport and over {Write x3, Flush, Discard, Close, socket i dies} on real TMultiUDPTransports with 1, 2, 3 destinations, "
                "plus seeded random histories whose totals land on 64999 / 65000 / 65001 bytes; every chunk carries an (id, offset) byte pattern and every datagram a loopback sink "
                "receives is segmented back into chunks byte for byte; after each call TLC evaluates the invariants of UDPTransport.tla over the observed results / datagrams / "
                "buffered lengths. Plus the real M3 reporter (both protocols, 1 and 3 destinations) pushed over the transport limit by a >65000-byte batch and then required to "
                "deliver every later batch. Distinct by executed history incl. results." % (5 if big else 4))
    res.assumptions += ["loopback UDP sends are synchronous (the datagram is in the sink's queue when the send returns); a late datagram aborts the run as infrastructure error",
                        "'abandoned message' = the writer calls Discard (what m3.reporter.flush does after a failed emit); a writer that silently starts the next message is the "
                        "pre-fix deviation DevWriterAbandonsWithoutDiscard, since the transport cannot know where the next message starts",
                        "exactness on multi transports is required while no destination has failed (the property's proviso)"]
