"""C10 - timers are forwarded immediately, exactly once; stopwatches; instrumented calls."""
import vlib

CLAUSES = {"TimersSynchronousOnce", "NoCrash", "QuietAfterClose"}


def run(res, work, tier, seed):
    vlib.stage_specs(work)
    vlib.run_core_family(res, work, "c10", tier, seed, parts=4, clauses=CLAUSES, timeout=3400)
    res.rule = ("executions under the controlled scheduler: records on two timers in two scopes from two goroutines interleaved with report passes / the report loop / root Close "
                "(plain and cached): every Record window contains exactly one timer delivery with the same identity and duration on the recording goroutine, and no timer "
                "delivery happens outside such a window (passes neither repeat nor buffer timers); durations include 0, negative, Min/MaxInt64.")
