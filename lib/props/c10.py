"""C10 - timers are forwarded immediately, exactly once; stopwatches; instrumented calls."""
import vlib

CLAUSES = {"TimersSynchronousOnce", "NoCrash", "QuietAfterClose"}


def run(res, work, tier, seed):
    import os
    vlib.stage_specs(work)
    # stopwatches and instrumented calls: sequential model + call histories over a driven clock
    big = tier == "thorough"
    cfg = vlib.write_cfg(work, "instr.cfg", "Instrument.cfg", {"MaxClk": 6 if big else 5, "MaxSw": 3 if big else 2, "MaxExec": 2})
    vlib.mc_expect_ok(work, "Instrument.tla", cfg, "Instrument (stopwatch / Exec)", res, timeout=900)
    for weak, inv in [("WeakStopwatchUsesStart", "StopwatchElapsed"), ("WeakBothCounters", "ExactlyOneOutcomeCounter"), ("WeakExecTwice", "ExecOnce")]:
        c = vlib.write_cfg(work, "instr_%s.cfg" % weak, "Instrument.cfg", {weak: "TRUE"})
        vlib.mc_expect_violation(work, "Instrument.tla", c, inv, weak, res, timeout=300)
    out = os.path.join(work, "seq")
    os.makedirs(out)
    vlib.stage_specs(out)
    vlib.run_vh(["c10seq", "-out", out, "-seed", seed, "-tier", tier])
    meta = vlib.read_meta(out)
    trace = os.path.join(out, "trace.ndjson")
    fails, r = vlib.tlc_trace(out, "InstrumentTrace.tla", "InstrumentTrace.cfg", trace, meta["events"])
    if r["violated"]:
        fails.append((0, "ModelInvariant:" + ",".join(r["violated"]), None))
    res.add_trace_run("InstrumentTrace", r, meta["histories"], meta["events"])
    res.states += r["distinct"]; res.transitions += r["generated"]
    lines = vlib.read_lines(trace)
    res.judge_fails(fails, lines, lambda ln: vlib.case_context(lines, max(ln, 1), lambda s: '"e":"reset"' in s))
    res.evaluations += meta["evals"]
    res.distinct += meta["distinct"]
    res.samples += meta["samples"][:3]
    vlib.run_core_family(res, work, "c10", tier, seed, parts=4, clauses=CLAUSES, timeout=3400)
    conc(res, work, tier, seed)
    res.rule = ("random call histories (tick / Start / Stop / Exec with nil and error outcomes) over a harness-driven package clock, on timers and duration histograms, "
                "plain / cached / reporter-less test scope, clock units from 1ns to 3h: Stop must record exactly clock(Stop) - clock(Start), Exec runs f once, records one "
                "latency, increments exactly the matching outcome counter and returns the very same error value. "
                "executions under the controlled scheduler: records on two timers in two scopes from two goroutines interleaved with report passes / the report loop / root Close "
                "(plain and cached): every Record window contains exactly one timer delivery with the same identity and duration on the recording goroutine, and no timer "
                "delivery happens outside such a window (passes neither repeat nor buffer timers); durations include 0, negative, Min/MaxInt64.")


def conc(res, work, tier, seed):
    """Concurrent Record on one timer (reporter-less test scope, plain, cached): the sink's append as a two-step critical
    section (TimerSink.tla) and free-running histories of the real code compared as multisets (TimerSinkTrace.tla)."""
    import os
    big = tier == "thorough"
    c = vlib.write_cfg(work, "tsink.cfg", "TimerSink.cfg", {"NRec": 3 if big else 2})
    vlib.mc_expect_ok(work, "TimerSink.tla", c, "TimerSink: 3 goroutines x %d records on one reporter-less timer" % (3 if big else 2), res, timeout=1800)
    c = vlib.write_cfg(work, "tsink_w.cfg", "TimerSink.cfg", {"WeakSharedLockAppend": "TRUE"})
    vlib.mc_expect_violation(work, "TimerSink.tla", c, "ExactlyOnce", "WeakSharedLockAppend", res, timeout=600)
    c = vlib.write_cfg(work, "tsink_k.cfg", "TimerSink.cfg", {"WeakKeepCap": 4})
    vlib.mc_expect_violation(work, "TimerSink.tla", c, "ExactlyOnce", "WeakKeepCap", res, timeout=600)
    out = os.path.join(work, "conc")
    os.makedirs(out)
    vlib.stage_specs(out)
    vlib.run_vh(["c10conc", "-out", out, "-seed", seed, "-tier", tier], timeout=1800)
    meta = vlib.read_meta(out)
    trace = os.path.join(out, "trace.ndjson")
    fails, r = vlib.tlc_trace(out, "TimerSinkTrace.tla", "TimerSinkTrace.cfg", trace, meta["events"], timeout=3000, xss=True)
    res.add_trace_run("TimerSinkTrace (concurrent Record on one timer)", r, meta["cases"], meta["events"])
    res.states += r["distinct"]; res.transitions += r["generated"]
    lines = vlib.read_lines(trace)

    def ctx(ln):
        c = vlib.case_context(lines, max(ln, 1), lambda s: '"e":"reset"' in s, max_lines=3)
        return c
    res.judge_fails([(ln, cl.split(":")[0], cl) for (ln, cl, ex) in fails], [l[:400] for l in lines], ctx)
    res.evaluations += meta["evals"]
    res.distinct += meta["distinct"]
    res.samples += meta["samples"][:2]
    res.rule += (" free-running: 2-6 goroutines record distinct durations on one shared timer of the root, one of a tagged sub-scope and a timer of their own while passes / snapshots run, "
                 "on a reporter-less test scope, a plain and a cached recording reporter: what Snapshot().Timers() / the reporter holds afterwards equals what was recorded, as multisets.")
