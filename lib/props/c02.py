"""C02 - gauge reports carry the latest value, never a stale or invented one."""
import vlib

CLAUSES = {"GaugeAuthentic", "GaugeFresh", "GaugeCountBound"}
LOOP = dict(Script="ScriptC02", Passers="{}", HasLoop="TRUE", MaxTicks=2)


def run(res, work, tier, seed):
    vlib.stage_specs(work)
    vlib.tallycore(work, res, "C02: 2 updates || report loop (2 ticks) + quiescent pass", **LOOP)
    vlib.tallycore(work, res, "WeakFlagBeforeValue", expect="*", **dict(LOOP, WeakFlagBeforeValue="TRUE"))
    vlib.tallycore(work, res, "WeakLoadBeforeSwap", expect="*", **dict(LOOP, WeakLoadBeforeSwap="TRUE"))
    if tier == "thorough":
        # n.b. no configuration with a root Close here: an Update that is in flight when Close is called is promised nothing
        # (C08 promises what had returned before the call), and once the root is closed "the first pass afterwards" of C02
        # does not exist - GaugeFresh is not an invariant of such behaviours (TLC shows the update / Close race in 46 steps).
        vlib.tallycore(work, res, "C02: 2 updates || report loop (3 ticks) + quiescent pass", **dict(LOOP, MaxTicks=3))
        # recorded observation (DESIGN.md section 9): with two *overlapping* passes over a live gauge the design itself can leave a stale value
        vlib.tallycore(work, res, "observation: two overlapping explicit passes leave a stale value (not reachable through the public API after the C08 fix)",
                       expect="GaugeFresh", Script="ScriptC02")
    vlib.run_core_family(res, work, "c02", tier, seed, parts=12, clauses=CLAUSES)
    free(res, work, tier, seed)
    from props import corestep
    corestep.run(res, work, tier, seed, "C02")   # step-level replay of the st-c02 scenarios through TallyCore.tla (drift, not a verdict)
    res.rule = ("executions of the real gauge code under the controlled scheduler: exhaustive DFS over the interleavings of the two atomic stores of Update "
                "(value, flag) with swap / load / reporter call of a report pass, for one updater against back-to-back passes and against the real report loop "
                "goroutine (ticks handed out by the scheduler); payload tables: ordinary values, quiet NaNs with payloads and infinities, +-0 and subnormals, "
                "signalling NaNs and +-MaxFloat64 (compared via Float64bits); plain and cached reporter; random schedules for two gauges in two scopes. "
                "A case is distinct by its schedule.")
    res.assumptions += [
        "one updating goroutine per gauge (the property's restriction)",
        "report passes over a live gauge do not overlap each other (true for every pass source of the library once Close waits for the loop); "
        "with two overlapping passes the design can leave a stale value - recorded as an observation in DESIGN.md, checked at model level in the thorough tier",
    ]


def free(res, work, tier, seed):
    """Free-running: update then pass, again and again, while another goroutine keeps the scope's gauge lock busy (slow
    AllocateGauge under the write lock).  The enabledness predicates of the lock hooks keep the controlled scheduler from
    ever letting a pass meet a busy lock, so this part runs without it."""
    import os
    out = os.path.join(work, "free")
    os.makedirs(out)
    vlib.stage_specs(out)
    vlib.run_vh(["c02free", "-out", out, "-seed", seed, "-tier", tier], timeout=1800)
    meta = vlib.read_meta(out)
    trace = os.path.join(out, "trace.ndjson")
    fails, r = vlib.tlc_trace(out, "TallyObsTrace.tla", "TallyObsTrace.cfg", trace, meta["events"], timeout=3000, boundary='"e":"scn"')
    if r["violated"] or not r["consumed"]:
        raise vlib.Infra("TallyObsTrace did not consume the c02free trace: %s\n%s" % (r["violated"], r["out"][-2000:]))
    res.add_trace_run("TallyObsTrace gauge freshness with a busy gauge lock (free-running)", r, meta["cases"], meta["events"])
    res.states += r["distinct"]; res.transitions += r["generated"]
    lines = vlib.read_lines(trace)
    res.judge_fails([f for f in fails if f[1] in CLAUSES], lines, lambda ln: vlib.case_context(lines, max(ln, 1), lambda s: '"e":"scn"' in s, max_lines=30))
    res.evaluations += meta["evals"]
