"""C19 - a multi reporter forwards every call to every child exactly once, in order."""
import json, os
import vlib


def simple_trace_check(res, work, cmd, module, cfg, start_marker, tier, seed, xss=False, extra=(), name=None):
    """run `vh <cmd>`, validate its trace with <module>, judge FAIL lines; returns meta"""
    out = os.path.join(work, name or cmd)
    os.makedirs(out)
    vlib.stage_specs(out)
    vlib.run_vh([cmd, "-out", out, "-seed", seed, "-tier", tier] + list(extra), timeout=2400)
    meta = vlib.read_meta(out)
    trace = os.path.join(out, "trace.ndjson")
    fails, r = vlib.tlc_trace(out, module, cfg, trace, meta["events"], timeout=3000, xss=xss)
    if r["violated"]:
        fails.append((0, "ModelInvariant:" + ",".join(r["violated"]), None))
    res.add_trace_run(module, r, meta["cases"], meta["events"])
    res.states += r["distinct"]; res.transitions += r["generated"]
    lines = vlib.read_lines(trace)
    res._last_lines = lines
    return meta, fails, lines


def run(res, work, tier, seed):
    vlib.stage_specs(work)
    big = tier == "thorough"
    cfg = vlib.write_cfg(work, "mr.cfg", "MultiReporter.cfg", {"MaxChildren": 4 if big else 3, "MaxCalls": 3})
    vlib.mc_expect_ok(work, "MultiReporter.tla", cfg, "MultiReporter: 0..%d children x all capability combinations x call histories" % (4 if big else 3), res, timeout=1500)
    for w, inv in [("WeakSkipLastChild", "EveryChildGetsEveryCallOnce"), ("WeakFirstChildTwice", "EveryChildGetsEveryCallOnce"),
                   ("WeakCapabilitiesOr", "CapabilityConjunction"), ("WeakStopAtIncapableChild", "CapabilityConjunction")]:
        c = vlib.write_cfg(work, "mr_%s.cfg" % w, "MultiReporter.cfg", {w: "TRUE"})
        vlib.mc_expect_violation(work, "MultiReporter.tla", c, inv, w, res, timeout=300)
    meta, fails, lines = simple_trace_check(res, work, "c19", "MultiReporterTrace.tla", "MultiReporterTrace.cfg", '"e":"new"', tier, seed)
    res.judge_fails(fails, lines, lambda ln: vlib.case_context(lines, max(ln, 1), lambda s: '"e":"new"' in s, max_lines=60))
    res.evaluations += meta["evals"]
    res.distinct += meta["distinct"]
    res.samples += meta["samples"][:3]
    res.rule = ("random call histories (%d calls) on real multi reporters of both flavours over 0..%d recording children with every combination of the children's capability "
                "bits: Report* with extreme int64 / float bit patterns (NaN, -0, subnormal) / empty names and tag keys, Allocate*, bucket look-ups on allocated histograms, reports "
                "through counter / gauge / timer / bucket handles, Flush; after each parent call every child's new log entries (exact argument rendering) and the global order "
                "in which the children were called are compared by TLC with the model's fan-out. Distinct by (flavour, children, capability bits)." % (30 if big else 12, 5 if big else 3))
    res.assumptions += ["children log calls with a global sequence number; arguments are rendered exactly (float64 by bit pattern)"]
