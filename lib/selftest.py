#!/usr/bin/env python3
"""Self-tests of the checking machinery itself (run by bin/setup): things that went wrong once and must not again."""
import os, sys, shutil, json
sys.path.insert(0, os.path.dirname(os.path.abspath(__file__)))
import vlib


def fail_line_parser():
    # TLC wraps long tuples over several lines; every FAIL must be read
    out = ('<<"FAIL", 12, "Short">>\n'
           '<<"FAIL", 1498, "EveryChildGetsEveryCallOnce:concurrent-callers-with-a-very-long-clause-name-that-makes-tlc-wrap">>\n'
           '<< "FAIL",\n   86358,\n   "SeriesSeparate:series-set" >>\n'
           '<<"FAIL", 7, "WithExtra", 42>>\n')
    got = [(int(a), b) for a, b, c in vlib._RE_FAIL.findall(out)]
    want = [(12, "Short"), (1498, "EveryChildGetsEveryCallOnce:concurrent-callers-with-a-very-long-clause-name-that-makes-tlc-wrap"),
            (86358, "SeriesSeparate:series-set"), (7, "WithExtra")]
    assert got == want, got


def chunked_validation():
    # a trace cut at execution boundaries yields the same FAIL lines (with whole-trace line numbers) as the whole trace
    w = vlib.mkwork("selftest")
    try:
        vlib.stage_specs(w)
        lines = []
        for x in range(1, 41):
            lines.append(json.dumps({"e": "scn", "mod": 0, "x": x}))
            lines.append(json.dumps({"e": "inc", "id": "c", "o": 1, "v": 1, "inert": False, "t": "a"}))
            lines.append(json.dumps({"e": "dlv", "k": "counter", "id": "c", "v": 3 if x % 7 == 0 else 1, "own": True, "t": "p"}))
            lines.append(json.dumps({"e": "quiesce"}))
        src = os.path.join(w, "src.ndjson")
        open(src, "w").write("\n".join(lines) + "\n")
        f1, _ = vlib.tlc_trace(w, "TallyObsTrace.tla", "TallyObsTrace.cfg", src, len(lines))
        old = vlib.CHUNK_LINES
        vlib.CHUNK_LINES = 30
        try:
            f2, r2 = vlib.tlc_trace(w, "TallyObsTrace.tla", "TallyObsTrace.cfg", src, len(lines), boundary='"e": "scn"')
        finally:
            vlib.CHUNK_LINES = old
        assert sorted(f1) == sorted(f2) and len(f1) == 10 and r2["chunks"] > 1, (f1, f2, r2.get("chunks"))
    finally:
        shutil.rmtree(w, ignore_errors=True)


if __name__ == "__main__":
    fail_line_parser()
    chunked_validation()
    print("selftest: ok")
