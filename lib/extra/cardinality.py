"""Growth beyond the listed properties: the tally.internal.*_cardinality gauges (CardinalityMetrics.tla)."""
import os
import vlib


def run(res, work, tier, seed):
    vlib.stage_specs(work)
    vlib.mc_expect_ok(work, "CardinalityMetrics.tla", "CardinalityMetrics.cfg", "CardinalityMetrics: every scope and metric counted once (design)", res, timeout=600)
    for w in ("AsIsDoubleCountsAliased", "WeakRootPerShard", "WeakCountsTimers"):
        c = vlib.write_cfg(work, "w_%s.cfg" % w, "CardinalityMetrics.cfg", {w: "TRUE"})
        vlib.mc_expect_violation(work, "CardinalityMetrics.tla", c, "CountsEachOnce", w, res, timeout=300)
    out = os.path.join(work, "card")
    os.makedirs(out)
    vlib.stage_specs(out)
    vlib.run_vh(["cardinality", "-out", out, "-seed", seed, "-tier", tier], timeout=1200)
    meta = vlib.read_meta(out)
    fails, r = vlib.tlc_trace(out, "CardinalityMetricsTrace.tla", "CardinalityMetricsTrace.cfg", os.path.join(out, "trace.ndjson"), meta["events"], timeout=1200)
    res.add_trace_run("CardinalityMetricsTrace (AS-IS: an aliased scope is counted once per registry key)", r, meta["cases"], meta["events"])
    res.states += r["distinct"]; res.transitions += r["generated"]
    res.evaluations += meta["evals"]; res.distinct += meta["distinct"]; res.samples += meta["samples"]
    for (ln, clause, extra) in fails:
        res.drift.append(dict(line=ln, clause=clause))
    if fails:
        print("DRIFT: the cardinality gauges differ from CardinalityMetrics.tla (as-is configuration) at %d passes, first at trace line %d" % (len(fails), fails[0][0]))
    res.rule = "random scope / metric creation histories, with and without a sanitizer that rewrites the tags, 1-4 shards; the four gauges of every pass compared with the model"
