"""Growth beyond the listed properties: tally.ObjectPool (ObjectPool.tla)."""
import os
import vlib


def run(res, work, tier, seed):
    vlib.stage_specs(work)
    c = vlib.write_cfg(work, "op.cfg", "ObjectPool.cfg", {"MaxOps": 9 if tier == "thorough" else 7})
    vlib.mc_expect_ok(work, "ObjectPool.tla", c, "ObjectPool: capacity 2, two clients, all Get / Put histories", res, timeout=900)
    for w in ("WeakPutKeepsHolding", "WeakGetPeeks"):
        c = vlib.write_cfg(work, "op_%s.cfg" % w, "ObjectPool.cfg", {w: "TRUE"})
        vlib.mc_expect_violation(work, "ObjectPool.tla", c, "Exclusive", w, res, timeout=300)
    out = os.path.join(work, "pool")
    os.makedirs(out)
    vlib.stage_specs(out)
    vlib.run_vh(["pool", "-out", out, "-seed", seed, "-tier", tier], timeout=1200)
    meta = vlib.read_meta(out)
    fails, r = vlib.tlc_trace(out, "ObjectPoolTrace.tla", "ObjectPoolTrace.cfg", os.path.join(out, "trace.ndjson"), meta["events"], timeout=1200)
    res.add_trace_run("ObjectPoolTrace", r, meta["cases"], meta["events"])
    res.states += r["distinct"]; res.transitions += r["generated"]
    res.evaluations += meta["evals"]; res.distinct += meta["distinct"]
    for (ln, clause, extra) in fails:
        res.drift.append(dict(line=ln, clause=clause))
    if fails:
        print("DRIFT: tally.ObjectPool differs from ObjectPool.tla at %d events, first at trace line %d (%s)" % (len(fails), fails[0][0], fails[0][1]))
    res.rule = "random sequential Get / Put histories on pools of capacity 0..4 replayed through the deterministic model; concurrent Get / Put with an ownership flag per object"
