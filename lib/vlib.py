"""Shared machinery of the /verif checks: building the Go harness from /repo's
working tree, running TLC (model checking and trace validation), known findings,
evidence files, verdicts.

Verdict rule (DESIGN.md section 1): a VIOLATION is only ever reported from
behaviour of the real code judged by TLC on a recorded trace; infrastructure
problems (build failure, TLC crash, timeout, trace not consumed) are exit 2.
"""
import json, os, re, shutil, subprocess, sys, tempfile, time

ROOT = os.path.dirname(os.path.dirname(os.path.abspath(__file__)))
REPO = os.environ.get("VERIF_REPO", "/repo")
SPECS = os.path.join(ROOT, "specs")
HARNESS = os.path.join(ROOT, "harness")
WORK = os.path.join(ROOT, ".work")
REPLAYS = os.path.join(ROOT, "replays")
EVIDENCE = os.environ.get("VERIF_EVIDENCE_DIR") or os.path.join(ROOT, "evidence")
NCPU = os.cpu_count() or 4


class Infra(Exception):
    """Infrastructure failure: exit 2, never a violation."""


class LibraryPanic(Infra):
    """The harness process died of a Go panic whose innermost frame is in the library under test (a panic on one of the
    library's own goroutines, or in a call the harness did not recover): a property that says "never panics" may turn
    this into a violation; for every other check it stays an infrastructure failure."""
    def __init__(self, msg, stack):
        Infra.__init__(self, msg)
        self.stack = stack


def library_panic(out):
    """(message, stack) if `out` ends in a Go panic whose innermost non-runtime frame belongs to github.com/uber-go/tally."""
    i = out.find("\npanic: ")
    if i < 0 and not out.startswith("panic: ") and "fatal error: " not in out:
        return None
    if i < 0:
        i = max(out.find("panic: "), out.find("fatal error: "))
    tail = out[i:].strip()
    m = re.search(r"\ngoroutine \d+ .*?:\n(.*?)(?:\n\n|$)", tail, re.S)
    if not m:
        return None
    frames = [l for l in m.group(1).splitlines() if l and not l.startswith("\t")]
    for f in frames:
        if f.startswith("panic(") or f.startswith("runtime.") or f.startswith("sync.") or f.startswith("internal/"):
            continue
        if f.startswith("github.com/uber-go/tally/"):
            return tail.splitlines()[0], tail[:4000]
        return None
    return None


def goenv():
    e = dict(os.environ)
    e.update(GOFLAGS="-mod=mod", GOPROXY="off", GOSUMDB="off", GOTOOLCHAIN="local", CGO_ENABLED=e.get("CGO_ENABLED", "1"))
    return e


def sh(cmd, cwd=None, env=None, timeout=None, check=False):
    t0 = time.time()
    try:
        p = subprocess.run(cmd, cwd=cwd, env=env, timeout=timeout, stdout=subprocess.PIPE, stderr=subprocess.STDOUT, text=True, errors="replace")
    except subprocess.TimeoutExpired as ex:
        raise Infra("timeout after %ss: %s" % (timeout, " ".join(cmd[:6])))
    if check and p.returncode != 0:
        raise Infra("command failed (%d): %s\n%s" % (p.returncode, " ".join(cmd[:8]), p.stdout[-4000:]))
    return p.returncode, p.stdout, time.time() - t0


_built = {}
_build_lock = __import__("threading").Lock()


def harness_dir():
    """The harness module. For a repository other than /repo (VERIF_REPO: a scratch worktree carrying a seeded change)
    a private copy of the module whose replace directive points there, so that /repo and /verif/harness stay untouched."""
    if os.path.abspath(REPO) == "/repo":
        return HARNESS
    import hashlib
    d = os.path.join(WORK, "harness-" + hashlib.sha1(os.path.abspath(REPO).encode()).hexdigest()[:12])
    if not os.path.isdir(d):
        os.makedirs(WORK, exist_ok=True)
        shutil.copytree(HARNESS, d, ignore=lambda src, names: [n for n in names if src == HARNESS and n in ("vh", "vh-race")])
        gm = open(os.path.join(d, "go.mod")).read().replace("=> /repo", "=> " + os.path.abspath(REPO))
        open(os.path.join(d, "go.mod"), "w").write(gm)
    return d


def build_harness(race=False):
    """(Re)build the harness against /repo's current working tree, hooks on."""
    with _build_lock:
        return _build_harness(race)


def _build_harness(race):
    key = "race" if race else "plain"
    if key in _built:
        return _built[key]
    HARNESS = harness_dir()
    out = os.path.join(HARNESS, "vh-race" if race else "vh")
    shutil.copyfile(os.path.join(REPO, "go.sum"), os.path.join(HARNESS, "go.sum"))
    cmd = ["go", "build", "-tags", "verif"]
    if race:
        cmd.append("-race")
    cmd += ["-o", out, "./cmd/vh"]
    rc, o, _ = sh(cmd, cwd=HARNESS, env=goenv(), timeout=900)
    if rc != 0:
        raise Infra("harness build failed (does /repo still compile with -tags verif?):\n" + o[-6000:])
    _built[key] = out
    return out


def mkwork(tag):
    os.makedirs(WORK, exist_ok=True)
    return tempfile.mkdtemp(prefix=tag + "-", dir=WORK)


def run_vh(args, race=False, timeout=600, env_extra=None):
    exe = build_harness(race)
    e = goenv()
    if env_extra:
        e.update(env_extra)
    rc, out, dt = sh([exe] + [str(a) for a in args], env=e, timeout=timeout)
    if rc != 0:
        lp = library_panic(out)
        if lp:
            raise LibraryPanic("harness %s died of a panic inside the library: %s" % (args[0], lp[0]), lp[1])
        raise Infra("harness %s failed rc=%d:\n%s" % (args[0], rc, out[-6000:]))
    return out


def read_meta(d):
    with open(os.path.join(d, "meta.json")) as f:
        return json.load(f)


# ---------------------------------------------------------------------------
# TLC

_RE_STATES = re.compile(r"(\d+) states generated, (\d+) distinct states found")
_RE_INV = re.compile(r"Invariant (\S+) is violated")
# n.b. TLC pretty-prints a tuple that does not fit on one line over several lines (<< "FAIL",\n   123,\n   "clause" >>)
_RE_FAIL = re.compile(r'^<<\s*"FAIL",\s*(\d+),\s*"([^"]*)"\s*(?:,\s*([^\n]*?))?\s*>>\s*$', re.M | re.S)


def stage_specs(d, modules=None):
    for f in os.listdir(SPECS):
        if f.endswith(".tla") or f.endswith(".cfg"):
            shutil.copyfile(os.path.join(SPECS, f), os.path.join(d, f))


def write_cfg(d, name, base, overrides=None, drop_invariants=(), add=()):
    """Copy cfg `base` to `name`, overriding CONSTANT assignments `K = v`."""
    src = open(os.path.join(SPECS, base)).read()
    for k, v in (overrides or {}).items():
        src, n = re.subn(r"(?m)^(\s*%s\s*(?:=|<-)\s*).*$" % re.escape(k), lambda m: m.group(1) + str(v), src)
        if n == 0:
            raise Infra("cfg %s has no constant %s" % (base, k))
    for inv in drop_invariants:
        src = re.sub(r"\b%s\b" % inv, "", src)
    for line in add:
        src += "\n" + line + "\n"
    with open(os.path.join(d, name), "w") as f:
        f.write(src)
    return name


def tlc(d, module, cfg, workers=None, timeout=600, simulate=None, depth=None, deque=False, extra=(), xss=False):
    """Run TLC in directory d. Returns dict(rc, out, generated, distinct, violated, wall)."""
    md = tempfile.mkdtemp(prefix="md-", dir=d)
    cmd = ["tlc", "-workers", str(workers or min(NCPU, 16)), "-metadir", md, "-checkpoint", "0", "-config", cfg]
    if simulate:
        cmd += ["-simulate", simulate]
    if depth:
        cmd += ["-depth", str(depth)]
    cmd += list(extra) + [module]
    e = dict(os.environ)
    jopts = ["-Djava.io.tmpdir=" + md]   # TLC's scratch directories go with the metadir, not to /tmp
    if deque:
        jopts.append("-Dtlc2.tool.queue.IStateQueue=StateDeque")
        jopts.append("-XX:ParallelGCThreads=2")
        jopts.append("-Xmx3g")
    if xss:
        jopts.append("-Xss512m")
    if jopts:
        e["JAVA_TOOL_OPTIONS"] = " ".join(jopts)
    rc, out, wall = sh(cmd, cwd=d, env=e, timeout=timeout)
    shutil.rmtree(md, ignore_errors=True)
    gen = dist = 0
    for m in _RE_STATES.finditer(out):
        gen, dist = int(m.group(1)), int(m.group(2))
    viol = _RE_INV.findall(out)
    if "Temporal properties were violated" in out or "is violated" in out and not viol:
        viol = viol or ["<temporal-or-action-property>"]
    if "Deadlock reached" in out:
        viol.append("<deadlock>")
    return dict(rc=rc, out=out, generated=gen, distinct=dist, violated=viol, wall=wall)


def mc_expect_ok(d, module, cfg, label, res, **kw):
    """Exhaustive model checking that must pass (the design satisfies the property)."""
    r = tlc(d, module, cfg, **kw)
    if r["violated"] or r["rc"] != 0 or "Model checking completed. No error has been found" not in r["out"] and "simulate" not in kw:
        if r["violated"]:
            raise Infra("model check %s/%s: specification violates %s (a defect of the model, not of the code)\n%s" % (module, cfg, r["violated"], r["out"][-3000:]))
        if kw.get("simulate") is None:
            raise Infra("model check %s/%s failed rc=%d\n%s" % (module, cfg, r["rc"], r["out"][-3000:]))
    res.add_mc(label, r)
    return r


def mc_expect_violation(d, module, cfg, invariant, label, res, **kw):
    """Non-vacuity: with a design decision dropped (Weak_*/Dev_*) TLC must find the violation."""
    r = tlc(d, module, cfg, **kw)
    if invariant not in r["violated"] and not (invariant == "*" and r["violated"]):
        raise Infra("non-vacuity check %s/%s: expected violation of %s, TLC reported %s\n%s" % (module, cfg, invariant, r["violated"], r["out"][-3000:]))
    res.add_mc(label + " (expected violation of %s found)" % invariant, r, count=False)
    res.nonvacuity.append(label)
    return r


CHUNK_LINES = 250000


def tlc_trace(d, module, cfg, tracefile, nlines, timeout=900, label="trace", xss=False, boundary=None):
    """Validate the ndjson trace `tracefile` (copied to d/trace.ndjson).
    Returns (fails, r): fails = [(line, clause, extra)] printed by the trace spec.
    boundary: substring marking the lines at which the trace spec resets all its state (start of an execution); a
    trace longer than CHUNK_LINES is then cut at such lines and the pieces are validated one after the other (TLC
    holds the whole file in memory), line numbers are reported relative to the whole trace."""
    if boundary is not None and nlines > CHUNK_LINES:
        return _tlc_trace_chunked(d, module, cfg, tracefile, timeout, xss, boundary)
    dst = os.path.join(d, "trace.ndjson")
    if os.path.abspath(tracefile) != os.path.abspath(dst):
        shutil.copyfile(tracefile, dst)
    r = tlc(d, module, cfg, workers=1, timeout=timeout, deque=True, xss=xss)
    fails = [(int(a), b, c) for a, b, c in _RE_FAIL.findall(r["out"])]
    consumed = "Model checking completed. No error has been found" in r["out"]
    if not consumed and not r["violated"]:
        errs = [ln for ln in r["out"].splitlines() if ln.startswith("Error") or "Exception" in ln or "attempted" in ln.lower()][:12]
        raise Infra("trace validation %s did not complete (rc=%d):\n%s\n...\n%s" % (module, r["rc"], "\n".join(errs), r["out"][-1500:]))
    r["consumed"] = consumed
    return fails, r


def _tlc_trace_chunked(d, module, cfg, tracefile, timeout, xss, boundary):
    fails = []
    agg = dict(rc=0, out="", generated=0, distinct=0, violated=[], wall=0.0, consumed=True, chunks=0)
    base = 0          # lines before the current chunk
    buf = []
    k = 0

    def flush():
        nonlocal base, buf, k
        if not buf:
            return
        cd = os.path.join(d, "chunk-%d" % k)
        os.makedirs(cd, exist_ok=True)
        for f in os.listdir(d):
            if f.endswith(".cfg") or f.endswith(".tla"):
                shutil.copyfile(os.path.join(d, f), os.path.join(cd, f))
        with open(os.path.join(cd, "trace.ndjson"), "w") as f:
            f.writelines(buf)
        fl, r = tlc_trace(cd, module, cfg, os.path.join(cd, "trace.ndjson"), len(buf), timeout=timeout, xss=xss)
        fails.extend((ln + base, cl, ex) for (ln, cl, ex) in fl)
        agg["generated"] += r["generated"]; agg["distinct"] += r["distinct"]; agg["wall"] += r["wall"]
        agg["violated"] += r["violated"]; agg["consumed"] = agg["consumed"] and r["consumed"]
        agg["out"] = r["out"][-3000:]; agg["chunks"] += 1
        shutil.rmtree(cd, ignore_errors=True)
        base += len(buf)
        buf = []
        k += 1

    with open(tracefile) as f:
        for line in f:
            if len(buf) >= CHUNK_LINES and boundary in line:
                flush()
            buf.append(line)
    flush()
    return fails, agg


def read_lines(path):
    with open(path) as f:
        return f.read().splitlines()


# ---------------------------------------------------------------------------
# Known findings

def load_known():
    p = os.path.join(ROOT, "known_findings.json")
    if not os.path.exists(p):
        return {"findings": [], "fixed": []}
    with open(p) as f:
        return json.load(f)


# ---------------------------------------------------------------------------
# Results / evidence

class Result:
    def __init__(self, pid, tier, seed, level="model_checking"):
        self.pid, self.tier, self.seed, self.level = pid, tier, seed, level
        self.t0 = time.time()
        self.states = 0
        self.transitions = 0
        self.mc_runs = []
        self.traces = 0
        self.events = 0
        self.evaluations = 0
        self.distinct = 0
        self.samples = []
        self.violations = []      # dicts: clause, detail, replay
        self.known_hits = []      # (finding, detail)
        self.assumptions = []
        self.extra = {}
        self.nonvacuity = []
        self.rule = ""
        self.exhaustive = None
        self.drift = []
        self.tag = ""

    def merge(self, o):
        """fold in the result of a part of the check that ran in parallel"""
        self.states += o.states; self.transitions += o.transitions
        self.traces += o.traces; self.events += o.events
        self.evaluations += o.evaluations; self.distinct += o.distinct
        self.mc_runs += o.mc_runs; self.samples += o.samples
        self.violations += o.violations; self.known_hits += o.known_hits
        self.assumptions += o.assumptions; self.nonvacuity += o.nonvacuity; self.drift += o.drift
        for k, v in o.extra.items():
            self.extra.setdefault(k, v)

    def add_mc(self, label, r, count=True):
        self.mc_runs.append(dict(label=label, generated=r["generated"], distinct=r["distinct"], wall_s=round(r["wall"], 2)))
        if count:
            self.states += r["distinct"]
            self.transitions += r["generated"]

    def add_trace_run(self, label, r, traces, events):
        self.mc_runs.append(dict(label=label + " (trace validation)", generated=r["generated"], distinct=r["distinct"], wall_s=round(r["wall"], 2), traces=traces, events=events))
        self.traces += traces
        self.events += events

    def violation(self, clause, detail, replay_obj):
        os.makedirs(os.path.join(REPLAYS, self.pid), exist_ok=True)
        n = len(self.violations) + 1
        path = os.path.join(REPLAYS, self.pid, "%s-%s-%d-%d-%s%d.json" % (self.pid, self.tier, self.seed, os.getpid(), self.tag, n))
        with open(path, "w") as f:
            json.dump(dict(property=self.pid, clause=clause, detail=detail, replay=replay_obj), f, indent=1, default=str)
        self.violations.append(dict(clause=clause, detail=detail, replay=path))

    def judge_fails(self, fails, lines, context_fn, known_matcher=None, max_report=5):
        """fails: [(line, clause, extra)] from a trace spec; context_fn(line_no)-> replay object."""
        known = [k for k in load_known().get("findings", []) if k.get("property") == self.pid]
        drifts = [f for f in fails if str(f[1]).startswith("Drift:")]
        if drifts:
            # the code differs from the implementation-shaped model where the property has no opinion: recorded, not a verdict
            self.drift += [dict(line=ln, clause=cl) for (ln, cl, ex) in drifts[:50]]
            print("DRIFT (not a verdict): %d trace lines differ from the model, first at line %d (%s)" % (len(drifts), drifts[0][0], drifts[0][1]))
        fails = [f for f in fails if not str(f[1]).startswith("Drift:")]
        for (ln, clause, extra) in fails:
            ctx = context_fn(ln)
            hit = None
            if known_matcher:
                for k in known:
                    if known_matcher(k, clause, ctx):
                        hit = k
                        break
            if hit:
                self.known_hits.append((hit, "line %d clause %s" % (ln, clause)))
            elif len([v for v in self.violations if v["clause"] == clause]) < 2 and len(set(v["replay"] for v in self.violations)) < max(max_report, 10):
                self.violation(clause, "trace line %d%s" % (ln, (" " + extra) if extra else ""), ctx)
            else:
                same = [v for v in self.violations if v["clause"] == clause] or self.violations
                self.violations.append(dict(clause=clause, detail="trace line %d" % ln, replay=same[0]["replay"]))

    def finish(self):
        os.makedirs(EVIDENCE, exist_ok=True)
        cov = dict(
            states=self.states, transitions=self.transitions,
            traces_validated_against_impl=self.traces,
            samples=self.samples[:8] or ["(none)"],
            evaluations=max(self.evaluations, 0), distinct_nontrivial=self.distinct,
            rule=self.rule, trace_events=self.events, tlc_runs=self.mc_runs,
            nonvacuity_checks=self.nonvacuity, drift=self.drift,
            known_findings_hit=sorted(set(k["id"] for k, _ in self.known_hits)),
        )
        if self.exhaustive is not None:
            cov["exhaustive"] = self.exhaustive
        cov.update(self.extra)
        ev = dict(property_id=self.pid, tier=self.tier, seed=self.seed, level=self.level, coverage=cov,
                  assumptions=self.assumptions, wall_s=round(time.time() - self.t0, 2), violations=len(self.violations))
        with open(os.path.join(EVIDENCE, self.pid + ".json"), "w") as f:
            json.dump(ev, f, indent=1, default=str)
        seen = set()
        for k, detail in self.known_hits:
            if k["id"] in seen:
                continue
            seen.add(k["id"])
            print("KNOWN-FINDING: property=%s %s [%s]" % (self.pid, k["what"], k["id"]))
        if self.violations:
            shown = set()
            for v in self.violations:
                if v["replay"] in shown:
                    continue
                shown.add(v["replay"])
                print("VIOLATION property=%s replay=%s clause=%s %s" % (self.pid, v["replay"], v["clause"], v["detail"]))
            print("%s %s: %d violation(s); states=%d traces=%d events=%d wall=%.1fs" % (self.pid, self.tier, len(self.violations), self.states, self.traces, self.events, time.time() - self.t0))
            return 1
        print("%s %s: OK states=%d transitions=%d traces=%d events=%d evaluations=%d wall=%.1fs" % (
            self.pid, self.tier, self.states, self.transitions, self.traces, self.events, self.evaluations, time.time() - self.t0))
        return 0


def case_context(lines, ln, start_pred, max_lines=400):
    """Replay object for a failing trace line: the events of the enclosing case."""
    i = ln - 1
    s = i
    while s > 0 and not start_pred(lines[s]):
        s -= 1
    return dict(first_line=s + 1, failing_line=ln, events=[json.loads(x) for x in lines[s:i + 1][-max_lines:]])


# ---------------------------------------------------------------------------
# Scheduler-driven scenario families (vh core) judged by TallyObsTrace

from concurrent.futures import ThreadPoolExecutor


def run_core_family(res, work, family, tier, seed, parts=8, timeout=1800, clauses=None, matcher=None, race=False, extra_args=()):
    """Run `vh core -family <family>` split into `parts` processes, validate every part's observable
    trace with TLC against TallyObsTrace, and judge the FAIL lines.  clauses: the invariant names that
    belong to the property being checked (others are reported as cross-property observations)."""
    build_harness(race)

    def one(i):
        d = os.path.join(work, "%s-p%d" % (family, i))
        os.makedirs(d, exist_ok=True)
        stage_specs(d)
        run_vh(["core", "-family", family, "-part", "%d/%d" % (i, parts), "-out", d, "-seed", seed + i * 1000003, "-tier", tier] + list(extra_args), race=race, timeout=timeout)
        meta = read_meta(d)
        if meta["execs"] == 0:
            return d, meta, [], None
        fails, r = tlc_trace(d, "TallyObsTrace.tla", "TallyObsTrace.cfg", os.path.join(d, "trace.ndjson"), meta["events"], timeout=timeout, boundary='"e":"scn"')
        if r["violated"] or not r["consumed"]:
            raise Infra("TallyObsTrace did not consume trace of part %d: %s\n%s" % (i, r["violated"], r["out"][-3000:]))
        return d, meta, fails, r

    with ThreadPoolExecutor(max_workers=min(parts, max(2, NCPU // 2))) as ex:
        results = list(ex.map(one, range(parts)))
    other = {}
    for d, meta, fails, r in results:
        res.evaluations += meta["execs"]
        res.distinct += meta["distinct"]
        res.extra.setdefault("scenarios", []).extend(meta.get("scenarios") or [])
        res.extra["steps"] = res.extra.get("steps", 0) + meta["steps"]
        if meta.get("stuck"):
            raise Infra("scheduler: %d executions got stuck (%s)" % (meta["stuck"], meta.get("stuck_msg")))
        if meta.get("overruns"):
            raise Infra("scheduler: %d executions exceeded the step bound" % meta["overruns"])
        if r is None:
            continue
        res.add_trace_run("TallyObsTrace %s part" % family, r, meta["execs"], meta["events"])
        res.states += r["distinct"]
        res.transitions += r["generated"]
        if len(res.samples) < 6:
            res.samples.extend(meta.get("samples", [])[:2])
        if not fails:
            continue
        lines = read_lines(os.path.join(d, "trace.ndjson"))
        scheds = None
        for (ln, clause, extra) in fails:
            if clauses is not None and clause not in clauses:
                other[clause] = other.get(clause, 0) + 1
                continue
            ctx = case_context(lines, ln, lambda s: s.startswith('{"e":"scn"'))
            x = ctx["events"][0].get("x")
            if scheds is None:
                scheds = {}
                for sl in read_lines(os.path.join(d, "scheds.ndjson")):
                    o = json.loads(sl)
                    scheds[o["x"]] = o
            ctx["execution"] = scheds.get(x)
            ctx["family"] = family
            hit = None
            if matcher:
                for k in load_known().get("findings", []):
                    if k.get("property") == res.pid and matcher(k, clause, ctx):
                        hit = k
                        break
            if hit:
                res.known_hits.append((hit, "clause %s" % clause))
            elif len(res.violations) < 5:
                res.violation(clause, "scenario %s execution %s trace line %d" % ((ctx["execution"] or {}).get("scenario"), x, ln), ctx)
            else:
                res.violations.append(dict(clause=clause, detail="", replay=res.violations[0]["replay"]))
    if other:
        res.extra["other_property_observations"] = other
    return results


def tallycore(work, res, label, expect=None, deadlock=False, timeout=1500, workers=None, drop_invariants=(), **overrides):
    """Model-check TallyCore (MCTallyCore.tla) with constant overrides; expect = invariant that must be violated (non-vacuity)."""
    name = "tc_%s.cfg" % re.sub(r"[^A-Za-z0-9]", "_", label)
    ov = {k: v for k, v in overrides.items()}
    if deadlock:
        ov["CHECK_DEADLOCK"] = "TRUE"
    src = open(os.path.join(SPECS, "TallyCore.cfg")).read()
    for k, v in ov.items():
        if k == "CHECK_DEADLOCK":
            src = src.replace("CHECK_DEADLOCK FALSE", "CHECK_DEADLOCK TRUE")
            continue
        src, n = re.subn(r"(?m)^(\s*%s\s*(?:=|<-)\s*).*$" % re.escape(k), lambda m: m.group(1) + str(v), src)
        if n == 0:
            raise Infra("TallyCore.cfg has no constant %s" % k)
    for inv in drop_invariants:
        src = re.sub(r"(?m)^(INVARIANTS.*?)\b%s\b" % re.escape(inv), r"\1", src)
    with open(os.path.join(work, name), "w") as f:
        f.write(src)
    if expect:
        return mc_expect_violation(work, "MCTallyCore.tla", name, expect, label, res, timeout=timeout, workers=workers)
    return mc_expect_ok(work, "MCTallyCore.tla", name, "TallyCore " + label, res, timeout=timeout, workers=workers)
