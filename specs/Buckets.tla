------------------------------- MODULE Buckets -------------------------------
(***************************************************************************)
(* Bucket constructors (histogram.go Linear*/Exponential* and their Must   *)
(* variants) as recurrences over integers, and the bucket cache shared by  *)
(* all scopes of a root (stats.go bucketCache.Get): keyed by a commutative *)
(* sum of the elements, so permutations and equal-sum sets collide; a hit  *)
(* is only used if the stored specification equals the requested one.      *)
(* Serves C20.                                                             *)
(***************************************************************************)
EXTENDS Integers, Sequences, FiniteSets, TLC

CONSTANTS WeakNoEqualityRecheck,   \* weakening: a cache hit is used without comparing the specifications
          WeakKindBlindEquality,   \* weakening: value and duration specifications with equal elements compare equal
          WeakExpAdds,             \* weakening: the exponential constructor adds the factor
          WeakLinearOffByOne,      \* weakening: the linear constructor starts at start + width
          WeakMustSwallowsError    \* weakening: a Must* constructor returns nil instead of panicking

---------------------------------------------------------------------------
(* constructors; a result is [st |-> "ok", v |-> the bounds] or [st |-> "err", v |-> <<>>] *)
Ok(v) == [st |-> "ok", v |-> v]
Err == [st |-> "err", v |-> <<>>]
Linear(start, width, n) ==
  IF n <= 0 THEN Err
  ELSE Ok([i \in 1..n |-> start + (IF WeakLinearOffByOne THEN i ELSE i - 1) * width])

(* factor = p / q; every step truncates towards zero like time.Duration(float64(curr) * factor)
   (for value buckets the harness only uses factors for which no truncation occurs) *)
RECURSIVE ExpFrom(_, _, _, _)
ExpFrom(curr, p, q, n) == IF n = 0 THEN <<>>
                          ELSE <<curr>> \o ExpFrom(IF WeakExpAdds THEN curr + (p \div q) ELSE (curr * p) \div q, p, q, n - 1)
Exponential(start, p, q, n) ==
  IF n <= 0 \/ start <= 0 \/ p <= q THEN Err ELSE Ok(ExpFrom(start, p, q, n))

MustResult(r) == IF r.st = "err" THEN [st |-> IF WeakMustSwallowsError THEN "nil" ELSE "panic", v |-> <<>>] ELSE r

---------------------------------------------------------------------------
(* the bucket cache.  A specification is [kind, elems]; its identity is kind-blind and order-blind *)
RECURSIVE SumSeq(_)
SumSeq(s) == IF s = <<>> THEN 0 ELSE Head(s) + SumSeq(Tail(s))
Id(spec) == IF spec.elems = <<>> THEN 0 ELSE 1000 + 31 * SumSeq(spec.elems)
SpecEqual(a, b) == (WeakKindBlindEquality \/ a.kind = b.kind) /\ a.elems = b.elems

CONSTANTS Threads, Requests     \* Requests: thread -> sequence of specifications it creates histograms with

VARIABLES cache,    \* identity -> stored specification (the storage is derived from it)
          lockR, lockW,
          pc, req, probe,
          got       \* set of [t, n, wanted, used]: the specification whose bounds the n-th histogram of t uses
bvars == <<cache, lockR, lockW, pc, req, probe, got>>

BInit == /\ cache = <<>> /\ lockR = {} /\ lockW = "none"
         /\ pc = [t \in Threads |-> "bc_rlock"] /\ req = [t \in Threads |-> 1]
         /\ probe = [t \in Threads |-> "none"] /\ got = {}

Cur(t) == Requests[t][req[t]]
Done(t) == req[t] > Len(Requests[t])
Finish(t, used) == /\ got' = got \cup {[t |-> t, n |-> req[t], wanted |-> Cur(t), used |-> used]}
                   /\ req' = [req EXCEPT ![t] = @ + 1]
                   /\ pc' = [pc EXCEPT ![t] = "bc_rlock"]

RLockProbe(t) == /\ ~Done(t) /\ pc[t] = "bc_rlock" /\ lockW = "none"
                 /\ IF Id(Cur(t)) \in DOMAIN cache
                    THEN /\ probe' = [probe EXCEPT ![t] = cache[Id(Cur(t))]]
                         /\ pc' = [pc EXCEPT ![t] = "bc_hit_check"]
                    ELSE /\ probe' = [probe EXCEPT ![t] = "none"]
                         /\ pc' = [pc EXCEPT ![t] = "bc_lock"]
                 /\ UNCHANGED <<cache, lockR, lockW, req, got>>
MissInsert(t) == /\ pc[t] = "bc_lock" /\ lockW = "none" /\ lockR = {}
                 /\ cache' = (IF Id(Cur(t)) \in DOMAIN cache THEN [cache EXCEPT ![Id(Cur(t))] = Cur(t)]
                              ELSE cache @@ (Id(Cur(t)) :> Cur(t)))
                 /\ Finish(t, Cur(t))
                 /\ UNCHANGED <<lockR, lockW, probe>>
HitCheck(t) == /\ pc[t] = "bc_hit_check"
               /\ Finish(t, IF WeakNoEqualityRecheck \/ SpecEqual(Cur(t), probe[t]) THEN probe[t] ELSE Cur(t))
               /\ UNCHANGED <<cache, lockR, lockW, probe>>
BNext == \E t \in Threads : RLockProbe(t) \/ MissInsert(t) \/ HitCheck(t)
BSpec == BInit /\ [][BNext]_bvars

(* a histogram always uses exactly the bounds it was created with *)
KeepsOwnBounds == \A g \in got : g.used.kind = g.wanted.kind /\ g.used.elems = g.wanted.elems
=============================================================================
