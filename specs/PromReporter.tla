---------------------------- MODULE PromReporter ----------------------------
(***************************************************************************)
(* prometheus/reporter.go as a state machine.  Serves C17.                 *)
(*                                                                         *)
(*  reg      the Prometheus registry: collectors [name, kind, keys].  A    *)
(*           Register is rejected iff a collector of that name exists      *)
(*           (same name + same label names = duplicate descriptor; same    *)
(*           name + other label names or other help string = inconsistent  *)
(*           descriptor; the reporter's help strings differ per kind).     *)
(*  cache    the reporter's three maps counters / gauges / timers keyed by *)
(*           canonicalMetricID(name, keys); `timers` holds summaries AND   *)
(*           histograms (a slot has exactly one of the two vectors).       *)
(*  series   the children of the vectors: one per label-value tuple.       *)
(*  handles  what Allocate* returned: live (bound to a series) or noop.    *)
(*                                                                         *)
(* Values.  Bucket bounds are the even tokens 2,4,..,2K, samples range     *)
(* over 1..2K+1, Max = 2K+2 stands for the open upper end (+Inf bucket).   *)
(* A histogram sample s is delivered as `Observe(upper)` of the tally      *)
(* bucket it fell into (Histogram.tla: first bound >= s), n times.         *)
(***************************************************************************)
EXTENDS Integers, Sequences, FiniteSets, TLC

CONSTANTS Names, Keys, Vals, K, MaxOps, ReportVals,
          DevCrossKindNilSlot,   \* pinned tree: a hit in `timers` on a slot of the other flavour returns a nil vector without error -> nil dereference
          WeakObserveLowerBound, \* bucket samples observed at the bucket's lower bound
          WeakNoNoopOnError,     \* after the callback returned the nil vector is used anyway
          WeakCounterSet,        \* counter handle sets instead of adds
          WeakCallbackSkipped,   \* a rejected registration is not reported to the callback
          WeakSharedSeries       \* series keyed by name only: different tag values share one child

VARIABLES flavour, cbPanics, specOf, reg, cache, series, handles, out, truth, nops
vars == <<flavour, cbPanics, specOf, reg, cache, series, handles, out, truth, nops>>

Bounds == {2 * i : i \in 1..K}
Max == 2 * K + 2
Samples == 1..(2 * K + 1)
TagMaps == UNION {[ks -> Vals] : ks \in SUBSET Keys}
AsKinds == {"counter", "gauge", "timer", "histogram"}

Fam(as) == CASE as = "counter" -> "counters" [] as = "gauge" -> "gauges" [] OTHER -> "timers"
WantKind(as) == CASE as = "timer" -> flavour [] OTHER -> as

Sid(name, kind, keys, tm) == [name |-> name, kind |-> kind, keys |-> keys, vals |-> IF WeakSharedSeries THEN <<>> ELSE tm]
Zero == [sum |-> 0, last |-> 0, count |-> 0, obs |-> [t \in 1..Max |-> 0]]

Init ==
  /\ flavour \in {"summary", "histogram"} /\ cbPanics \in BOOLEAN
  /\ specOf \in [Names -> (SUBSET Bounds) \ {{}}]
  /\ reg = {} /\ cache = {} /\ series = <<>> /\ handles = <<>>
  /\ out = [res |-> "init", cb |-> 0, rejected |-> FALSE] /\ truth = <<>> /\ nops = 0

HasSeries(s) == s \in DOMAIN series
SeriesWith(s) == IF HasSeries(s) THEN series ELSE [x \in DOMAIN series \cup {s} |-> IF x = s THEN Zero ELSE series[x]]

(* Allocate<as>(name, tm): cache lookup, Register on a miss, error -> callback -> noop *)
Alloc(as, name, tm) ==
  LET keys == DOMAIN tm
      fam == Fam(as)
      want == WantKind(as)
      hit == {c \in cache : c.fam = fam /\ c.name = name /\ c.keys = keys}
      live(kind) == [st |-> "live", as |-> as, sid |-> Sid(name, kind, keys, tm), name |-> name, tm |-> tm]
      noop == [st |-> "noop", as |-> as, sid |-> <<>>, name |-> name, tm |-> tm]
      Rejected == /\ UNCHANGED <<reg, cache, series>>
                  /\ IF WeakCallbackSkipped
                     THEN /\ out' = [res |-> "noop", cb |-> 0, rejected |-> TRUE] /\ handles' = Append(handles, noop)
                     ELSE IF cbPanics
                     THEN /\ out' = [res |-> "panic", cb |-> 1, rejected |-> TRUE] /\ UNCHANGED handles
                     ELSE IF WeakNoNoopOnError
                     THEN /\ out' = [res |-> "panic", cb |-> 1, rejected |-> TRUE] /\ UNCHANGED handles
                     ELSE /\ out' = [res |-> "noop", cb |-> 1, rejected |-> TRUE] /\ handles' = Append(handles, noop)
  IN /\ nops' = nops + 1 /\ UNCHANGED <<flavour, cbPanics, specOf, truth>>
     /\ IF hit # {}
        THEN LET c == CHOOSE c \in hit : TRUE IN
             IF c.kind = want
             THEN /\ series' = SeriesWith(Sid(name, want, keys, tm))
                  /\ handles' = Append(handles, live(want))
                  /\ out' = [res |-> "live", cb |-> 0, rejected |-> FALSE]
                  /\ UNCHANGED <<reg, cache>>
             ELSE IF DevCrossKindNilSlot
                  THEN /\ out' = [res |-> "panic", cb |-> 0, rejected |-> FALSE]   \* nilvec.With(tags)
                       /\ UNCHANGED <<reg, cache, series, handles>>
                  ELSE Rejected
        ELSE IF \E r \in reg : r.name = name
             THEN Rejected
             ELSE /\ reg' = reg \cup {[name |-> name, kind |-> want, keys |-> keys]}
                  /\ cache' = cache \cup {[fam |-> fam, name |-> name, keys |-> keys, kind |-> want]}
                  /\ series' = SeriesWith(Sid(name, want, keys, tm))
                  /\ handles' = Append(handles, live(want))
                  /\ out' = [res |-> "live", cb |-> 0, rejected |-> FALSE]

(* Register<as>(name, keys, help): the public helpers that declare a vector up front; no handle, an error is RETURNED
   (not routed to the callback).  A later Allocate with the same name and key SET (in any order) finds the vector. *)
Register(as, name, keys) ==
  LET fam == Fam(as)
      want == WantKind(as)
      hit == {c \in cache : c.fam = fam /\ c.name = name /\ c.keys = keys}
  IN /\ nops' = nops + 1 /\ UNCHANGED <<flavour, cbPanics, specOf, truth, series, handles>>
     /\ IF hit # {} THEN /\ UNCHANGED <<reg, cache>>
                          /\ out' = [res |-> (IF (CHOOSE c \in hit : TRUE).kind = want \/ DevCrossKindNilSlot THEN "ok" ELSE "err"), cb |-> 0, rejected |-> FALSE]
        ELSE IF \E r \in reg : r.name = name
        THEN /\ UNCHANGED <<reg, cache>> /\ out' = [res |-> "err", cb |-> 0, rejected |-> FALSE]
        ELSE /\ reg' = reg \cup {[name |-> name, kind |-> want, keys |-> keys]}
             /\ cache' = cache \cup {[fam |-> fam, name |-> name, keys |-> keys, kind |-> want]}
             /\ out' = [res |-> "ok", cb |-> 0, rejected |-> FALSE]

(* tally bucket of sample s for the histogram's spec: (lower, upper] with upper = first bound >= s *)
UpperOf(spec, s) == IF \E b \in spec : b >= s THEN CHOOSE b \in spec : b >= s /\ \A b2 \in spec : b2 >= s => b <= b2 ELSE Max
LowerOf(spec, s) == IF \E b \in spec : b < s THEN CHOOSE b \in spec : b < s /\ \A b2 \in spec : b2 < s => b >= b2 ELSE 1

(* a value reported through handle h: v = increment | gauge value | (timer: anything) | histogram sample token *)
TruthKey(hd) == <<hd.as, hd.name, hd.tm>>
Report(h, v) ==
  LET hd == handles[h] IN
  /\ nops' = nops + 1 /\ UNCHANGED <<flavour, cbPanics, specOf, reg, cache, handles>>
  /\ out' = [res |-> "ok", cb |-> 0, rejected |-> FALSE]
  /\ IF hd.st = "noop" THEN UNCHANGED <<series, truth>>
     ELSE LET s == series[hd.sid]
              obsAt(t) == [s EXCEPT !.obs[t] = @ + 1, !.count = @ + 1]
              s2 == CASE hd.as = "counter" -> [s EXCEPT !.sum = IF WeakCounterSet THEN v ELSE @ + v]
                      [] hd.as = "gauge" -> [s EXCEPT !.last = v]
                      [] hd.as = "timer" -> [s EXCEPT !.count = @ + 1]
                      [] hd.as = "histogram" ->
                           IF hd.sid.kind = "histogram"
                           THEN obsAt(IF WeakObserveLowerBound THEN LowerOf(specOf[hd.name], v) ELSE UpperOf(specOf[hd.name], v))
                           ELSE s
              old == IF TruthKey(hd) \in DOMAIN truth THEN truth[TruthKey(hd)] ELSE <<>>
          IN /\ series' = [series EXCEPT ![hd.sid] = s2]
             /\ truth' = [x \in DOMAIN truth \cup {TruthKey(hd)} |-> IF x = TruthKey(hd) THEN Append(old, v) ELSE truth[x]]

Next ==
  /\ nops < MaxOps
  /\ \/ \E as \in AsKinds, name \in Names, tm \in TagMaps : Alloc(as, name, tm)
     \/ \E as \in AsKinds \ {"histogram"}, name \in Names, ks \in SUBSET Keys : Register(as, name, ks)
     \/ \E h \in 1..Len(handles) : \E v \in ReportVals : Report(h, v)
Spec == Init /\ [][Next]_vars

(***************************************************************************)
(* What Gather shows for a series                                          *)
(***************************************************************************)
Cum(s, b) == LET RECURSIVE Acc(_)
                 Acc(t) == IF t = 0 THEN 0 ELSE s.obs[t] + Acc(t - 1)
             IN Acc(b)
RECURSIVE SumSeq(_)
SumSeq(q) == IF q = <<>> THEN 0 ELSE Head(q) + SumSeq(Tail(q))
CountLeq(q, b) == Cardinality({i \in 1..Len(q) : q[i] <= b})

(***************************************************************************)
(* C17                                                                     *)
(***************************************************************************)
(* a name used for exactly one kind of metric (the value clause is claimed for those) *)
KindsOf(name) == {handles[i].as : i \in {j \in 1..Len(handles) : handles[j].name = name}}
Exposed ==
  \A k \in DOMAIN truth :
    LET as == k[1] sid == Sid(k[2], WantKind(k[1]), DOMAIN k[3], k[3]) q == truth[k] IN
    Cardinality(KindsOf(k[2])) = 1 =>
      CASE as = "counter" -> series[sid].sum = SumSeq(q)
        [] as = "gauge" -> series[sid].last = q[Len(q)]
        [] as = "timer" -> series[sid].count = Len(q)
        [] as = "histogram" -> /\ series[sid].count = Len(q)
                               /\ \A b \in specOf[sid.name] : Cum(series[sid], b) = CountLeq(q, b)
SeriesSeparate ==
  \A i, j \in 1..Len(handles) :
    (handles[i].st = "live" /\ handles[j].st = "live" /\ handles[i].tm # handles[j].tm) => handles[i].sid # handles[j].sid
OneFamilyPerName == \A r1, r2 \in reg : r1.name = r2.name => r1 = r2
RejectionReported == out.rejected => out.cb = 1
NeverPanicsWhenCallbackReturns == out.res = "panic" => (cbPanics /\ out.rejected)
UsableOrNoop == \A i \in 1..Len(handles) : handles[i].st \in {"live", "noop"} /\ (handles[i].st = "live" => handles[i].sid \in DOMAIN series)
=============================================================================
