----------------------------- MODULE M3TagCache -----------------------------
(***************************************************************************)
(* m3/reporter.go convertTags + internal/cache/tag_cache.go: the thrift    *)
(* tag slice of a tag map is cached under a 64-bit commutative hash of the *)
(* strings k ++ "=" ++ v.  The hash is modelled as PERFECT on that multiset *)
(* of strings, so a collision in the model is a real collision of the      *)
(* renderings (two different maps with the same set of "k=v" strings), not *)
(* a 64-bit accident.  Strings are sequences over Alphabet, which contains  *)
(* the separator "=".  Serves C13 (tags intact).                            *)
(***************************************************************************)
EXTENDS Integers, Sequences, FiniteSets, TLC
CONSTANTS Alphabet, MaxLen, MaxEntries, MaxAllocs,
          DevTagCacheHashOnly   \* pinned tree: a hit is trusted without comparing the tags
VARIABLES cacheE, allocs, lastOk
vars == <<cacheE, allocs, lastOk>>

Strs == UNION {[1..n -> Alphabet] : n \in 0..MaxLen}
TagMaps == UNION {[ks -> Strs] : ks \in {S \in SUBSET Strs : Cardinality(S) <= MaxEntries}}
Render(tm) == {k \o <<"=">> \o tm[k] : k \in DOMAIN tm}    \* the set of k=v strings: what the hash sees
Init == cacheE = <<>> /\ allocs = 0 /\ lastOk = TRUE
(* convertTags(tm): the tags the new metric is built with *)
Alloc(tm) ==
  LET key == Render(tm)
      hit == key \in DOMAIN cacheE
      got == IF hit /\ (DevTagCacheHashOnly \/ cacheE[key] = tm) THEN cacheE[key] ELSE tm
  IN /\ allocs' = allocs + 1
     /\ lastOk' = (got = tm)
     /\ cacheE' = IF hit THEN cacheE ELSE [x \in DOMAIN cacheE \cup {key} |-> IF x = key THEN tm ELSE cacheE[x]]
Next == allocs < MaxAllocs /\ \E tm \in TagMaps : Alloc(tm)
Spec == Init /\ [][Next]_vars
TagsIntact == lastOk
=============================================================================
