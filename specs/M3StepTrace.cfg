SPECIFICATION TraceSpec
CONSTANTS
  Producers <- TProducers
  NRep <- TNRep
  Flushers <- TFlushers
  Closers <- TClosers
  QCap <- TQCap
  Free = 1000000
  SizeOf <- MCSizeOf
  NInternal = 5
  MaxClk = 1
  EmitFails = FALSE
  DevClockStartsAtZero = FALSE
  WeakPendingAfterDoneCheck = FALSE
  WeakCloseNoSpin = FALSE
  WeakFlushIgnoresDone = FALSE
  WeakNoFinalFlush = FALSE
  WeakCheckAfterAppend = FALSE
  WeakNoResetOfBytes = FALSE
  WeakSecondCloseOk = FALSE
  WeakLeakPendingOnDone = FALSE
POSTCONDITION Report
CHECK_DEADLOCK FALSE
