SPECIFICATION TraceSpec
CONSTANTS
  Producers = {"p1", "p2", "p3", "p4"}
  NRep = 1
  Flushers = {"f1"}
  Closers = {"z1", "z2"}
  QCap = 1
  Free = 1000000
  SizeOf <- MCSizeOf
  NInternal = 5
  MaxClk = 1
  EmitFails = FALSE
  DevClockStartsAtZero = FALSE
  WeakPendingAfterDoneCheck = FALSE
  WeakCloseNoSpin = FALSE
  WeakFlushIgnoresDone = FALSE
  WeakNoFinalFlush = FALSE
  WeakCheckAfterAppend = FALSE
  WeakNoResetOfBytes = FALSE
  WeakSecondCloseOk = FALSE
  WeakLeakPendingOnDone = FALSE
POSTCONDITION Report
CHECK_DEADLOCK FALSE
