------------------------------ MODULE MCBuckets ------------------------------
EXTENDS Buckets
V(e) == [kind |-> "value", elems |-> e]
D(e) == [kind |-> "duration", elems |-> e]
(* colliding specifications: permutations, equal sums, value/duration with equal elements *)
Pool == {V(<<1, 4>>), V(<<4, 1>>), V(<<2, 3>>), D(<<1, 4>>), V(<<5>>), D(<<2, 3>>)}
ReqA == [t \in {"t1", "t2"} |-> IF t = "t1" THEN <<V(<<1, 4>>), D(<<1, 4>>), V(<<2, 3>>)>> ELSE <<V(<<4, 1>>), V(<<5>>), V(<<1, 4>>)>>]
ReqB == [t \in {"t1", "t2"} |-> IF t = "t1" THEN <<D(<<2, 3>>), V(<<2, 3>>), V(<<4, 1>>)>> ELSE <<V(<<2, 3>>), D(<<2, 3>>), V(<<5>>)>>]
ReqSeq == [t \in {"t1"} |-> <<V(<<1, 4>>), V(<<4, 1>>), V(<<2, 3>>), D(<<1, 4>>), V(<<5>>), V(<<1, 4>>)>>]
=============================================================================
