SPECIFICATION Spec
CONSTANTS
  DevEmptyKeyDedup = FALSE
  WeakLeftmostWins = FALSE
  WeakNoSort = FALSE
  WeakLeftBiasedMerge = FALSE
  WeakLeadingSeparator = FALSE
  WeakTaggedAppendsPrefix = FALSE
INVARIANTS TaggedIdempotent RegroupIndependent LaterWins InheritedKept SubCommutesWithTagged TaggedKeepsPrefix SubKeepsTags EmptyPrefixNoSeparator NameJoined KeyFollowsIdentity
CHECK_DEADLOCK FALSE
