SPECIFICATION TraceSpec
CONSTANTS
  Threads = {"t1"}
  Requests <- ReqNone
  WeakNoEqualityRecheck = FALSE
  WeakKindBlindEquality = FALSE
  WeakExpAdds = FALSE
  WeakLinearOffByOne = FALSE
  WeakMustSwallowsError = FALSE
CHECK_DEADLOCK FALSE
