SPECIFICATION Spec
CONSTANTS
  MaxLen = 4
  DevFFFDAllowedPassesInvalid = FALSE
  WeakExclusiveRangeEnd = FALSE
  WeakNoBackfill = FALSE
  WeakResultAliasesBuffer = FALSE
INVARIANTS OnlyAllowedOrReplacement ValidUnchanged Idempotent RuneCountPreserved InvalidReplaced
CHECK_DEADLOCK FALSE
