----------------------------- MODULE M3Reporter -----------------------------
(***************************************************************************)
(* m3/reporter.go as threads with program counters; labels = the verif     *)
(* hook names in the code (m3r_.. reportCopyMetric, m3f_.. Flush, m3c_..   *)
(* Close, m3p_.. process; timeLoop is t_..).  Serves C12 (batching), C13   *)
(* (delivery), C14 (handshake).                                            *)
(*                                                                         *)
(*   done, pending, doneClosed (donech), metClosed, q (metCh, capacity     *)
(*   QCap), mets / bytes (the open batch of process), sent (emitted        *)
(*   batches), now (cached clock register), clk (wall clock).              *)
(*                                                                         *)
(* A producer thread runs a script of reports; the flusher runs Flush      *)
(* (which itself reports NInternal internal metrics, then sends the        *)
(* marker with a BLOCKING send); closers run Close and then one late       *)
(* report.  Items are records [set, id, size, ts].                         *)
(***************************************************************************)
EXTENDS Integers, Sequences, FiniteSets, TLC

CONSTANTS Producers, NRep, Flushers, Closers, QCap, Free, SizeOf(_), NInternal, MaxClk, EmitFails,
          DevClockStartsAtZero,        \* pinned tree: the clock register is first written by timeLoop, after construction returned
          WeakPendingAfterDoneCheck,   \* enter: done is checked before pending++
          WeakCloseNoSpin,             \* Close does not wait for pending = 0
          WeakFlushIgnoresDone,        \* Flush does not look at done
          WeakNoFinalFlush,            \* process exits without emitting the open batch
          WeakCheckAfterAppend,        \* the size check is made after the metric was appended
          WeakNoResetOfBytes,          \* bytes is not reset after a flush
          WeakSecondCloseOk,           \* a second Close returns nil
          WeakLeakPendingOnDone        \* the done path returns without pending--

VARIABLES pc, idx, done, pending, doneClosed, metClosed, q, mets, bytes, sent, now, clk,
          panicked, closeRes, called, returned, retAtClose, closeCalled, closeReturned, lateEnq, hold, inner
vars == <<pc, idx, done, pending, doneClosed, metClosed, q, mets, bytes, sent, now, clk,
          panicked, closeRes, called, returned, retAtClose, closeCalled, closeReturned, lateEnq, hold, inner>>

Threads == Producers \cup Flushers \cup Closers \cup {"proc", "time"}
Reporters == Producers \cup Closers   \* threads that (also) run reportCopyMetric with their own ids
RepId(t, i) == <<t, "rep", i>>

Init ==
  /\ pc = [t \in Threads |-> CASE t \in Producers -> "m3r_inc" [] t \in Flushers -> "m3f_inc" [] t \in Closers -> "m3c_cas"
                               [] t = "proc" -> "m3p_recv" [] OTHER -> "t_check"]
  /\ idx = [t \in Threads |-> 1]
  /\ done = FALSE /\ pending = 0 /\ doneClosed = FALSE /\ metClosed = FALSE
  /\ q = <<>> /\ mets = <<>> /\ bytes = 0 /\ sent = <<>>
  /\ clk = 1 /\ now = IF DevClockStartsAtZero THEN 0 ELSE 1
  /\ panicked = FALSE /\ closeRes = [c \in Closers |-> "none"]
  /\ called = {} /\ returned = {} /\ retAtClose = {} /\ closeCalled = FALSE /\ closeReturned = FALSE /\ lateEnq = {}
  /\ hold = [t \in Threads |-> <<>>] /\ inner = [t \in Threads |-> 0]

Goto(t, l) == pc' = [pc EXCEPT ![t] = l]
Keep(v) == UNCHANGED v

(***************************************************************************)
(* reportCopyMetric (labels m3r_..), run by producers, by closers after     *)
(* Close returned (late call), and nested inside Flush (internal metrics)  *)
(***************************************************************************)
CurId(t) == IF t \in Flushers THEN <<t, "int", inner[t]>> ELSE RepId(t, idx[t])
AfterReport(t) ==   \* where the thread goes when its report call returns
  IF t \in Flushers THEN (IF inner[t] < NInternal THEN "m3r_inc" ELSE "m3f_send")
  ELSE IF t \in Closers THEN "fin"
  ELSE IF idx[t] < NRep THEN "m3r_inc" ELSE "fin"

RInc(t) == /\ pc[t] = "m3r_inc"
           /\ IF WeakPendingAfterDoneCheck THEN pending' = pending ELSE pending' = pending + 1
           /\ called' = called \cup {CurId(t)}
           /\ Goto(t, "m3r_done")
           /\ UNCHANGED <<idx, done, doneClosed, metClosed, q, mets, bytes, sent, now, clk, panicked, closeRes, returned, retAtClose, closeCalled, closeReturned, lateEnq, hold, inner>>
RDone(t) == /\ pc[t] = "m3r_done"
            /\ IF done THEN Goto(t, IF WeakLeakPendingOnDone \/ WeakPendingAfterDoneCheck THEN "m3r_ret" ELSE "m3r_dec") /\ pending' = pending
               ELSE /\ Goto(t, "m3r_now") /\ pending' = pending
            /\ UNCHANGED <<idx, done, doneClosed, metClosed, q, mets, bytes, sent, now, clk, panicked, closeRes, called, returned, retAtClose, closeCalled, closeReturned, lateEnq, hold, inner>>
RNow(t) == /\ pc[t] = "m3r_now"
           /\ hold' = [hold EXCEPT ![t] = [set |-> TRUE, id |-> CurId(t), size |-> SizeOf(CurId(t)), ts |-> now, at |-> clk]]
           /\ Goto(t, "m3r_send")
           /\ pending' = IF WeakPendingAfterDoneCheck THEN pending + 1 ELSE pending   \* the weakening: pending++ only now, after the done check
           /\ UNCHANGED <<idx, done, doneClosed, metClosed, q, mets, bytes, sent, now, clk, panicked, closeRes, called, returned, retAtClose, closeCalled, closeReturned, lateEnq, inner>>
(* select { case metCh <- sm: ; case <-donech: } : a send on a closed channel panics *)
RSend(t) == /\ pc[t] = "m3r_send"
            /\ \/ /\ metClosed /\ panicked' = TRUE /\ Goto(t, "panic") /\ UNCHANGED <<q, lateEnq>>
               \/ /\ ~metClosed /\ Len(q) < QCap /\ q' = Append(q, hold[t]) /\ Goto(t, "m3r_dec") /\ UNCHANGED panicked
                  /\ lateEnq' = IF closeReturned THEN lateEnq \cup {hold[t].id} ELSE lateEnq
               \/ /\ doneClosed /\ Goto(t, "m3r_dec") /\ UNCHANGED <<q, panicked, lateEnq>>
            /\ UNCHANGED <<idx, done, pending, doneClosed, metClosed, mets, bytes, sent, now, clk, closeRes, called, returned, retAtClose, closeCalled, closeReturned, hold, inner>>
RDec(t) == /\ pc[t] = "m3r_dec"
           /\ pending' = pending - 1
           /\ Goto(t, "m3r_ret")
           /\ UNCHANGED <<idx, done, doneClosed, metClosed, q, mets, bytes, sent, now, clk, panicked, closeRes, called, returned, retAtClose, closeCalled, closeReturned, lateEnq, hold, inner>>
RRet(t) == /\ pc[t] = "m3r_ret"
           /\ returned' = returned \cup {CurId(t)}
           /\ Goto(t, AfterReport(t))
           /\ idx' = [idx EXCEPT ![t] = IF t \in Producers THEN @ + 1 ELSE @]
           /\ inner' = [inner EXCEPT ![t] = IF t \in Flushers /\ @ < NInternal THEN @ + 1 ELSE @]
           /\ UNCHANGED <<done, pending, doneClosed, metClosed, q, mets, bytes, sent, now, clk, panicked, closeRes, called, retAtClose, closeCalled, closeReturned, lateEnq, hold>>

(***************************************************************************)
(* Flush (m3f_..): pending++, done check, internal metrics, BLOCKING send   *)
(***************************************************************************)
FInc(t) == /\ pc[t] = "m3f_inc" /\ pending' = pending + 1 /\ Goto(t, "m3f_done")
           /\ UNCHANGED <<idx, done, doneClosed, metClosed, q, mets, bytes, sent, now, clk, panicked, closeRes, called, returned, retAtClose, closeCalled, closeReturned, lateEnq, hold, inner>>
FDone(t) == /\ pc[t] = "m3f_done"
            /\ IF done /\ ~WeakFlushIgnoresDone THEN Goto(t, "m3f_dec") /\ UNCHANGED inner
               ELSE IF NInternal > 0 THEN Goto(t, "m3r_inc") /\ inner' = [inner EXCEPT ![t] = 1]
               ELSE Goto(t, "m3f_send") /\ UNCHANGED inner
            /\ UNCHANGED <<idx, done, pending, doneClosed, metClosed, q, mets, bytes, sent, now, clk, panicked, closeRes, called, returned, retAtClose, closeCalled, closeReturned, lateEnq, hold>>
FSend(t) == /\ pc[t] = "m3f_send"
            /\ \/ /\ metClosed /\ panicked' = TRUE /\ Goto(t, "panic") /\ UNCHANGED q
               \/ /\ ~metClosed /\ Len(q) < QCap /\ q' = Append(q, [set |-> FALSE, id |-> <<t, "marker", 0>>, size |-> 0, ts |-> 0, at |-> 0]) /\ Goto(t, "m3f_dec") /\ UNCHANGED panicked
            /\ UNCHANGED <<idx, done, pending, doneClosed, metClosed, mets, bytes, sent, now, clk, closeRes, called, returned, retAtClose, closeCalled, closeReturned, lateEnq, hold, inner>>
FDec(t) == /\ pc[t] = "m3f_dec" /\ pending' = pending - 1 /\ Goto(t, "fin")
           /\ UNCHANGED <<idx, done, doneClosed, metClosed, q, mets, bytes, sent, now, clk, panicked, closeRes, called, returned, retAtClose, closeCalled, closeReturned, lateEnq, hold, inner>>

(***************************************************************************)
(* Close (m3c_..)                                                          *)
(***************************************************************************)
CCas(t) == /\ pc[t] = "m3c_cas"
           /\ IF ~closeCalled THEN retAtClose' = returned /\ closeCalled' = TRUE ELSE UNCHANGED <<retAtClose, closeCalled>>
           /\ IF done
              THEN /\ closeRes' = [closeRes EXCEPT ![t] = IF WeakSecondCloseOk THEN "ok" ELSE "err"] /\ Goto(t, "m3r_inc") /\ UNCHANGED done   \* its Close has returned (an error): then one report, like the other closer
              ELSE /\ done' = TRUE /\ Goto(t, "m3c_spin") /\ UNCHANGED closeRes
           /\ UNCHANGED <<idx, pending, doneClosed, metClosed, q, mets, bytes, sent, now, clk, panicked, called, returned, closeReturned, lateEnq, hold, inner>>
CSpin(t) == /\ pc[t] = "m3c_spin" /\ (pending = 0 \/ WeakCloseNoSpin) /\ Goto(t, "m3c_closedone")
            /\ UNCHANGED <<idx, done, pending, doneClosed, metClosed, q, mets, bytes, sent, now, clk, panicked, closeRes, called, returned, retAtClose, closeCalled, closeReturned, lateEnq, hold, inner>>
CCloseDone(t) == /\ pc[t] = "m3c_closedone" /\ doneClosed' = TRUE /\ Goto(t, "m3c_closemet")
                 /\ UNCHANGED <<idx, done, pending, metClosed, q, mets, bytes, sent, now, clk, panicked, closeRes, called, returned, retAtClose, closeCalled, closeReturned, lateEnq, hold, inner>>
CCloseMet(t) == /\ pc[t] = "m3c_closemet" /\ metClosed' = TRUE /\ Goto(t, "m3c_wait")
                /\ UNCHANGED <<idx, done, pending, doneClosed, q, mets, bytes, sent, now, clk, panicked, closeRes, called, returned, retAtClose, closeCalled, closeReturned, lateEnq, hold, inner>>
CWait(t) == /\ pc[t] = "m3c_wait" /\ pc["proc"] = "exit" /\ pc["time"] = "exit"
            /\ closeRes' = [closeRes EXCEPT ![t] = "ok"] /\ closeReturned' = TRUE
            /\ Goto(t, "m3r_inc")    \* then one late report
            /\ UNCHANGED <<idx, done, pending, doneClosed, metClosed, q, mets, bytes, sent, now, clk, panicked, called, returned, retAtClose, closeCalled, lateEnq, hold, inner>>

(***************************************************************************)
(* process (m3p_..): receive; flush decision; append.  emit = the batch is  *)
(* handed to the transport (EmitFails: the send may fail, the batch is     *)
(* dropped and counted, the loop carries on).                              *)
(***************************************************************************)
Emit(b) == IF b = <<>> THEN sent ELSE Append(sent, b)
PRecv == /\ pc["proc"] = "m3p_recv"
         /\ \/ /\ q # <<>>
               /\ LET it == Head(q)
                      flush == (~it.set /\ mets # <<>>) \/ (IF WeakCheckAfterAppend THEN bytes > Free ELSE bytes + it.size > Free)
                      mets1 == IF flush THEN <<>> ELSE mets
                      bytes1 == IF flush /\ ~WeakNoResetOfBytes THEN 0 ELSE bytes
                  IN /\ q' = Tail(q)
                     /\ \/ sent' = (IF flush THEN Emit(mets) ELSE sent)
                        \/ EmitFails /\ flush /\ sent' = sent
                     /\ IF it.set THEN mets' = Append(mets1, it) /\ bytes' = bytes1 + it.size
                        ELSE mets' = mets1 /\ bytes' = bytes1
               /\ UNCHANGED pc
            \/ /\ q = <<>> /\ metClosed
               /\ sent' = (IF WeakNoFinalFlush THEN sent ELSE Emit(mets)) /\ mets' = <<>> /\ bytes' = 0 /\ UNCHANGED q
               /\ Goto("proc", "exit")
         /\ UNCHANGED <<idx, done, pending, doneClosed, metClosed, now, clk, panicked, closeRes, called, returned, retAtClose, closeCalled, closeReturned, lateEnq, hold, inner>>

(***************************************************************************)
(* timeLoop and the wall clock                                             *)
(***************************************************************************)
TCheck == /\ pc["time"] = "t_check"
          /\ IF done THEN Goto("time", "exit") /\ UNCHANGED now ELSE now' = clk /\ Goto("time", "t_wait")
          /\ UNCHANGED <<idx, done, pending, doneClosed, metClosed, q, mets, bytes, sent, clk, panicked, closeRes, called, returned, retAtClose, closeCalled, closeReturned, lateEnq, hold, inner>>
TWait == /\ pc["time"] = "t_wait"
         /\ \/ Goto("time", "t_check")                      \* tick
            \/ doneClosed /\ Goto("time", "exit")
         /\ UNCHANGED <<idx, done, pending, doneClosed, metClosed, q, mets, bytes, sent, now, clk, panicked, closeRes, called, returned, retAtClose, closeCalled, closeReturned, lateEnq, hold, inner>>
Tick == /\ clk < MaxClk /\ clk' = clk + 1
        /\ UNCHANGED <<pc, idx, done, pending, doneClosed, metClosed, q, mets, bytes, sent, now, panicked, closeRes, called, returned, retAtClose, closeCalled, closeReturned, lateEnq, hold, inner>>

ThreadStep(t) ==
  \/ t \in (Reporters \cup Flushers) /\ (RInc(t) \/ RDone(t) \/ RNow(t) \/ RSend(t) \/ RDec(t) \/ RRet(t))
  \/ t \in Flushers /\ (FInc(t) \/ FDone(t) \/ FSend(t) \/ FDec(t))
  \/ t \in Closers /\ (CCas(t) \/ CSpin(t) \/ CCloseDone(t) \/ CCloseMet(t) \/ CWait(t))
Next == (\E t \in Threads : ThreadStep(t)) \/ PRecv \/ TCheck \/ TWait \/ Tick
Spec == Init /\ [][Next]_vars
FairSpec == Spec /\ \A t \in Threads : WF_vars(ThreadStep(t)) /\ WF_vars(PRecv) /\ WF_vars(TCheck) /\ WF_vars(TWait)

(***************************************************************************)
(* Properties                                                              *)
(***************************************************************************)
Finished(t) == pc[t] \in {"fin", "exit", "panic"}
AllDone == \A t \in Threads : Finished(t)
RECURSIVE Flat(_)
Flat(bs) == IF bs = <<>> THEN <<>> ELSE Head(bs) \o Flat(Tail(bs))
SentSeq == Flat(sent)
Occ(id) == Cardinality({k \in 1..Len(SentSeq) : SentSeq[k].id = id})
EnqueuedEver == {SentSeq[k].id : k \in 1..Len(SentSeq)} \cup {mets[k].id : k \in 1..Len(mets)} \cup {q[k].id : k \in {j \in 1..Len(q) : q[j].set}}

(* C14 *)
NoSendOnClosedQueue == ~panicked
SecondCloseErrors == Cardinality({c \in Closers : closeRes[c] = "ok"}) <= 1
AfterCloseNoop == lateEnq = {}
NoLeak == closeReturned => (pc["proc"] = "exit" /\ pc["time"] = "exit")
PendingBalanced == AllDone => pending = 0
AppDone == \A t \in Threads \ {"time"} : Finished(t)
TimeQuiescent == pc["time"] = "exit" \/ ~done   \* while not done the clock goroutine just loops: it cannot unblock anybody
NoDeadlock == ((\A t \in Threads \ {"proc", "time"} : ~ENABLED ThreadStep(t)) /\ ~ENABLED PRecv /\ TimeQuiescent) => (AppDone \/ (Closers = {} /\ \A t \in Threads \ {"proc", "time"} : Finished(t)))
CloseReturns == <>(\A c \in Closers : closeRes[c] # "none")
(* C13 *)
AtMostOnce == \A k \in 1..Len(SentSeq) : Occ(SentSeq[k].id) = 1
CloseDrains == (closeReturned /\ ~EmitFails) => \A id \in retAtClose : (id \in EnqueuedEver => Occ(id) = 1)
ReturnedBeforeCloseDelivered == (closeReturned /\ ~EmitFails) => \A id \in retAtClose : Occ(id) = 1
NothingPendingAfterClose == closeReturned => q = <<>> /\ mets = <<>>
TimestampBracket == \A k \in 1..Len(SentSeq) : SentSeq[k].ts >= 1 /\ SentSeq[k].ts <= SentSeq[k].at
(* C12 (batching; sizes charged = sizes actual in this module: see ThriftSize / the measured A1, A2) *)
RECURSIVE SumSize(_)
SumSize(b) == IF b = <<>> THEN 0 ELSE Head(b).size + SumSize(Tail(b))
BatchWithinFree == \A i \in 1..Len(sent) : SumSize(sent[i]) <= Free
OpenBatchWithinFree == bytes <= Free /\ bytes = SumSize(mets)
OrderPreserved == \A t \in Producers : \A k1, k2 \in 1..Len(SentSeq) :
                     (SentSeq[k1].id[1] = t /\ SentSeq[k2].id[1] = t /\ SentSeq[k1].id[3] < SentSeq[k2].id[3]) => k1 < k2
=============================================================================
