SPECIFICATION Spec
CONSTANTS
  Names = {"n1", "n2"}
  Keys = {"k"}
  Vals = {"v1"}
  K = 1
  MaxOps = 4
  ReportVals = {}
  DevCrossKindNilSlot = FALSE
  WeakObserveLowerBound = FALSE
  WeakNoNoopOnError = FALSE
  WeakCounterSet = FALSE
  WeakCallbackSkipped = FALSE
  WeakSharedSeries = FALSE
INVARIANTS Exposed SeriesSeparate OneFamilyPerName RejectionReported NeverPanicsWhenCallbackReturns UsableOrNoop
CHECK_DEADLOCK FALSE
