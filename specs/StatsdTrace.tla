----------------------------- MODULE StatsdTrace -----------------------------
(***************************************************************************)
(* Validates the call log of a recording statsd client behind the real     *)
(* tally statsd reporter against StatsdReporter.tla.                       *)
(*  report {kind, name, v, trunc, lo, hi, rate, calls:[{m, stat, v, rate}]}*)
(*  hist   {stats:[[lo,hi,stat tokens]...]}  the stat names of one         *)
(*         histogram's buckets (distinctness)                              *)
(*  caps   {reporting, tagging}                                            *)
(***************************************************************************)
EXTENDS StatsdReporter, Json
VARIABLES l
TraceLog == ndJsonDeserialize("trace.ndjson")
Fail(c) == PrintT(<<"FAIL", l, c>>)
TInit == l = 1 /\ Init
AsSeq(x) == [i \in 1..Len(x) |-> x[i]]
TNext ==
  /\ l <= Len(TraceLog)
  /\ LET r == TraceLog[l] IN
     CASE r.e = "report" ->
            LET exp == Forward(r.kind, r.name, r.v, r.trunc, r.lo, r.hi, r.rate)
                got == [i \in 1..Len(r.calls) |-> [m |-> r.calls[i].m, stat |-> AsSeq(r.calls[i].stat), v |-> r.calls[i].v, rate |-> r.calls[i].rate]]
            IN IF Len(got) # 1 THEN Fail("OneCallPerReport")
               ELSE IF got[1].m # exp[1].m THEN Fail("ClientMethod")
               ELSE IF got[1].stat # exp[1].stat THEN Fail("StatName")
               ELSE IF got[1].v # exp[1].v THEN Fail("Value")
               ELSE IF got[1].rate # exp[1].rate THEN Fail("SampleRate")
               ELSE TRUE
       [] r.e = "hist" ->
            IF Cardinality({AsSeq(r.stats[i][3]) : i \in 1..Len(r.stats)}) # Cardinality({<<r.stats[i][1], r.stats[i][2]>> : i \in 1..Len(r.stats)})
            THEN Fail("NamesDistinct") ELSE TRUE
       [] r.e = "conc" ->
            (* one reporter used by several goroutines at once: the calls received are the calls made, as multisets
               of stat names (compared by the harness, logged as the two difference counts) *)
            IF r.received # r.calls THEN Fail("OneCallPerReport:concurrent-callers")
            ELSE IF r.missing > 0 \/ r.unexpected > 0 THEN Fail("StatName:concurrent-callers") ELSE TRUE
       [] r.e = "caps" ->
            IF ~r.reporting \/ r.tagging THEN Fail("Capabilities") ELSE TRUE
       [] OTHER -> TRUE
  /\ l' = l + 1 /\ UNCHANGED vars
TraceSpec == TInit /\ [][TNext]_<<vars, l>>
=============================================================================
