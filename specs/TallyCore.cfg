SPECIFICATION Spec
CONSTANTS
  Apps = {"a1"}
  Script <- ScriptC01
  Closers = {}
  Passers = {"p1", "p2"}
  HasLoop = FALSE
  MaxTicks = 0
  NObj = 1
  DevNonAtomicDelta = FALSE
  DevDeleteByKey = FALSE
  DevClosedAfterReport = FALSE
  DevCloseNoWait = FALSE
  DevPurgeAnyPass = FALSE
  DevNoCloseMutex = FALSE
  WeakFlagBeforeValue = FALSE
  WeakLoadBeforeSwap = FALSE
  WeakNoRecheckUnderLock = FALSE
  WeakNoFinalPass = FALSE
  defaultInitValue = 0
INVARIANTS NeverAhead NoNegativeDelta Conservation GaugeAuthentic GaugeFresh GaugeCountBound ReacquireFresh CloseBarrier QuietAfterClose ReporterClosedOnce ReporterClosedAfterFlush LoopEnded LockOrder
CHECK_DEADLOCK FALSE
