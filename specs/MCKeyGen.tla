------------------------------ MODULE MCKeyGen ------------------------------
(* Exhaustive check of KeyGen over all pairs of (prefix, map, map) of a small string domain. *)
EXTENDS KeyGen
CONSTANTS Alphabet, MaxLen,
          Mode   \* "merge": all (prefix, map, map) triples; "inj": all pairs of (prefix, map)

Strs == UNION {[1..n -> Alphabet] : n \in 0..MaxLen}
RECURSIVE Cat(_)
Cat(cs) == IF cs = <<>> THEN "" ELSE Head(cs) \o Cat(Tail(cs))
Strings == {Cat(s) : s \in Strs}
Maps == {m \in UNION {[D -> Strings] : D \in SUBSET Strings} : Cardinality(DOMAIN m) <= 2}

VARIABLES p1, a1, b1, p2, a2
vars == <<p1, a1, b1, p2, a2>>
EmptyMap == [k \in {} |-> ""]
Init == /\ p1 \in Strings /\ a1 \in Maps
        /\ IF Mode = "merge" THEN b1 \in Maps /\ p2 = "" /\ a2 = EmptyMap
           ELSE b1 = EmptyMap /\ p2 \in Strings /\ a2 \in Maps
Next == UNCHANGED vars
Spec == Init /\ [][Next]_vars

Perms(s) == {f \in [1..Len(s) -> 1..Len(s)] : \A i, j \in 1..Len(s) : i # j => f[i] # f[j]}
(* the key does not depend on the order in which the map iteration handed out the keys *)
OrderIndependent ==
  LET c == CollectFrom(<<a1, b1>>, 1)
  IN \A f \in Perms(c) : KeyFrom(p1, <<a1, b1>>, [i \in 1..Len(c) |-> c[f[i]]]) = Key(p1, <<a1, b1>>)
(* rightmost map wins and the key agrees with the key of the merged map *)
AgreesWithMerged == Key(p1, <<a1, b1>>) = Key(p1, <<Merge(a1, b1)>>)
NoDelims == ~HasDelim(p1) /\ ~HasDelim(p2) /\ ~MapHasDelim(Merge(a1, b1)) /\ ~MapHasDelim(a2)
(* different identities have different keys - on inputs free of the delimiter characters *)
InjectiveNoDelims == (NoDelims /\ Key(p1, <<a1, b1>>) = Key(p2, <<a2>>)) => (p1 = p2 /\ Merge(a1, b1) = a2)
(* ... and on all inputs: FALSE on this tree (known finding C05-key-delimiters), kept to show the witness *)
Injective == (Key(p1, <<a1, b1>>) = Key(p2, <<a2>>)) => (p1 = p2 /\ Merge(a1, b1) = a2)
=============================================================================
