SPECIFICATION Spec
CONSTANTS
  Apps = {"a1"}
  Passes = {"p1", "p2"}
  Script <- MCScript
  MaxObj = 3
  DevNoClosedCheckUnderWriteLock = FALSE
  DevDeleteByKey = FALSE
  WeakNoReportOnReacquire = FALSE
INVARIANTS ReacquireFresh NeverAhead Conservation NoDeadlock
CHECK_DEADLOCK FALSE
