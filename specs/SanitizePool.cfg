SPECIFICATION Spec
CONSTANTS
  Threads = {1, 2}
  Calls = 2
  WeakResultAliasesBuffer = FALSE
  WeakPutBeforeString = FALSE
INVARIANTS ResultsStable ResultCorrect
CHECK_DEADLOCK FALSE
