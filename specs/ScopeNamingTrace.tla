-------------------------- MODULE ScopeNamingTrace --------------------------
(***************************************************************************)
(* Validates derivation programs executed on real scopes (plain reporter,  *)
(* cached reporter, test scope) against ScopeNaming / KeyGen.  Events:     *)
(*  root   {prefix, sep, tags, san:{n,k,v}}     a new root (handle 0)      *)
(*  sub    {h, p, name}   tag {h, p, tags}      derive handle h from p     *)
(*  metric {h, kind, name, path, got_name, got_tags}  what reached the     *)
(*         reporter / snapshot for a metric recorded through handle h      *)
(*  same   {a, b, same_scope, same_metric, crosstalk} object identity of   *)
(*         two handles and of a same-named counter; crosstalk = something  *)
(*         recorded through a arrived under b's name/tags                  *)
(*  key    {prefix, maps, got}  the public KeyFor(Prefixed)StringMap       *)
(*  caller {mutated}      a map handed to the API was modified by it       *)
(***************************************************************************)
EXTENDS ScopeNaming, Json

VARIABLES l, hs, sep, san, par
TraceLog == ndJsonDeserialize("trace.ndjson")
tv == <<l, hs, sep, san, par>>
Fail(c) == PrintT(<<"FAIL", l, c>>)
Put2(f, k, v) == IF k \in DOMAIN f THEN [f EXCEPT ![k] = v] ELSE f @@ (k :> v)

(* the handle's registry key coincides with that of a different identity because of unescaped delimiters (known finding) *)
Collides(h) == \E x \in DOMAIN hs : /\ ~SameIdentity(hs[x], hs[h]) /\ RegistryKey(hs[x]) = RegistryKey(hs[h])
                                      /\ (IdentityHasDelim(hs[x]) \/ IdentityHasDelim(hs[h]))
(* ... or it was derived from such a handle *)
RECURSIVE Poisoned(_)
Poisoned(h) == Collides(h) \/ (h \in DOMAIN par /\ Poisoned(par[h]))
Sfx(h) == IF Poisoned(h) THEN ":delimiter-collision" ELSE ""

TInit == l = 1 /\ hs = <<>> /\ par = <<>> /\ sep = "." /\ san = [n |-> <<>>, k |-> <<>>, v |-> <<>>]

TNext ==
  /\ l <= Len(TraceLog)
  /\ LET r == TraceLog[l] IN
     CASE r.e = "root" ->
            /\ san' = r.san
            /\ sep' = San(r.san.n, IF r.sep = "" THEN "." ELSE r.sep)
            /\ hs' = (0 :> RootScope(r.prefix, r.tags, r.san)) /\ par' = <<>>
       [] r.e = "sub" ->
            /\ hs' = Put2(hs, r.h, SubScopeOf(hs[r.p], sep, r.name, san)) /\ par' = Put2(par, r.h, r.p) /\ UNCHANGED <<sep, san>>
       [] r.e = "tag" ->
            /\ hs' = Put2(hs, r.h, TaggedOf(hs[r.p], sep, r.tags, san)) /\ par' = Put2(par, r.h, r.p) /\ UNCHANGED <<sep, san>>
       [] r.e = "metric" ->
            /\ IF r.got_name # MetricName(hs[r.h], sep, r.name, san) THEN Fail("NameFollowsDerivation" \o Sfx(r.h))
               ELSE IF r.got_tags # hs[r.h].tags THEN Fail("TagsFollowDerivation" \o Sfx(r.h)) ELSE TRUE
            /\ UNCHANGED <<hs, sep, san, par>>
       [] r.e = "same" ->
            /\ LET same == SameIdentity(hs[r.a], hs[r.b])
                   collide == RegistryKey(hs[r.a]) = RegistryKey(hs[r.b])
               IN IF same /\ ~r.same_scope THEN Fail("EqualIdentitiesShareScope" \o Sfx(r.a) \o (IF Sfx(r.a) = "" THEN Sfx(r.b) ELSE ""))
                  ELSE IF same /\ ~r.same_metric THEN Fail("EqualIdentitiesShareMetric" \o Sfx(r.a) \o (IF Sfx(r.a) = "" THEN Sfx(r.b) ELSE ""))
                  ELSE IF ~same /\ (r.same_scope \/ r.same_metric \/ r.crosstalk)
                       THEN (IF (collide /\ (IdentityHasDelim(hs[r.a]) \/ IdentityHasDelim(hs[r.b]))) \/ Poisoned(r.a) \/ Poisoned(r.b)
                             THEN Fail("DifferentIdentitiesMerged:delimiter-collision")
                             ELSE Fail("DifferentIdentitiesMerged"))
                  ELSE TRUE
            /\ UNCHANGED <<hs, sep, san, par>>
       [] r.e = "key" ->
            /\ IF r.got # Key(r.prefix, r.maps) THEN Fail("KeyFunction")
               ELSE IF r.got # Key(r.prefix, <<Effective(r.maps)>>) THEN Fail("KeyAgreesWithMerged") ELSE TRUE
            /\ UNCHANGED <<hs, sep, san, par>>
       [] r.e = "caller" ->
            /\ IF r.mutated THEN Fail("CallerMapUntouched") ELSE TRUE
            /\ UNCHANGED <<hs, sep, san, par>>
       [] OTHER -> UNCHANGED <<hs, sep, san, par>>
  /\ l' = l + 1

TraceSpec == TInit /\ [][TNext]_tv
=============================================================================
