SPECIFICATION Spec
CONSTANTS
  Alphabet = {"a", "b"}
  MaxLen = 1
  Mode = "merge"
  DevEmptyKeyDedup = FALSE
  WeakLeftmostWins = FALSE
  WeakNoSort = FALSE
INVARIANTS OrderIndependent AgreesWithMerged InjectiveNoDelims
CHECK_DEADLOCK FALSE
