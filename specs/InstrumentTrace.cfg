SPECIFICATION TraceSpec
CONSTANTS
  MaxClk = 1000000000
  MaxSw = 1000000000
  MaxExec = 1000000000
  WeakStopwatchUsesStart = FALSE
  WeakBothCounters = FALSE
  WeakExecTwice = FALSE
INVARIANTS StopwatchElapsed ExactlyOneOutcomeCounter
CHECK_DEADLOCK FALSE
