-------------------------- MODULE HistogramTrace --------------------------
(***************************************************************************)
(* Validates traces recorded from the real histogram code against the      *)
(* Histogram specification.  Events (one JSON object per line):            *)
(*   new : {e, kind, spec, path, pairs, alloc}   a histogram is created    *)
(*   rec : {e, k, v, panic}                      RecordValue/RecordDuration*)
(*   rep : {e, out}                              one report pass; out =    *)
(*         the (lower, upper, samples) tuples that reached the reporter    *)
(*   shared : {e, bounds_ok, counts_ok}  concurrent creators, one spec      *)
(* All bounds / samples are tokens of the Histogram module (the harness    *)
(* maps concrete float64 / int64 values back through its table).           *)
(* The trace never gets stuck: a mismatch prints a FAIL line naming the    *)
(* violated clause and the model state is carried on.                      *)
(***************************************************************************)
EXTENDS Histogram, Json

VARIABLES l, nanPending, pv   \* pv: the bucket pairs of the current specification as <<lo, hi>> tuples, computed once per histogram

TraceLog == ndJsonDeserialize("trace.ndjson")

tvars == <<vars, l, nanPending, pv>>

Fail(clause) == PrintT(<<"FAIL", l, clause>>)

RECURSIVE SumSeq(_)
SumSeq(s) == IF s = <<>> THEN 0 ELSE Head(s) + SumSeq(Tail(s))

PairsAsTuples(sp) == [i \in 1..Len(Pairs(sp)) |-> <<Pairs(sp)[i].lo, Pairs(sp)[i].hi>>]

TInit == /\ l = 1 /\ nanPending = 0 /\ pv = PairsAsTuples(<<>>)
         /\ spec = <<>> /\ kind = "value"
         /\ counts = [i \in 0..(MaxSpecLen + 1) |-> 0]
         /\ prevc = [i \in 0..(MaxSpecLen + 1) |-> 0]
         /\ recorded = 0 /\ nanRecorded = 0
         /\ delivered = [i \in 0..(MaxSpecLen + 1) |-> 0]
         /\ panicked = FALSE /\ nrec = 0

TNew(r) ==
  /\ r.e = "new"
  /\ spec' = r.spec /\ kind' = r.kind /\ pv' = PairsAsTuples(r.spec)
  /\ counts' = [i \in 0..(MaxSpecLen + 1) |-> 0]
  /\ prevc' = [i \in 0..(MaxSpecLen + 1) |-> 0]
  /\ recorded' = 0 /\ nanRecorded' = 0 /\ nanPending' = 0
  /\ delivered' = [i \in 0..(MaxSpecLen + 1) |-> 0]
  /\ panicked' = FALSE /\ nrec' = 0
  /\ IF r.pairs # PairsAsTuples(r.spec) THEN Fail("Tiling") ELSE TRUE
  /\ IF r.path = "cached" /\ r.alloc # PairsAsTuples(r.spec) THEN Fail("CachedBucketAllocation") ELSE TRUE

TRec(r) ==
  /\ r.e = "rec"
  /\ IF r.panic
     THEN /\ Fail("NoPanic") /\ UNCHANGED <<vars, nanPending, pv>>
     ELSE IF r.v = NAN /\ r.k = kind
          THEN /\ nanPending' = nanPending + 1 /\ UNCHANGED <<vars, pv>>   \* property: at most one bucket, any
          ELSE /\ Record(r.k, r.v) /\ UNCHANGED <<nanPending, pv>>

(* the snapshot of a test scope is keyed by upper bound only: its deltas are logged as <<hi, hi, n>>.
   Only the buckets with a pending model delta and the logged ones are compared (specifications have up to 66 bounds). *)
KeyOf(path, i) == IF path = "snap" THEN <<pv[i][2], pv[i][2]>> ELSE pv[i]
NBv == Len(pv)
ModelDelta(path, p) == SumSeq([i \in 1..NBv |-> IF KeyOf(path, i) = p THEN counts[i - 1] - prevc[i - 1] ELSE 0])
LoggedDelta(r, p) == SumSeq([j \in 1..Len(r.out) |-> IF <<r.out[j][1], r.out[j][2]>> = p THEN r.out[j][3] ELSE 0])

TRep(r) ==
  /\ r.e = "rep"
  /\ LET known == {KeyOf(r.path, i) : i \in 1..NBv}
         active == {KeyOf(r.path, i) : i \in {k \in 1..NBv : counts[k - 1] # prevc[k - 1]}}
         ps == active \cup {<<r.out[j][1], r.out[j][2]>> : j \in 1..Len(r.out)}
         totalLogged == SumSeq([j \in 1..Len(r.out) |-> r.out[j][3]])
         totalModel == SumSeq([i \in 1..NBv |-> counts[i - 1] - prevc[i - 1]])
     IN /\ IF \E p \in ps : LoggedDelta(r, p) < ModelDelta(r.path, p) THEN Fail("SampleLostOrWrongBucket")
           ELSE IF totalLogged - totalModel > nanPending THEN Fail("SampleInventedOrWrongBucket")
           ELSE IF \E j \in 1..Len(r.out) : r.out[j][3] <= 0 THEN Fail("NonPositiveBucketDelivery")
           ELSE IF \E j \in 1..Len(r.out) : <<r.out[j][1], r.out[j][2]>> \notin known THEN Fail("UnknownBucket")
           ELSE TRUE
  /\ Report
  /\ nanPending' = 0 /\ UNCHANGED pv

(* one unsorted specification shared by several roots that create their histograms at the same time: every
   histogram's bounds are the sorted specification, the caller's slice is as it was *)
TShared(r) ==
  /\ r.e = "shared" /\ UNCHANGED <<vars, nanPending, pv>>
  /\ IF ~r.bounds_ok THEN Fail("Tiling:specification-shared-by-concurrent-creators")
     ELSE IF ~r.counts_ok THEN Fail("SampleLostOrWrongBucket:specification-shared-by-concurrent-creators") ELSE TRUE

TNext == /\ l <= Len(TraceLog)
         /\ LET r == TraceLog[l] IN TNew(r) \/ TRec(r) \/ TRep(r) \/ TShared(r)
         /\ l' = l + 1

TraceSpec == TInit /\ [][TNext]_tvars

(* the model-level invariants are evaluated on every state the real code drove the model into *)
TraceTiling == spec # <<>> => Tiling
Consumed == TLCGet("stats").diameter - 1 = Len(TraceLog)
=============================================================================
