SPECIFICATION TraceSpec
CONSTANTS
  MaxPacket = 0
  Overhead = 0
  Env = 0
  CSizes = {}
  MaxItems = 0
  DevBucketTagsUncharged = FALSE
  DevEnvelopeConst = FALSE
  WeakCheckAfterAppend = FALSE
  WeakNoResetOfBytes = FALSE
  WeakFlushDropsOverflowing = FALSE
CHECK_DEADLOCK FALSE
