SPECIFICATION Spec
CONSTANTS
  Names = {"n1"}
  Keys = {"k"}
  Vals = {"v1", "v2"}
  K = 2
  MaxOps = 4
  ReportVals = {1, 2, 3, 4, 5}
  DevCrossKindNilSlot = FALSE
  WeakObserveLowerBound = FALSE
  WeakNoNoopOnError = FALSE
  WeakCounterSet = FALSE
  WeakCallbackSkipped = FALSE
  WeakSharedSeries = FALSE
INVARIANTS Exposed SeriesSeparate OneFamilyPerName RejectionReported NeverPanicsWhenCallbackReturns UsableOrNoop
CHECK_DEADLOCK FALSE
