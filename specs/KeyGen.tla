------------------------------- MODULE KeyGen -------------------------------
(***************************************************************************)
(* key_gen.go transcribed: the canonical key of a prefix and a list of tag *)
(* maps (rightmost map wins) as it is written by                           *)
(* keyForPrefixedStringMapsAsKey: collect the keys of all maps (one        *)
(* occurrence per map that has the key, in any order), insertion sort,     *)
(* prefix '+' , then k '=' v joined by ',' skipping repeated keys.         *)
(* Strings are TLA+ strings over a small alphabet that contains the three  *)
(* delimiter characters; the byte order of the alphabet is given by Ord.   *)
(* Serves C05 (and the snapshot keys of C11, the cache ids of C17).        *)
(***************************************************************************)
EXTENDS Integers, Sequences, FiniteSets, TLC

CONSTANTS DevEmptyKeyDedup,   \* pinned tree: "wrote a key already" is tested as len(lastKey) > 0
          WeakLeftmostWins,   \* weakening: the leftmost map's value is used
          WeakNoSort          \* weakening: keys are not sorted

Ord(c) == CASE c = "+" -> 43 [] c = "," -> 44 [] c = "." -> 46 [] c = "=" -> 61 [] c = "_" -> 95
            [] c = "a" -> 97 [] c = "b" -> 98 [] c = "c" -> 99 [] OTHER -> 120
Ch(s, i) == SubSeq(s, i, i)

RECURSIVE LessFrom(_, _, _)
LessFrom(s, t, i) ==                  \* s < t in byte order, comparing from position i
  IF i > Len(s) THEN i <= Len(t)
  ELSE IF i > Len(t) THEN FALSE
  ELSE IF Ord(Ch(s, i)) # Ord(Ch(t, i)) THEN Ord(Ch(s, i)) < Ord(Ch(t, i))
  ELSE LessFrom(s, t, i + 1)
Less(s, t) == LessFrom(s, t, 1)

(* insertionSort(keys), literally *)
RECURSIVE SinkFrom(_, _)
SinkFrom(ks, j) == IF j > 1 /\ Less(ks[j], ks[j - 1])
                   THEN SinkFrom([ks EXCEPT ![j] = ks[j - 1], ![j - 1] = ks[j]], j - 1)
                   ELSE ks
RECURSIVE SortFrom(_, _)
SortFrom(ks, i) == IF i > Len(ks) THEN ks ELSE SortFrom(SinkFrom(ks, i), i + 1)
InsertionSort(ks) == IF WeakNoSort THEN ks ELSE SortFrom(ks, 2)

(* maps are records / functions from strings to strings; maps is a sequence of them *)
HasKey(m, k) == k \in DOMAIN m
ValueOf(maps, k) ==
  LET idxs == {j \in 1..Len(maps) : HasKey(maps[j], k)}
      j == IF WeakLeftmostWins THEN CHOOSE x \in idxs : \A y \in idxs : x <= y
           ELSE CHOOSE x \in idxs : \A y \in idxs : x >= y
  IN maps[j][k]

RECURSIVE Loop(_, _, _, _, _)
Loop(keys, maps, buf, lastKey, wrote) ==
  IF keys = <<>> THEN buf
  ELSE LET k == Head(keys)
           started == IF DevEmptyKeyDedup THEN Len(lastKey) > 0 ELSE wrote
       IN IF started /\ k = lastKey THEN Loop(Tail(keys), maps, buf, lastKey, wrote)
          ELSE LET b1 == IF started THEN buf \o "," ELSE buf
                   b2 == b1 \o k \o "=" \o ValueOf(maps, k)
               IN Loop(Tail(keys), maps, b2, k, TRUE)

(* collected: the keys of all maps, one occurrence per map, in the (arbitrary) order the Go map iteration produced *)
KeyFrom(prefix, maps, collected) ==
  Loop(InsertionSort(collected), maps, IF prefix = "" THEN "" ELSE prefix \o "+", "", FALSE)

(* a canonical collection order (the result must not depend on it: OrderIndependent) *)
RECURSIVE SetToSeq(_)
SetToSeq(S) == IF S = {} THEN <<>> ELSE LET x == CHOOSE y \in S : TRUE IN <<x>> \o SetToSeq(S \ {x})
RECURSIVE CollectFrom(_, _)
CollectFrom(maps, i) == IF i > Len(maps) THEN <<>> ELSE SetToSeq(DOMAIN maps[i]) \o CollectFrom(maps, i + 1)
Key(prefix, maps) == KeyFrom(prefix, maps, CollectFrom(maps, 1))

Merge(m1, m2) == [k \in DOMAIN m1 \cup DOMAIN m2 |-> IF k \in DOMAIN m2 THEN m2[k] ELSE m1[k]]
RECURSIVE MergeAll(_, _)
MergeAll(maps, i) == IF i > Len(maps) THEN <<>> ELSE
                     IF i = Len(maps) THEN maps[i] ELSE Merge(maps[i], MergeAll(maps, i + 1))
(* right-biased overlay of all maps, left to right *)
RECURSIVE Overlay(_, _, _)
Overlay(maps, i, acc) == IF i > Len(maps) THEN acc ELSE Overlay(maps, i + 1, Merge(acc, maps[i]))
Effective(maps) == Overlay(maps, 1, <<>>)

Delims == {"+", ",", "="}
HasDelim(s) == \E i \in 1..Len(s) : Ch(s, i) \in Delims
MapHasDelim(m) == \E k \in DOMAIN m : HasDelim(k) \/ HasDelim(m[k])
=============================================================================
