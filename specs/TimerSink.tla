----------------------------- MODULE TimerSink -----------------------------
(***************************************************************************)
(* Timer.Record from several goroutines on ONE timer (C10: "each           *)
(* Timer.Record(d) results in exactly one timer delivery carrying d").     *)
(* With a reporter the delivery is the reporter call itself; a             *)
(* reporter-less (test) scope keeps the values in the timer                *)
(* (stats.go timerNoReporterSink.ReportTimer: lock, append, unlock) until  *)
(* a snapshot reads them.  The append is modelled as the two steps it is - *)
(* read the slice header, write element len - under the lock of the sink;  *)
(* WeakSharedLockAppend is the design without mutual exclusion between     *)
(* appenders (a shared lock, or none): TLC must then find a lost value.    *)
(* WeakKeepCap > 0 is the design that stops growing the kept values at     *)
(* that many and recycles the backing array (the oldest kept value is      *)
(* shifted out): a value whose Record returned is then no longer held.     *)
(* Each goroutine t records the durations <<t, 1>>, <<t, 2>>, ...          *)
(***************************************************************************)
EXTENDS Integers, Sequences, FiniteSets
CONSTANTS Threads, NRec, WeakSharedLockAppend, WeakKeepCap
VARIABLES vals, pc, k, hdr, lock, returned
vars == <<vals, pc, k, hdr, lock, returned>>

Init == /\ vals = <<>> /\ pc = [t \in Threads |-> "idle"] /\ k = [t \in Threads |-> 1]
        /\ hdr = [t \in Threads |-> 0] /\ lock = {} /\ returned = {}

Acquire(t) == /\ pc[t] = "idle" /\ k[t] <= NRec
              /\ (WeakSharedLockAppend \/ lock = {})
              /\ lock' = lock \cup {t} /\ pc' = [pc EXCEPT ![t] = "read"]
              /\ UNCHANGED <<vals, k, hdr, returned>>
ReadHeader(t) == /\ pc[t] = "read" /\ hdr' = [hdr EXCEPT ![t] = Len(vals)]
                 /\ pc' = [pc EXCEPT ![t] = "write"] /\ UNCHANGED <<vals, k, lock, returned>>
(* append with the header read before: element hdr+1 is written, the new length is hdr+1 *)
WriteElem(t) == /\ pc[t] = "write"
                /\ vals' = IF WeakKeepCap > 0 /\ hdr[t] >= WeakKeepCap
                           THEN [i \in 1..hdr[t] |-> IF i < hdr[t] THEN vals[i + 1] ELSE <<t, k[t]>>]
                           ELSE [i \in 1..(hdr[t] + 1) |-> IF i <= hdr[t] THEN vals[i] ELSE <<t, k[t]>>]
                /\ pc' = [pc EXCEPT ![t] = "release"] /\ UNCHANGED <<k, hdr, lock, returned>>
Release(t) == /\ pc[t] = "release" /\ lock' = lock \ {t}
              /\ returned' = returned \cup {<<t, k[t]>>} /\ k' = [k EXCEPT ![t] = @ + 1]
              /\ pc' = [pc EXCEPT ![t] = "idle"] /\ UNCHANGED <<vals, hdr>>
Next == \E t \in Threads : Acquire(t) \/ ReadHeader(t) \/ WriteElem(t) \/ Release(t)
Spec == Init /\ [][Next]_vars

Count(d) == Cardinality({i \in 1..Len(vals) : vals[i] = d})
(* every Record that has returned is held exactly once; nothing is held that was not recorded *)
ExactlyOnce == /\ \A d \in returned : Count(d) = 1
               /\ \A i \in 1..Len(vals) : vals[i][2] <= k[vals[i][1]] /\ Count(vals[i]) = 1
=============================================================================
