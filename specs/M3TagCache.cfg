SPECIFICATION Spec
CONSTANTS
  Alphabet = {"a", "="}
  MaxLen = 2
  MaxEntries = 2
  MaxAllocs = 2
  DevTagCacheHashOnly = FALSE
INVARIANTS TagsIntact
CHECK_DEADLOCK FALSE
