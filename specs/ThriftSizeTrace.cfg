SPECIFICATION TraceSpec
CONSTANTS
  Shapes = {}
  MaxWrites = 0
  WeakStackNotPopped = FALSE
  WeakNoResetAtStructBegin = FALSE
CHECK_DEADLOCK FALSE
