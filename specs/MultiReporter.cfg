SPECIFICATION MSpec
CONSTANTS
  MaxChildren = 3
  MaxCalls = 3
  Calls = {"counter", "flush", "alloc", "handle"}
  WeakSkipLastChild = FALSE
  WeakFirstChildTwice = FALSE
  WeakCapabilitiesOr = FALSE
  WeakStopAtIncapableChild = FALSE
INVARIANTS EveryChildGetsEveryCallOnce ChildrenInOrder CapabilityConjunction
CHECK_DEADLOCK FALSE
