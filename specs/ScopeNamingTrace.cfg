SPECIFICATION TraceSpec
CONSTANTS
  DevEmptyKeyDedup = FALSE
  WeakLeftmostWins = FALSE
  WeakNoSort = FALSE
  WeakLeftBiasedMerge = FALSE
  WeakLeadingSeparator = FALSE
  WeakTaggedAppendsPrefix = FALSE
CHECK_DEADLOCK FALSE
