SPECIFICATION ISpec
CONSTANTS
  MaxClk = 5
  MaxSw = 2
  MaxExec = 2
  WeakStopwatchUsesStart = FALSE
  WeakBothCounters = FALSE
  WeakExecTwice = FALSE
INVARIANTS StopwatchElapsed ExecOnce OneLatency ExactlyOneOutcomeCounter ErrorUnchanged
CHECK_DEADLOCK FALSE
