SPECIFICATION Spec
CONSTANTS
  Cap = 2
  Threads = {"a", "b"}
  MaxOps = 7
  WeakPutKeepsHolding = FALSE
  WeakGetPeeks = FALSE
INVARIANTS Exclusive Bounded
CHECK_DEADLOCK FALSE
