SPECIFICATION TraceSpec
CONSTANTS
  K = 4
  MaxSpecLen = 4
  MaxRec = 100000000
  DevSearchUnclamped = FALSE
  WeakStrictGreater = FALSE
  WeakNoSort = FALSE
  WeakLowerFromSelf = FALSE
INVARIANTS TraceTiling NeverAhead
POSTCONDITION Consumed
CHECK_DEADLOCK FALSE
