---------------------------- MODULE RegistryKeys ----------------------------
(***************************************************************************)
(* scope_registry.go with a sanitizer that REWRITES the tags: one shard,    *)
(* one identity, registered under two keys - "U" (prefix + tags as given)  *)
(* and "S" (as sanitized).  TallyCore.tla abstracts the two into one key;  *)
(* this module models what that abstraction hides.  Serves C07 (a scope    *)
(* obtained again after Close is functional; everything recorded is        *)
(* delivered exactly once).                                                *)
(*                                                                         *)
(*   reg      key -> scope object (0 = no entry)                           *)
(*   closed   object -> BOOLEAN          cnt  object -> unreported count   *)
(*   rd, wr   the shard's RW lock: set of readers, writer (or "none")      *)
(* Threads: an application thread running a script of                      *)
(* Tagged / Inc / Close over the identity, and report passes.  Labels are  *)
(* the hook names of the code (ss_* Subscope, rp_* / rm_* pass).           *)
(***************************************************************************)
EXTENDS Integers, Sequences, FiniteSets, TLC

CONSTANTS Apps, Passes, Script, MaxObj,
          DevNoClosedCheckUnderWriteLock,  \* pinned tree: the scope found under "S" after taking the write lock is returned without looking at its closed flag
          DevDeleteByKey,                  \* pinned tree: the pass deletes the entry of the key it visited whatever it points to
          WeakNoReportOnReacquire          \* the closed scope found under "U" is removed without being reported

VARIABLES reg, closed, cnt, rd, wr, nobj, pc, ip, cur, found, it, visiting, wasClosed, delivered, recorded, handedOut
vars == <<reg, closed, cnt, rd, wr, nobj, pc, ip, cur, found, it, visiting, wasClosed, delivered, recorded, handedOut>>

Threads == Apps \cup Passes
Keys == {"U", "S"}
Objs == 1..MaxObj

Init ==
  /\ reg = [k \in Keys |-> 0] /\ closed = [o \in Objs |-> FALSE] /\ cnt = [o \in Objs |-> 0]
  /\ rd = {} /\ wr = "none" /\ nobj = 0
  /\ pc = [t \in Threads |-> IF t \in Apps THEN "op" ELSE "rp_rlock"]
  /\ ip = [t \in Threads |-> 1] /\ cur = [t \in Threads |-> 0] /\ found = [t \in Threads |-> 0]
  /\ it = [t \in Threads |-> <<>>] /\ visiting = [t \in Threads |-> "U"] /\ wasClosed = [t \in Threads |-> FALSE]
  /\ delivered = 0 /\ recorded = 0 /\ handedOut = <<>>

Goto(t, l) == pc' = [pc EXCEPT ![t] = l]
CanRLock == wr = "none"
CanLock(t) == wr = "none" /\ rd \subseteq {t}
Report(o) == /\ delivered' = delivered + cnt[o] /\ cnt' = [cnt EXCEPT ![o] = 0]

(* application thread: next operation of its script *)
Op(t) ==
  /\ pc[t] = "op"
  /\ IF ip[t] > Len(Script) THEN Goto(t, "fin") /\ UNCHANGED <<cnt, recorded, closed, ip>>
     ELSE LET o == Script[ip[t]] IN
          CASE o = "tagged" -> Goto(t, "ss_rlock") /\ UNCHANGED <<cnt, recorded, closed, ip>>
            [] o = "inc" -> /\ IF cur[t] # 0 THEN cnt' = [cnt EXCEPT ![cur[t]] = @ + 1] ELSE UNCHANGED cnt
                            /\ recorded' = IF cur[t] # 0 THEN recorded + 1 ELSE recorded   \* scripts record only right after obtaining the scope
                            /\ ip' = [ip EXCEPT ![t] = @ + 1] /\ UNCHANGED <<pc, closed>>
            [] o = "close" -> /\ closed' = IF cur[t] # 0 THEN [closed EXCEPT ![cur[t]] = TRUE] ELSE closed
                              /\ ip' = [ip EXCEPT ![t] = @ + 1] /\ UNCHANGED <<pc, cnt, recorded>>
  /\ UNCHANGED <<reg, rd, wr, nobj, cur, found, it, visiting, wasClosed, delivered, handedOut>>

(* Subscope *)
SsRLock(t) == /\ pc[t] = "ss_rlock" /\ CanRLock /\ rd' = rd \cup {t}
              /\ found' = [found EXCEPT ![t] = reg["U"]] /\ Goto(t, "ss_found_check")
              /\ UNCHANGED <<reg, closed, cnt, wr, nobj, ip, cur, it, visiting, wasClosed, delivered, recorded, handedOut>>
SsFound(t) ==
  /\ pc[t] = "ss_found_check"
  /\ LET s == found[t] IN
     IF s # 0 /\ ~closed[s]
     THEN /\ rd' = rd \ {t} /\ cur' = [cur EXCEPT ![t] = s] /\ handedOut' = Append(handedOut, [o |-> s, closed |-> closed[s]])
          /\ ip' = [ip EXCEPT ![t] = @ + 1] /\ Goto(t, "op") /\ UNCHANGED <<cnt, delivered>>
     ELSE /\ IF s # 0 /\ ~WeakNoReportOnReacquire THEN Report(s) ELSE UNCHANGED <<cnt, delivered>>
          /\ Goto(t, IF s # 0 THEN "rm1_runlock" ELSE "ss_runlock") /\ UNCHANGED <<rd, cur, handedOut, ip>>
  /\ UNCHANGED <<reg, closed, wr, nobj, found, it, visiting, wasClosed, recorded>>
(* removeWithRLock(key, s): RUnlock; Lock; delete if it is still s; Unlock; RLock - for "U" then for "S" *)
RmRUnlock(t, k) == /\ pc[t] = (IF k = "U" THEN "rm1_runlock" ELSE "rm2_runlock") /\ rd' = rd \ {t}
                   /\ Goto(t, IF k = "U" THEN "rm1_lock" ELSE "rm2_lock")
                   /\ UNCHANGED <<reg, closed, cnt, wr, nobj, ip, cur, found, it, visiting, wasClosed, delivered, recorded, handedOut>>
RmLock(t, k) == /\ pc[t] = (IF k = "U" THEN "rm1_lock" ELSE "rm2_lock") /\ CanLock(t)
                /\ reg' = IF reg[k] = found[t] THEN [reg EXCEPT ![k] = 0] ELSE reg
                /\ Goto(t, IF k = "U" THEN "rm1_relock" ELSE "rm2_relock")
                /\ UNCHANGED <<closed, cnt, rd, wr, nobj, ip, cur, found, it, visiting, wasClosed, delivered, recorded, handedOut>>
RmRelock(t, k) == /\ pc[t] = (IF k = "U" THEN "rm1_relock" ELSE "rm2_relock") /\ CanRLock /\ rd' = rd \cup {t}
                  /\ Goto(t, IF k = "U" THEN "rm2_runlock" ELSE "ss_clear")
                  /\ UNCHANGED <<reg, closed, cnt, wr, nobj, ip, cur, found, it, visiting, wasClosed, delivered, recorded, handedOut>>
SsClear(t) == /\ pc[t] = "ss_clear" /\ cnt' = [cnt EXCEPT ![found[t]] = 0] /\ Goto(t, "ss_runlock")
              /\ UNCHANGED <<reg, closed, rd, wr, nobj, ip, cur, found, it, visiting, wasClosed, delivered, recorded, handedOut>>
SsRUnlock(t) == /\ pc[t] = "ss_runlock" /\ rd' = rd \ {t} /\ Goto(t, "ss_lock")
                /\ UNCHANGED <<reg, closed, cnt, wr, nobj, ip, cur, found, it, visiting, wasClosed, delivered, recorded, handedOut>>
(* under the write lock: look under "S"; alias or replace *)
SsLock(t) ==
  /\ pc[t] = "ss_lock" /\ CanLock(t)
  /\ LET s == reg["S"]
         alive == s # 0 /\ (~closed[s] \/ DevNoClosedCheckUnderWriteLock)
     IN IF alive
        THEN /\ reg' = IF reg["U"] = 0 THEN [reg EXCEPT !["U"] = s] ELSE reg
             /\ cur' = [cur EXCEPT ![t] = s] /\ handedOut' = Append(handedOut, [o |-> s, closed |-> closed[s]])
             /\ UNCHANGED <<cnt, delivered, nobj>>
        ELSE /\ nobj < MaxObj
             /\ IF s # 0 THEN delivered' = delivered + cnt[s] /\ cnt' = [cnt EXCEPT ![s] = 0] ELSE UNCHANGED <<cnt, delivered>>
             /\ nobj' = nobj + 1
             /\ reg' = [k \in Keys |-> IF k = "S" THEN nobj + 1 ELSE IF reg["U"] = 0 THEN nobj + 1 ELSE reg["U"]]
             /\ cur' = [cur EXCEPT ![t] = nobj + 1] /\ handedOut' = Append(handedOut, [o |-> nobj + 1, closed |-> FALSE])
  /\ ip' = [ip EXCEPT ![t] = @ + 1] /\ Goto(t, "op")
  /\ UNCHANGED <<closed, rd, wr, found, it, visiting, wasClosed, recorded>>

(* report pass over the shard: entries in some order *)
RpRLock(t) == /\ pc[t] = "rp_rlock" /\ CanRLock /\ rd' = rd \cup {t}
              /\ \E order \in {<<"U", "S">>, <<"S", "U">>} : it' = [it EXCEPT ![t] = order]
              /\ Goto(t, "rp_visit")
              /\ UNCHANGED <<reg, closed, cnt, wr, nobj, ip, cur, found, visiting, wasClosed, delivered, recorded, handedOut>>
RpVisit(t) ==
  /\ pc[t] = "rp_visit"
  /\ IF it[t] = <<>> THEN /\ rd' = rd \ {t} /\ Goto(t, "fin") /\ UNCHANGED <<found, visiting, wasClosed, it, cnt, delivered>>
     ELSE LET k == Head(it[t]) s == reg[k] IN
          /\ it' = [it EXCEPT ![t] = Tail(@)] /\ visiting' = [visiting EXCEPT ![t] = k] /\ found' = [found EXCEPT ![t] = s]
          /\ IF s = 0 THEN Goto(t, "rp_visit") /\ UNCHANGED <<wasClosed, cnt, delivered, rd>>
             ELSE /\ wasClosed' = [wasClosed EXCEPT ![t] = closed[s]]      \* the flag is read before the scope is reported
                  /\ Report(s)
                  /\ Goto(t, IF closed[s] THEN "rp_rm_runlock" ELSE "rp_visit") /\ UNCHANGED rd
  /\ UNCHANGED <<reg, closed, wr, nobj, ip, cur, recorded, handedOut>>
RpRmRUnlock(t) == /\ pc[t] = "rp_rm_runlock" /\ rd' = rd \ {t} /\ Goto(t, "rp_rm_lock")
                  /\ UNCHANGED <<reg, closed, cnt, wr, nobj, ip, cur, found, it, visiting, wasClosed, delivered, recorded, handedOut>>
RpRmLock(t) == /\ pc[t] = "rp_rm_lock" /\ CanLock(t)
               /\ reg' = IF DevDeleteByKey \/ reg[visiting[t]] = found[t] THEN [reg EXCEPT ![visiting[t]] = 0] ELSE reg
               /\ Goto(t, "rp_rm_relock")
               /\ UNCHANGED <<closed, cnt, rd, wr, nobj, ip, cur, found, it, visiting, wasClosed, delivered, recorded, handedOut>>
RpRmRelock(t) == /\ pc[t] = "rp_rm_relock" /\ CanRLock /\ rd' = rd \cup {t}
                 /\ cnt' = [cnt EXCEPT ![found[t]] = 0]     \* clearMetrics
                 /\ Goto(t, "rp_visit")
                 /\ UNCHANGED <<reg, closed, wr, nobj, ip, cur, found, it, visiting, wasClosed, delivered, recorded, handedOut>>

Step(t) ==
  \/ t \in Apps /\ (Op(t) \/ SsRLock(t) \/ SsFound(t) \/ SsClear(t) \/ SsRUnlock(t) \/ SsLock(t)
                    \/ \E k \in Keys : RmRUnlock(t, k) \/ RmLock(t, k) \/ RmRelock(t, k))
  \/ t \in Passes /\ (RpRLock(t) \/ RpVisit(t) \/ RpRmRUnlock(t) \/ RpRmLock(t) \/ RpRmRelock(t))
Next == \E t \in Threads : Step(t)
Spec == Init /\ [][Next]_vars

AllDone == \A t \in Threads : pc[t] = "fin"
Pending == LET RECURSIVE Sum(_)
               Sum(S) == IF S = {} THEN 0 ELSE LET o == CHOOSE x \in S : TRUE IN cnt[o] + Sum(S \ {o})
           IN Sum({reg[k] : k \in Keys} \ {0})
(* C07 *)
ReacquireFresh == \A i \in 1..Len(handedOut) : ~handedOut[i].closed
NeverAhead == delivered <= recorded
(* everything recorded on a live scope is delivered or still held by a REGISTERED scope (which the next pass delivers) *)
Conservation == (AllDone /\ Cardinality(Apps) = 1) => delivered + Pending = recorded
NoDeadlock == (\A t \in Threads : ~ENABLED Step(t)) => AllDone
=============================================================================
