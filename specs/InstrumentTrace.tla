--------------------------- MODULE InstrumentTrace ---------------------------
(***************************************************************************)
(* Validates call histories recorded from the real stopwatch / instrument  *)
(* code (clock driven by the harness through VerifSetNow) against          *)
(* Instrument.tla.  Events:                                                *)
(*   reset | tick d | start sw | stop sw got | exec outcome d ran lat succ *)
(*   errs same                                                             *)
(***************************************************************************)
EXTENDS Instrument, Json

VARIABLES l
TraceLog == ndJsonDeserialize("trace.ndjson")
tv == <<ivars, l>>
Fail(c) == PrintT(<<"FAIL", l, c>>)

TInit == IInit /\ l = 1

TNext ==
  /\ l <= Len(TraceLog)
  /\ LET r == TraceLog[l] IN
     CASE r.e = "reset" -> /\ clk' = 0 /\ started' = <<>> /\ stoppedAt' = <<>> /\ recorded' = <<>> /\ nsw' = 0 /\ execs' = <<>> /\ nexec' = 0
       [] r.e = "tick"  -> Tick(r.d)
       [] r.e = "start" -> Start
       [] r.e = "stop"  -> /\ Stop(r.sw)
                           /\ IF r.got # recorded'[r.sw] THEN Fail("StopwatchElapsed") ELSE TRUE
       [] r.e = "exec"  -> /\ Exec(r.outcome, r.d)
                           /\ LET m == execs'[Len(execs')] IN
                                IF r.ran # m.ran THEN Fail("ExecOnce")
                                ELSE IF r.lat # m.lat THEN Fail("OneLatency")
                                ELSE IF r.succ # m.succ \/ r.errs # m.errs THEN Fail("ExactlyOneOutcomeCounter")
                                ELSE IF r.same # m.same THEN Fail("ErrorUnchanged")
                                ELSE TRUE
  /\ l' = l + 1

TraceSpec == TInit /\ [][TNext]_tv
=============================================================================
