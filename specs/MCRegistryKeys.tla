--------------------------- MODULE MCRegistryKeys ---------------------------
EXTENDS RegistryKeys
MCScript == <<"tagged", "inc", "close", "tagged", "inc", "inc">>
MCScript2 == <<"tagged", "inc", "close", "tagged", "inc">>
=============================================================================
