SPECIFICATION Spec
CONSTANTS
  K = 3
  MaxSpecLen = 3
  MaxRec = 0
  DevSearchUnclamped = FALSE
  WeakStrictGreater = FALSE
  WeakNoSort = FALSE
  WeakLowerFromSelf = FALSE
  WeakLowerOpenEndIsInfinity = FALSE
  WeakRateUnsetIsZero = FALSE
  WeakTwoCalls = FALSE
INVARIANTS NamesDistinct OpenEndsRendered
CHECK_DEADLOCK FALSE
