------------------------------ MODULE Sanitize ------------------------------
(***************************************************************************)
(* The per-rune loop of ValidCharacters.sanitizeFn (sanitize.go) over      *)
(* sequences of rune classes, relative to one ValidCharacters value and a  *)
(* replacement rune:                                                       *)
(*   "V"  valid one-byte rune          "W"  valid multi-byte rune          *)
(*   "I"  invalid one-byte rune        "J"  invalid multi-byte rune        *)
(*   "R"  the replacement rune itself (valid iff RepValid)                 *)
(*   "F"  a well-formed U+FFFD (valid iff FFFDAllowed)                     *)
(*   "X"  a byte that is not UTF-8 (the range loop yields U+FFFD, width 1) *)
(* with the lazy buffer (nil until the first invalid rune, back-fill of    *)
(* value[:idx]) and, separately, the buffer pool shared by concurrent      *)
(* calls.  Serves C06.                                                     *)
(***************************************************************************)
EXTENDS Integers, Sequences, FiniteSets, TLC

CONSTANTS MaxLen,
          DevFFFDAllowedPassesInvalid, \* pinned tree: an invalid byte is judged as the rune U+FFFD
          WeakExclusiveRangeEnd,       \* weakening: the top of a range is excluded ("E": rune at the top end of a range)
          WeakNoBackfill,              \* weakening: value[:idx] is not copied when the buffer is created
          WeakResultAliasesBuffer      \* weakening (pool model): the result shares the pooled buffer's memory

Classes == {"V", "W", "I", "J", "R", "F", "X", "E"}   \* "E": a valid rune sitting exactly at the upper end of a range
Inputs == UNION {[1..n -> Classes] : n \in 0..MaxLen}
Configs == [repValid : BOOLEAN, fffdAllowed : BOOLEAN]

(* is the rune the range loop yields for class c valid? *)
ValidRune(cfg, c) ==
  CASE c = "V" \/ c = "W" -> TRUE
    [] c = "E" -> ~WeakExclusiveRangeEnd
    [] c = "I" \/ c = "J" -> FALSE
    [] c = "R" -> cfg.repValid
    [] c = "F" -> cfg.fffdAllowed
    [] c = "X" -> DevFFFDAllowedPassesInvalid /\ cfg.fffdAllowed
(* what WriteRune(ch) appends for class c once the buffer exists: an invalid byte was seen as U+FFFD and is written as a real one *)
Written(c) == IF c = "X" THEN "F" ELSE c

(* the loop: state is (buf, out) with buf = FALSE while the buffer is nil; out is only meaningful once buf *)
RECURSIVE Loop(_, _, _, _, _)
Loop(cfg, in, i, buf, out) ==
  IF i > Len(in) THEN [copied |-> buf, out |-> IF buf THEN out ELSE in]
  ELSE IF ValidRune(cfg, in[i])
       THEN Loop(cfg, in, i + 1, buf, IF buf THEN Append(out, Written(in[i])) ELSE out)
       ELSE LET start == IF buf THEN out ELSE IF WeakNoBackfill THEN <<>> ELSE SubSeq(in, 1, i - 1)
            IN Loop(cfg, in, i + 1, TRUE, Append(start, "R"))
Sanitized(cfg, in) == Loop(cfg, in, 1, FALSE, <<>>)

(* property level *)
Allowed(cfg, c) == c \in {"V", "W", "E", "R"} \/ (c = "F" /\ cfg.fffdAllowed)
AllValid(cfg, in) == \A i \in 1..Len(in) : in[i] \in {"V", "W", "E"} \/ (in[i] = "R" /\ cfg.repValid) \/ (in[i] = "F" /\ cfg.fffdAllowed)

VARIABLES cfg, in
vars == <<cfg, in>>
Init == cfg \in Configs /\ in \in Inputs
Next == UNCHANGED vars
Spec == Init /\ [][Next]_vars

Out == Sanitized(cfg, in).out
OnlyAllowedOrReplacement == \A i \in 1..Len(Out) : Allowed(cfg, Out[i])
ValidUnchanged == AllValid(cfg, in) => (Out = in /\ ~Sanitized(cfg, in).copied)
Idempotent == Sanitized(cfg, Out).out = Out
RuneCountPreserved == Len(Out) = Len(in)
InvalidReplaced == \A i \in 1..Len(in) :
                      IF AllValid(cfg, <<in[i]>>) THEN Out[i] = in[i] ELSE Out[i] = "R"
=============================================================================
