SPECIFICATION TraceSpec
CHECK_DEADLOCK FALSE
