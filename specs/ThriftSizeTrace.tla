--------------------------- MODULE ThriftSizeTrace ---------------------------
(***************************************************************************)
(* Compares what the real encoders / the size-calculating transport / the  *)
(* decoders did for concrete structures of logged SHAPE with ThriftSize.   *)
(*  metric {compact, shape, enc, calc, rt, after_abandon, err}             *)
(*  batch  {compact, shape:{metrics, common}, seqlen, enc, calc, msg, rt}  *)
(*  alloc  {compact, shape, charged}   the reporter's own measurement       *)
(***************************************************************************)
EXTENDS ThriftSize, Json
VARIABLES l
TraceLog == ndJsonDeserialize("trace.ndjson")
Fail(c) == PrintT(<<"FAIL", l, c>>)
TagsOf(t) == [set |-> t.set, list |-> [i \in 1..Len(t.list) |-> <<t.list[i][1], t.list[i][2]>>]]
MetricOf(s) == [name |-> s.name, type |-> s.type, count |-> s.count, timer |-> s.timer, ts |-> s.ts, tags |-> TagsOf(s.tags)]
BatchOf(s) == [metrics |-> [i \in 1..Len(s.metrics) |-> MetricOf(s.metrics[i])], common |-> TagsOf(s.common)]
TInit == l = 1 /\ WInit
TNext ==
  /\ l <= Len(TraceLog)
  /\ LET r == TraceLog[l] IN
     CASE r.e = "metric" ->
            LET m == MetricOf(r.shape) IN
            IF r.err THEN Fail("EncoderError")
            ELSE IF r.enc # MetricSize(r.compact, m) THEN Fail(IF r.after_abandon THEN "HistoryIndependent" ELSE "EncoderSize")
            ELSE IF r.calc # r.enc THEN Fail("CalcEqualsEncoder")
            ELSE IF ~r.rt THEN Fail("RoundTrip")
            ELSE IF MetricSize(r.compact, Maximal(m)) < r.enc THEN Fail("MaxIsUpperBound")
            ELSE TRUE
       [] r.e = "batch" ->
            LET b == BatchOf(r.shape) IN
            IF r.err THEN Fail("EncoderError")
            ELSE IF r.enc # BatchSize(r.compact, b) THEN Fail("EncoderSize")
            ELSE IF r.calc # r.enc THEN Fail("CalcEqualsEncoder")
            ELSE IF r.msg # MessageSize(r.compact, b, r.seqlen) THEN Fail("EncoderSize:message")
            ELSE IF ~r.rt THEN Fail("RoundTrip")
            ELSE TRUE
       [] r.e = "alloc" ->
            (* the size the real reporter charges for a metric = the size of its shape with every variable-length
               integer at its longest: an upper bound for whatever values are reported later *)
            LET m == KindMaximal(MetricOf(r.shape), r.kind) IN
            IF r.charged < 0 THEN Fail("Harness:charged-sizes-not-observed")
            ELSE IF r.charged < MetricSize(r.compact, m) THEN Fail("MaxIsUpperBound:reporter-placeholder")
            ELSE IF r.charged > MetricSize(r.compact, m) THEN Fail("Drift:charged-size-above-maximal-shape")
            ELSE TRUE
       [] OTHER -> TRUE
  /\ l' = l + 1 /\ UNCHANGED wvars
TraceSpec == TInit /\ [][TNext]_<<wvars, l>>
=============================================================================
