----------------------------- MODULE ThriftSize -----------------------------
(***************************************************************************)
(* Wire size of the M3 thrift structures (m3/thrift/v2/ttypes.go written   *)
(* through thirdparty/.../compact_protocol.go and binary_protocol.go) as a *)
(* function of their SHAPE: string lengths, list lengths, optional fields  *)
(* present, and the length class of every variable-length integer.         *)
(* Serves C16 (calculator = encoder = this function; the size measured     *)
(* with maximal values is an upper bound) and the size legs of C12.        *)
(*                                                                         *)
(* A shape:                                                                *)
(*   tag     <<klen, vlen>>                                                *)
(*   metric  [name, type, count, timer, ts : zig-zag varint length class   *)
(*            1..10 (type: 1..5), tags : [set : BOOLEAN, list : Seq(tag)]] *)
(*   batch   [metrics : Seq(metric), common : [set, list]]                 *)
(*                                                                         *)
(* Part 2 is an operational model of the compact writer's only state that  *)
(* outlives a call - the field-id stack and lastFieldId - writing          *)
(* structures one after the other through ONE protocol object, possibly    *)
(* abandoning a write half-way (what a transport error causes, C15).       *)
(***************************************************************************)
EXTENDS Integers, Sequences, FiniteSets, TLC

(***************************************************************************)
(* Part 1: sizes                                                           *)
(***************************************************************************)
VarLen(n) == IF n < 128 THEN 1 ELSE IF n < 16384 THEN 2 ELSE IF n < 2097152 THEN 3 ELSE IF n < 268435456 THEN 4 ELSE 5

RECURSIVE SumSeq(_)
SumSeq(s) == IF s = <<>> THEN 0 ELSE Head(s) + SumSeq(Tail(s))
Map(f(_), s) == [i \in 1..Len(s) |-> f(s[i])]

(* compact *)
CStr(len) == VarLen(len) + len
CFieldShort == 1                                     \* every field of the M3 structs follows its predecessor by 1..4
CList(n) == IF n <= 14 THEN 1 ELSE 1 + VarLen(n)
CTag(t) == CFieldShort + CStr(t[1]) + CFieldShort + CStr(t[2]) + 1
CTags(ts) == IF ~ts.set THEN 0 ELSE CFieldShort + CList(Len(ts.list)) + SumSeq(Map(CTag, ts.list))
CValue(m) == CFieldShort + m.type + CFieldShort + m.count + CFieldShort + 8 + CFieldShort + m.timer + 1
CMetric(m) == CFieldShort + CStr(m.name) + CFieldShort + CValue(m) + CFieldShort + m.ts + CTags(m.tags) + 1
CBatch(b) == CFieldShort + CList(Len(b.metrics)) + SumSeq(Map(CMetric, b.metrics)) + CTags(b.common) + 1
CMessage(b, seqLen) == 1 + 1 + seqLen + CStr(17) + (CFieldShort + CBatch(b) + 1)

(* binary (strict write) *)
BStr(len) == 4 + len
BTag(t) == 3 + BStr(t[1]) + 3 + BStr(t[2]) + 1
BTags(ts) == IF ~ts.set THEN 0 ELSE 3 + 5 + SumSeq(Map(BTag, ts.list))
BValue(m) == 3 + 4 + 3 + 8 + 3 + 8 + 3 + 8 + 1
BMetric(m) == 3 + BStr(m.name) + 3 + BValue(m) + 3 + 8 + BTags(m.tags) + 1
BBatch(b) == 3 + 5 + SumSeq(Map(BMetric, b.metrics)) + BTags(b.common) + 1
BMessage(b, seqLen) == 4 + BStr(17) + 4 + (3 + BBatch(b) + 1)

MetricSize(compact, m) == IF compact THEN CMetric(m) ELSE BMetric(m)
BatchSize(compact, b) == IF compact THEN CBatch(b) ELSE BBatch(b)
MessageSize(compact, b, seqLen) == IF compact THEN CMessage(b, seqLen) ELSE BMessage(b, seqLen)

(* the placeholder metric Allocate* measures: every variable-length integer at its longest *)
Maximal(m) == [m EXCEPT !.count = 10, !.timer = 10, !.ts = 10]
(* ... of a given kind: a counter only ever carries a count (its timer stays 0: one byte), a timer only a timer, a
   gauge neither; the type is the kind's enum value (one byte); the timestamp is always variable *)
KindMaximal(m, kind) == [m EXCEPT !.type = 1, !.count = IF kind = "counter" THEN 10 ELSE 1, !.timer = IF kind = "timer" THEN 10 ELSE 1, !.ts = 10]

(***************************************************************************)
(* Part 2: the compact writer as a state machine                           *)
(***************************************************************************)
CONSTANTS Shapes, MaxWrites,
          WeakStackNotPopped,      \* WriteStructEnd does not restore lastFieldId
          WeakNoResetAtStructBegin \* WriteStructBegin does not reset lastFieldId
VARIABLES stack, last, prog, ip, bytes, results, cur, nwrites
wvars == <<stack, last, prog, ip, bytes, results, cur, nwrites>>

(* the op sequence Metric.Write performs for shape m: <<"sb">> struct begin, <<"f", id, payload>> a field header
   followed by payload bytes, <<"raw", n>>, <<"stop">>, <<"se">> struct end *)
TagOps(t) == << <<"sb">>, <<"f", 1, CStr(t[1])>>, <<"f", 2, CStr(t[2])>>, <<"stop">>, <<"se">> >>
RECURSIVE Cat(_)
Cat(ss) == IF ss = <<>> THEN <<>> ELSE Head(ss) \o Cat(Tail(ss))
MetricOps(m) ==
  << <<"sb">>, <<"f", 1, CStr(m.name)>>, <<"f", 2, 0>>,
     <<"sb">>, <<"f", 1, m.type>>, <<"f", 2, m.count>>, <<"f", 3, 8>>, <<"f", 4, m.timer>>, <<"stop">>, <<"se">>,
     <<"f", 3, m.ts>> >>
  \o (IF ~m.tags.set THEN <<>> ELSE << <<"f", 4, CList(Len(m.tags.list))>> >> \o Cat(Map(TagOps, m.tags.list)))
  \o << <<"stop">>, <<"se">> >>

WInit == stack = <<>> /\ last = 0 /\ prog = <<>> /\ ip = 0 /\ bytes = 0 /\ results = <<>> /\ cur = <<>> /\ nwrites = 0

Begin(m) == /\ prog = <<>> /\ nwrites < MaxWrites /\ prog' = MetricOps(m) /\ ip' = 1 /\ bytes' = 0 /\ cur' = m /\ nwrites' = nwrites + 1
            /\ UNCHANGED <<stack, last, results>>
Step ==
  /\ prog # <<>> /\ ip <= Len(prog)
  /\ LET op == prog[ip] IN
     CASE op[1] = "sb" -> /\ stack' = Append(stack, last) /\ last' = (IF WeakNoResetAtStructBegin THEN last ELSE 0) /\ bytes' = bytes
       [] op[1] = "se" -> /\ stack' = SubSeq(stack, 1, Len(stack) - 1) /\ last' = (IF WeakStackNotPopped THEN last ELSE stack[Len(stack)]) /\ bytes' = bytes
       [] op[1] = "f" -> /\ bytes' = bytes + (IF op[2] > last /\ op[2] - last <= 15 THEN 1 ELSE 2) + op[3]   \* long form: type byte + zig-zag i16 of a small id
                         /\ last' = op[2] /\ stack' = stack
       [] op[1] = "stop" -> bytes' = bytes + 1 /\ UNCHANGED <<stack, last>>
  /\ ip' = ip + 1 /\ UNCHANGED <<prog, results, cur, nwrites>>
Finish == /\ prog # <<>> /\ ip > Len(prog)
          /\ results' = Append(results, <<cur, bytes>>) /\ prog' = <<>> /\ ip' = 0 /\ cur' = <<>>
          /\ UNCHANGED <<stack, last, bytes, nwrites>>
(* the transport refused a byte: the generated writer returns at once, the protocol object stays as it is *)
Abandon == /\ prog # <<>> /\ ip <= Len(prog) /\ prog' = <<>> /\ ip' = 0 /\ cur' = <<>>
           /\ UNCHANGED <<stack, last, bytes, results, nwrites>>
WNext == (\E m \in Shapes : Begin(m)) \/ Step \/ Finish \/ Abandon
WSpec == WInit /\ [][WNext]_wvars

(* the size of a structure does not depend on what was written - or abandoned - before it *)
HistoryIndependent == \A i \in 1..Len(results) : results[i][2] = CMetric(results[i][1])
(* the size measured with maximal values bounds the size with any values, for both protocols *)
MaxIsUpperBound == \A m \in Shapes : CMetric(Maximal(m)) >= CMetric(m) /\ BMetric(Maximal(m)) >= BMetric(m)
=============================================================================
