---------------------- MODULE CardinalityMetricsTrace ----------------------
(* new {sanitize, shards} | scope {aliased} | metric {s, kind} | pass {got:{counters, gauges, histograms, scopes}} *)
EXTENDS CardinalityMetrics, Json, Sequences
VARIABLES l
TraceLog == ndJsonDeserialize("trace.ndjson")
Fail(c) == PrintT(<<"FAIL", l, c>>)
TInit == l = 1 /\ Init
TNext ==
  /\ l <= Len(TraceLog)
  /\ LET r == TraceLog[l] IN
     CASE r.e = "new" -> scopes' = {0} /\ nkeys' = (0 :> 1) /\ cnt' = (0 :> Zero) /\ nops' = 0 /\ last' = <<>>
       [] r.e = "scope" -> LET s == Cardinality(scopes) IN
                           scopes' = scopes \cup {s} /\ nkeys' = (s :> (IF r.aliased THEN 2 ELSE 1)) @@ nkeys /\ cnt' = (s :> Zero) @@ cnt /\ UNCHANGED <<nops, last>>
       [] r.e = "metric" -> NewMetric(r.s, r.kind)
       [] r.e = "pass" -> /\ Pass
                          /\ IF r.got.counters # Gauges.counters \/ r.got.gauges # Gauges.gauges \/ r.got.histograms # Gauges.histograms THEN Fail("Drift:metric-cardinality")
                             ELSE IF r.got.scopes # Gauges.scopes THEN Fail("Drift:scope-cardinality") ELSE TRUE
       [] OTHER -> UNCHANGED vars
  /\ l' = l + 1
TraceSpec == TInit /\ [][TNext]_<<vars, l>>
=============================================================================
