--------------------------- MODULE TallyObsTrace ---------------------------
(***************************************************************************)
(* Feeds observable traces recorded from the real tally code (controlled   *)
(* scheduler or free-running) through the actions of TallyObs; TLC then    *)
(* evaluates the property invariants of TallyObs after every event.        *)
(* Traces of many executions are concatenated; a "scn" event starts a new  *)
(* execution.  When an invariant of the current execution is broken the    *)
(* trace spec prints one FAIL line naming it and stays quiet until the     *)
(* next "scn" event, so every execution is judged independently.           *)
(***************************************************************************)
EXTENDS TallyObs, Json

VARIABLES l, failed

TraceLog == ndJsonDeserialize("trace.ndjson")
tvars == <<ovars, l, failed>>

CheckNames == <<"NeverAhead", "NoNegativeDelta", "Conservation", "IdleCycleSilent", "GaugeAuthentic", "GaugeFresh",
                "GaugeCountBound", "ReacquireFresh", "CloseBarrier", "QuietAfterClose", "ReporterClosedOnce",
                "ReporterClosedAfterFlush", "TimersSynchronousOnce", "NoCrash", "LoopEnded", "CloseErrorPropagated",
                "InertAfterClose", "SameObject", "AllocateOnce", "KeepsOwnBounds", "ClosedParentInert">>
CheckName(i) == CheckNames[i]
Holds(i) == CASE i = 1 -> NeverAhead [] i = 2 -> NoNegativeDelta [] i = 3 -> Conservation [] i = 4 -> IdleCycleSilent
              [] i = 5 -> GaugeAuthentic [] i = 6 -> GaugeFresh [] i = 7 -> GaugeCountBound [] i = 8 -> ReacquireFresh
              [] i = 9 -> CloseBarrier [] i = 10 -> QuietAfterClose [] i = 11 -> ReporterClosedOnce
              [] i = 12 -> ReporterClosedAfterFlush [] i = 13 -> TimersSynchronousOnce [] i = 14 -> NoCrash
              [] i = 15 -> LoopEnded [] i = 16 -> CloseErrorPropagated [] i = 17 -> InertAfterClose
              [] i = 18 -> SameObject [] i = 19 -> AllocateOnce [] i = 20 -> KeepsOwnBounds [] i = 21 -> ClosedParentInert
(* the invariants an event can break (each is a function of ghost state that only these events change) *)
Relevant(r) ==
  CASE r.e = "dlv" /\ r.k = "counter" -> {1, 2, 4, 10}
    [] r.e = "dlv" /\ r.k = "gauge"   -> {5, 7, 10}
    [] r.e = "dlv" /\ r.k = "timer"   -> {10, 13}
    [] r.e = "quiesce"  -> {3}
    [] r.e = "passe"    -> {6}
    [] r.e = "subret"   -> {8, 17, 21}
    [] r.e = "rootcloseret" -> {9, 15, 16}
    [] r.e = "flush"    -> {10}
    [] r.e = "rclose"   -> {10, 11, 12}
    [] r.e = "timerret" -> {13}
    [] r.e = "panic" \/ r.e = "deadlock" -> {14}
    [] r.e = "got"      -> {18}
    [] r.e = "alloc"    -> {19}
    [] r.e = "histbounds" -> {20}
    [] OTHER -> {}

TInit == ObsInit(0) /\ l = 1 /\ failed = {}

Apply(r) ==
  CASE r.e = "inc"    -> ObsInc(r.id, r.o, r.v, r.inert)
    [] r.e = "dlv" /\ r.k = "counter" -> ObsDeliverCounter(r.id, r.v, r.own)
    [] r.e = "dlv" /\ r.k = "gauge"   -> ObsDeliverGauge(r.id, r.v, r.own)
    [] r.e = "dlv" /\ r.k = "timer"   -> ObsDeliverTimer(r.t, r.id, r.v, r.wrongpath)
    [] r.e = "updcall" -> ObsUpdateCall(r.id, r.v, r.inert, r.o)
    [] r.e = "updret"  -> ObsUpdateReturn(r.id, r.inert, r.o)
    [] r.e = "passb"   -> ObsPassBegin(r.p)
    [] r.e = "passe"   -> ObsPassEnd(r.p)
    [] r.e = "quiesce" -> ObsQuiesce
    [] r.e = "flush"   -> ObsFlush(r.own)
    [] r.e = "rclose"  -> ObsReporterClose
    [] r.e = "closecall" -> ObsCloseCall(r.o)
    [] r.e = "closeret" -> ObsCloseReturn(r.o)
    [] r.e = "subcall" -> ObsSubCall(r.t, r.po)
    [] r.e = "subret"  -> ObsSubReturn(r.t, r.o, r.inert)
    [] r.e = "got"     -> ObsGot(r.k, r.id, r.so, r.obj)
    [] r.e = "alloc"   -> ObsAlloc(r.k, r.id, r.o)
    [] r.e = "histbounds" -> ObsHistBounds(r.wkind, r.wsorted, r.ukind, r.usorted)
    [] r.e = "panic" \/ r.e = "deadlock" -> ObsCrash(r.e)
    [] r.e = "rootclosecall" -> ObsRootCloseCall(r.t)
    [] r.e = "rootcloseret"  -> ObsRootCloseReturn(r.t, r.err, r.experr, r.loopended)
    [] r.e = "timercall" -> ObsTimerCall(r.t, r.id, r.v, r.inert)
    [] r.e = "timerret"  -> ObsTimerReturn(r.t)
    [] OTHER -> UNCHANGED ovars        \* informational events (steps, notes)

TNext ==
  /\ l <= Len(TraceLog)
  /\ LET r == TraceLog[l]
         carried == IF r.e = "scn" THEN {} ELSE failed
     IN /\ IF r.e = "scn" THEN ObsReset(r.mod) ELSE Apply(r)
        /\ l' = l + 1
        \* judged after every event: every broken invariant is reported, each once per execution (a second property's
        \* clause is not hidden behind the first one that broke)
        /\ LET b == {i \in Relevant(r) : ~(Holds(i)')} IN
             /\ failed' = carried \cup b
             /\ \A i \in b \ carried : PrintT(<<"FAIL", l, CheckName(i)>>)

TraceSpec == TInit /\ [][TNext]_tvars
=============================================================================
