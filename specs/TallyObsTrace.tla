--------------------------- MODULE TallyObsTrace ---------------------------
(***************************************************************************)
(* Feeds observable traces recorded from the real tally code (controlled   *)
(* scheduler or free-running) through the actions of TallyObs; TLC then    *)
(* evaluates the property invariants of TallyObs after every event.        *)
(* Traces of many executions are concatenated; a "scn" event starts a new  *)
(* execution.  When an invariant of the current execution is broken the    *)
(* trace spec prints one FAIL line naming it and stays quiet until the     *)
(* next "scn" event, so every execution is judged independently.           *)
(***************************************************************************)
EXTENDS TallyObs, Json

VARIABLES l, failed

TraceLog == ndJsonDeserialize("trace.ndjson")
tvars == <<ovars, l, failed>>

Checks == << <<"NeverAhead", NeverAhead>>, <<"NoNegativeDelta", NoNegativeDelta>>, <<"Conservation", Conservation>>,
             <<"IdleCycleSilent", IdleCycleSilent>>, <<"GaugeAuthentic", GaugeAuthentic>>, <<"GaugeFresh", GaugeFresh>>,
             <<"GaugeCountBound", GaugeCountBound>>, <<"ReacquireFresh", ReacquireFresh>>, <<"CloseBarrier", CloseBarrier>>,
             <<"QuietAfterClose", QuietAfterClose>>, <<"ReporterClosedOnce", ReporterClosedOnce>>,
             <<"ReporterClosedAfterFlush", ReporterClosedAfterFlush>>, <<"TimersSynchronousOnce", TimersSynchronousOnce>> >>

Broken == {i \in 1..Len(Checks) : ~Checks[i][2]}

TInit == ObsInit(0) /\ l = 1 /\ failed = FALSE

Apply(r) ==
  CASE r.e = "inc"    -> ObsInc(r.id, r.o, r.v, r.inert)
    [] r.e = "dlv" /\ r.k = "counter" -> ObsDeliverCounter(r.id, r.v)
    [] r.e = "dlv" /\ r.k = "gauge"   -> ObsDeliverGauge(r.id, r.v)
    [] r.e = "dlv" /\ r.k = "timer"   -> ObsDeliverTimer(r.t, r.id, r.v)
    [] r.e = "updcall" -> ObsUpdateCall(r.id, r.v)
    [] r.e = "updret"  -> ObsUpdateReturn(r.id)
    [] r.e = "passb"   -> ObsPassBegin(r.p)
    [] r.e = "passe"   -> ObsPassEnd(r.p)
    [] r.e = "quiesce" -> ObsQuiesce
    [] r.e = "flush"   -> ObsFlush
    [] r.e = "rclose"  -> ObsReporterClose
    [] r.e = "closecall" -> ObsCloseCall(r.o)
    [] r.e = "subcall" -> ObsSubCall(r.t)
    [] r.e = "subret"  -> ObsSubReturn(r.t, r.o)
    [] r.e = "rootclosecall" -> ObsRootCloseCall(r.t)
    [] r.e = "rootcloseret"  -> ObsRootCloseReturn(r.t)
    [] r.e = "timercall" -> ObsTimerCall(r.t, r.id, r.v)
    [] r.e = "timerret"  -> ObsTimerReturn(r.t)
    [] OTHER -> UNCHANGED ovars        \* informational events (steps, notes)

TNext ==
  /\ l <= Len(TraceLog)
  /\ LET r == TraceLog[l]
         carried == IF r.e = "scn" THEN FALSE ELSE failed
     IN /\ IF r.e = "scn" THEN ObsReset(r.mod) ELSE Apply(r)
        /\ l' = l + 1
        \* judged after every event: the first broken invariant of an execution is reported once
        /\ LET b == Broken' IN
             /\ failed' = (carried \/ b # {})
             /\ IF ~carried /\ b # {} THEN PrintT(<<"FAIL", l, Checks[CHOOSE i \in b : TRUE][1]>>) ELSE TRUE

TraceSpec == TInit /\ [][TNext]_tvars
=============================================================================
