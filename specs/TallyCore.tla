------------------------------ MODULE TallyCore ------------------------------
(***************************************************************************)
(* Implementation-shaped model of a tally root scope: counters (curr/prev  *)
(* with the delta claimed by load-prev / load-curr / CAS), a gauge (value  *)
(* and dirty flag as two separate atomic stores, swap-then-load in the     *)
(* report), scope objects with a closed flag and a metrics lock, one       *)
(* registry shard (key -> scope object, RW lock with the RUnlock/Lock/     *)
(* RLock hand-over of removeWithRLock), the report pass, Subscope with     *)
(* report-on-reacquire, the ticker loop, root Close (mutex, CAS, close     *)
(* done, wait for the loop, final pass, purge, reporter Close).            *)
(*                                                                         *)
(* Labels are the names of the verif hook points in the Go code where one  *)
(* exists (cv_load_prev, cv_load_curr, cv_cas, gu_store_val, gu_store_flag,*)
(* gr_swap, gr_load, rp_rlock, rp_visit, rm_runlock, rm_lock, rm_relock,   *)
(* ss_closed_check, ss_rlock, ss_found_check, ss_lock, cl_mu, cl_cas,      *)
(* cl_done, cl_wait, cl_report, pg_lock, rl_select, rl_tick, rl_exit,      *)
(* rr_begin, rr_end, gc_probe, gc_lock, cm_c).                             *)
(*                                                                         *)
(* Dev* constants switch on the behaviour of the pinned tree before the    *)
(* "fix:" commits (known deviations); Weak* constants drop a design        *)
(* decision the code gets right.  With all of them FALSE the module is the *)
(* current tree.  Ghost variables mirror TallyObs; the invariants carry    *)
(* the same names.                                                         *)
(***************************************************************************)
EXTENDS Integers, Sequences, FiniteSets, TLC

CONSTANTS Apps,            \* application threads
          Script,          \* Apps -> sequence of ops: "sub" "inc" "close" "rinc" "upd1" "upd2"
          Closers,         \* threads calling root Close
          Passers,         \* threads running one explicit report pass each (harness passes)
          HasLoop,         \* the root has a report loop goroutine (interval > 0)
          MaxTicks,        \* ticks the report loop may take
          NObj,            \* scope objects available for the subscope identity
          DevNonAtomicDelta, DevDeleteByKey, DevClosedAfterReport,
          DevCloseNoWait, DevPurgeAnyPass, DevNoCloseMutex,
          WeakFlagBeforeValue, WeakLoadBeforeSwap, WeakNoRecheckUnderLock, WeakNoFinalPass

ROOT == 0
NONE == -1
Objs == 0..NObj
TICK == "ticker"
FINAL == "final"
NOBODY == "none"

(* --algorithm core {
variables
  regS = NONE, regR = TRUE,          \* registry shard: subscope key -> object, root key present
  nobj = 0,
  closed = [x \in Objs |-> FALSE],
  doneCh = FALSE,
  hasCtr = [x \in Objs |-> FALSE],   \* the scope's counter map has the counter
  ctrGen = [x \in Objs |-> 0],       \* which counter object (a cleared map gets a fresh counter)
  curr = [x \in Objs |-> [y \in 0..2 |-> 0]],
  prev = [x \in Objs |-> [y \in 0..2 |-> 0]],
  gval = 0, gflag = 0,               \* the root's gauge
  bR = {}, bW = NOBODY,              \* shard RW lock
  cR = [x \in Objs |-> {}], cW = [x \in Objs |-> NOBODY],   \* per scope metrics lock
  closeMu = NOBODY,
  \* ghost (TallyObs)
  delivered = 0, promised = 0, allIncs = 0, negDelta = FALSE,
  updc = <<>>, upd = 0, gdl = <<>>, inflight = {}, stale = FALSE,
  objClosed = {}, reacqClosed = FALSE,
  closeCalled = FALSE, closeReturned = FALSE, lateCall = FALSE, unflushed = FALSE,
  rclosed = 0, barrierOk = TRUE, closeBeforeFlush = FALSE, loopEndedOk = TRUE,
  hnd = [x \in Apps |-> NONE],
  ticks = 0, quiesced = FALSE;

define {
  BFreeR == bW = NOBODY
  BFreeW == bW = NOBODY /\ bR = {}
  CFreeR(o) == cW[o] = NOBODY
  CFreeW(o) == cW[o] = NOBODY /\ cR[o] = {}
  LastOf(s) == s[Len(s)]
}

\* scope.report / cachedReport for object o: the counter, then (root only) the gauge
procedure report(o)
  variables lc = 0, lp = 0, g = 0, lv = 0, wasSet = FALSE;
{
 sr_c:     await CFreeR(o); cR[o] := cR[o] \cup {self};
           if (~hasCtr[o]) { goto sr_c_unlock; } else { g := ctrGen[o]; };
 cv_load_prev: if (DevNonAtomicDelta) { lc := curr[o][g]; } else { lp := prev[o][g]; };
 cv_load_curr: if (DevNonAtomicDelta) { lp := prev[o][g]; } else { lc := curr[o][g]; };
           if (lp = lc) { goto sr_c_unlock; };
 cv_cas:   if (DevNonAtomicDelta) { prev[o][g] := lc; }
           else { if (prev[o][g] = lp) { prev[o][g] := lc; } else { goto cv_load_prev; } };
 rp_counter: delivered := delivered + (lc - lp); negDelta := negDelta \/ (lc - lp <= 0);
           lateCall := lateCall \/ closeReturned; unflushed := TRUE;
 sr_c_unlock: cR[o] := cR[o] \ {self};
 gr_swap:  if (o # ROOT) { goto sr_ret; }
           else if (WeakLoadBeforeSwap) { lv := gval; }
           else { wasSet := (gflag = 1); gflag := 0; };
 gr_load:  if (WeakLoadBeforeSwap) { wasSet := (gflag = 1); gflag := 0; }
           else if (wasSet) { lv := gval; };
 gr_chk:   if (~wasSet) { goto sr_ret; };
 rp_gauge: gdl := Append(gdl, lv); lateCall := lateCall \/ closeReturned; unflushed := TRUE;
 sr_ret:   return;
}

procedure removeWithRLock(ro)
{
 rm_runlock: bR := bR \ {self};
 rm_lock:  await BFreeW; bW := self;
 rm_del:   if (ro = ROOT) { regR := FALSE; }
           else if (DevDeleteByKey \/ regS = ro) { regS := NONE; };
           bW := NOBODY;
 rm_relock: await BFreeR; bR := bR \cup {self};
           return;
}

procedure clearMetrics(co)
{
 cm_c:     await CFreeW(co); hasCtr[co] := FALSE;
           return;
}

\* scopeRegistry.Report + reporter.Flush (reportRegistry)
procedure pass()
  variables cur = NONE, visR = FALSE, visS = FALSE, wasClosed = FALSE, due = -1;
{
 rr_begin: inflight := inflight \cup {self};
           due := IF upd = Len(updc) THEN Len(updc) ELSE -1;
 rp_rlock: await BFreeR; bR := bR \cup {self};
 rp_visit: either { await regR /\ ~visR; cur := ROOT; visR := TRUE; }
           or     { await regS # NONE /\ ~visS; cur := regS; visS := TRUE; }
           or     { await (~regR \/ visR) /\ (regS = NONE \/ visS); goto rp_runlock; };
 rp_closed: wasClosed := closed[cur];
 rp_report: call report(cur);
 rp_chk:   if ((DevClosedAfterReport /\ closed[cur]) \/ (~DevClosedAfterReport /\ wasClosed)) {
             call removeWithRLock(cur);
 rp_clr:     call clearMetrics(cur);
           };
 rp_next:  goto rp_visit;
 rp_runlock: bR := bR \ {self};
 rp_flush: unflushed := FALSE; lateCall := lateCall \/ closeReturned;
 rp_purge: if (DevPurgeAnyPass /\ closed[ROOT]) { call purge(); };
 rr_end:   stale := stale \/ (inflight = {self} /\ due = Len(updc) /\ Len(updc) > 0
                              /\ (gdl = <<>> \/ LastOf(gdl) # LastOf(updc)));
           inflight := inflight \ {self};
           return;
}

procedure purge()
{
 pg_lock:  await BFreeW /\ \A x \in Objs : CFreeW(x);
           closed := [x \in Objs |-> IF x = ROOT \/ x = regS THEN TRUE ELSE closed[x]];
           hasCtr := [x \in Objs |-> IF x = ROOT \/ x = regS THEN FALSE ELSE hasCtr[x]];
           regR := FALSE; regS := NONE;
           return;
}

\* scopeRegistry.Subscope for the one subscope identity
procedure subscope()
  variables fs = NONE, closedAtCall = {};
{
 ss_closed_check: closedAtCall := objClosed;
           if (closed[ROOT]) { hnd[self] := NONE; goto ss_ret; };
 ss_rlock: await BFreeR; bR := bR \cup {self};
           fs := regS;
 ss_found_check: if (fs # NONE /\ ~closed[fs]) { bR := bR \ {self}; hnd[self] := fs; goto ss_ret; };
 ss_rep:   if (fs # NONE) {
             call report(fs);
 ss_rm:      call removeWithRLock(fs);       \* under the key as given ...
 ss_rm2:     call removeWithRLock(fs);       \* ... and under the sanitized key (the same one here: nothing left to delete)
 ss_clr:     call clearMetrics(fs);
           };
 ss_runlock: bR := bR \ {self};
 ss_lock:  await BFreeW; bW := self;
 ss_ins:   if (regS # NONE /\ ~WeakNoRecheckUnderLock) { hnd[self] := regS; }
           else { nobj := nobj + 1; regS := nobj; hnd[self] := nobj; };
           bW := NOBODY;
 ss_ret:   reacqClosed := reacqClosed \/ (hnd[self] # NONE /\ hnd[self] \in closedAtCall);
           return;
}

\* Scope.Counter(name).Inc(1) on object h
procedure inc(h)
{
 gc_probe: await CFreeR(h);
           if (hasCtr[h]) { goto c_inc; };
 gc_lock:  await CFreeW(h);
           if (~hasCtr[h]) { hasCtr[h] := TRUE; ctrGen[h] := ctrGen[h] + 1; };
 c_inc:    curr[h][ctrGen[h]] := curr[h][ctrGen[h]] + 1; allIncs := allIncs + 1;
           if (h \notin objClosed /\ ~closeCalled) { promised := promised + 1; };
           quiesced := FALSE;
           return;
}

\* Close of sub-scope object h (the steps of scope.Close that a non-root scope takes: the per-scope close mutex is
\* uncontended in the model's universe - one closer per object at a time)
procedure closesub(ch)
{
 sc_mu:    skip;
 sc_cas:   objClosed := objClosed \cup {ch}; closed[ch] := TRUE;
 sc_done:  skip;
           return;
}

\* Gauge.Update(v) on the root's gauge
procedure update(v)
{
 gu_store_val:  if (WeakFlagBeforeValue) { gflag := 1; } else { gval := v; };
                updc := Append(updc, v);
 gu_store_flag: if (WeakFlagBeforeValue) { gval := v; } else { gflag := 1; };
                upd := upd + 1;
                return;
}

fair process (app \in Apps)
  variables ip = 1;
{
 a_loop: while (ip <= Len(Script[self])) {
           if (Script[self][ip] = "sub") { call subscope(); }
           else if (Script[self][ip] = "inc") { if (hnd[self] # NONE) { call inc(hnd[self]); }; }
           else if (Script[self][ip] = "rinc") { call inc(ROOT); }
           else if (Script[self][ip] = "upd1") { call update(1); }
           else if (Script[self][ip] = "upd2") { call update(2); }
           else if (Script[self][ip] = "close") {
             if (hnd[self] # NONE) { call closesub(hnd[self]); };
           };
 a_adv:    ip := ip + 1;
         };
}

fair process (passer \in Passers)
{
 p_pass: call pass();
}

fair process (ticker = TICK)
{
 rl_select: while (HasLoop) {
          either { await doneCh; goto rl_exit; }
          or     { await ticks < MaxTicks /\ ~doneCh; ticks := ticks + 1; };
 rl_tick: if (closed[ROOT]) { goto rl_select; };
 rl_pass: call pass();
        };
 rl_exit: skip;
}

fair process (closer \in Closers)
{
 cl_call: closeCalled := TRUE;
 cl_mu:   if (~DevNoCloseMutex) { await closeMu = NOBODY; closeMu := self; };
 cl_cas:  if (closed[ROOT]) { goto cl_unmu; } else { closed[ROOT] := TRUE; };
 cl_done: doneCh := TRUE;
 cl_wait: if (~DevCloseNoWait) { await pc[TICK] = "Done"; };
 cl_report: if (~WeakNoFinalPass) { call pass(); };
 cl_purge: if (~DevPurgeAnyPass) { call purge(); };
 cl_rclose: rclosed := rclosed + 1; closeBeforeFlush := closeBeforeFlush \/ unflushed;
          lateCall := lateCall \/ closeReturned;
 cl_unmu: if (closeMu = self) { closeMu := NOBODY; };
 cl_ret:  barrierOk := barrierOk /\ (promised <= delivered) /\ ~unflushed;
          loopEndedOk := loopEndedOk /\ (pc[TICK] = "Done");
          closeReturned := TRUE;
}

\* activity has stopped: one more pass (unless the root was closed, whose Close ran it), then an idle one
fair process (final = FINAL)
{
 f_wait: await \A t \in Apps \cup Passers \cup Closers : pc[t] = "Done";
         await ~HasLoop \/ Closers # {} \/ ticks = MaxTicks;
         await pc[TICK] \in {"Done", "rl_select"};
 f_pass: if (~closed[ROOT]) { call pass(); };
 f_q:    quiesced := TRUE;
}
} *)
\* BEGIN TRANSLATION
CONSTANT defaultInitValue
VARIABLES pc, regS, regR, nobj, closed, doneCh, hasCtr, ctrGen, curr, prev, 
          gval, gflag, bR, bW, cR, cW, closeMu, delivered, promised, allIncs, 
          negDelta, updc, upd, gdl, inflight, stale, objClosed, reacqClosed, 
          closeCalled, closeReturned, lateCall, unflushed, rclosed, barrierOk, 
          closeBeforeFlush, loopEndedOk, hnd, ticks, quiesced, stack

(* define statement *)
BFreeR == bW = NOBODY
BFreeW == bW = NOBODY /\ bR = {}
CFreeR(o) == cW[o] = NOBODY
CFreeW(o) == cW[o] = NOBODY /\ cR[o] = {}
LastOf(s) == s[Len(s)]

VARIABLES o, lc, lp, g, lv, wasSet, ro, co, cur, visR, visS, wasClosed, due, 
          fs, closedAtCall, h, ch, v, ip

vars == << pc, regS, regR, nobj, closed, doneCh, hasCtr, ctrGen, curr, prev, 
           gval, gflag, bR, bW, cR, cW, closeMu, delivered, promised, allIncs, 
           negDelta, updc, upd, gdl, inflight, stale, objClosed, reacqClosed, 
           closeCalled, closeReturned, lateCall, unflushed, rclosed, 
           barrierOk, closeBeforeFlush, loopEndedOk, hnd, ticks, quiesced, 
           stack, o, lc, lp, g, lv, wasSet, ro, co, cur, visR, visS, 
           wasClosed, due, fs, closedAtCall, h, ch, v, ip >>

ProcSet == (Apps) \cup (Passers) \cup {TICK} \cup (Closers) \cup {FINAL}

Init == (* Global variables *)
        /\ regS = NONE
        /\ regR = TRUE
        /\ nobj = 0
        /\ closed = [x \in Objs |-> FALSE]
        /\ doneCh = FALSE
        /\ hasCtr = [x \in Objs |-> FALSE]
        /\ ctrGen = [x \in Objs |-> 0]
        /\ curr = [x \in Objs |-> [y \in 0..2 |-> 0]]
        /\ prev = [x \in Objs |-> [y \in 0..2 |-> 0]]
        /\ gval = 0
        /\ gflag = 0
        /\ bR = {}
        /\ bW = NOBODY
        /\ cR = [x \in Objs |-> {}]
        /\ cW = [x \in Objs |-> NOBODY]
        /\ closeMu = NOBODY
        /\ delivered = 0
        /\ promised = 0
        /\ allIncs = 0
        /\ negDelta = FALSE
        /\ updc = <<>>
        /\ upd = 0
        /\ gdl = <<>>
        /\ inflight = {}
        /\ stale = FALSE
        /\ objClosed = {}
        /\ reacqClosed = FALSE
        /\ closeCalled = FALSE
        /\ closeReturned = FALSE
        /\ lateCall = FALSE
        /\ unflushed = FALSE
        /\ rclosed = 0
        /\ barrierOk = TRUE
        /\ closeBeforeFlush = FALSE
        /\ loopEndedOk = TRUE
        /\ hnd = [x \in Apps |-> NONE]
        /\ ticks = 0
        /\ quiesced = FALSE
        (* Procedure report *)
        /\ o = [ self \in ProcSet |-> defaultInitValue]
        /\ lc = [ self \in ProcSet |-> 0]
        /\ lp = [ self \in ProcSet |-> 0]
        /\ g = [ self \in ProcSet |-> 0]
        /\ lv = [ self \in ProcSet |-> 0]
        /\ wasSet = [ self \in ProcSet |-> FALSE]
        (* Procedure removeWithRLock *)
        /\ ro = [ self \in ProcSet |-> defaultInitValue]
        (* Procedure clearMetrics *)
        /\ co = [ self \in ProcSet |-> defaultInitValue]
        (* Procedure pass *)
        /\ cur = [ self \in ProcSet |-> NONE]
        /\ visR = [ self \in ProcSet |-> FALSE]
        /\ visS = [ self \in ProcSet |-> FALSE]
        /\ wasClosed = [ self \in ProcSet |-> FALSE]
        /\ due = [ self \in ProcSet |-> -1]
        (* Procedure subscope *)
        /\ fs = [ self \in ProcSet |-> NONE]
        /\ closedAtCall = [ self \in ProcSet |-> {}]
        (* Procedure inc *)
        /\ h = [ self \in ProcSet |-> defaultInitValue]
        (* Procedure closesub *)
        /\ ch = [ self \in ProcSet |-> defaultInitValue]
        (* Procedure update *)
        /\ v = [ self \in ProcSet |-> defaultInitValue]
        (* Process app *)
        /\ ip = [self \in Apps |-> 1]
        /\ stack = [self \in ProcSet |-> << >>]
        /\ pc = [self \in ProcSet |-> CASE self \in Apps -> "a_loop"
                                        [] self \in Passers -> "p_pass"
                                        [] self = TICK -> "rl_select"
                                        [] self \in Closers -> "cl_call"
                                        [] self = FINAL -> "f_wait"]

sr_c(self) == /\ pc[self] = "sr_c"
              /\ CFreeR(o[self])
              /\ cR' = [cR EXCEPT ![o[self]] = cR[o[self]] \cup {self}]
              /\ IF ~hasCtr[o[self]]
                    THEN /\ pc' = [pc EXCEPT ![self] = "sr_c_unlock"]
                         /\ g' = g
                    ELSE /\ g' = [g EXCEPT ![self] = ctrGen[o[self]]]
                         /\ pc' = [pc EXCEPT ![self] = "cv_load_prev"]
              /\ UNCHANGED << regS, regR, nobj, closed, doneCh, hasCtr, ctrGen, 
                              curr, prev, gval, gflag, bR, bW, cW, closeMu, 
                              delivered, promised, allIncs, negDelta, updc, 
                              upd, gdl, inflight, stale, objClosed, 
                              reacqClosed, closeCalled, closeReturned, 
                              lateCall, unflushed, rclosed, barrierOk, 
                              closeBeforeFlush, loopEndedOk, hnd, ticks, 
                              quiesced, stack, o, lc, lp, lv, wasSet, ro, co, 
                              cur, visR, visS, wasClosed, due, fs, 
                              closedAtCall, h, ch, v, ip >>

cv_load_prev(self) == /\ pc[self] = "cv_load_prev"
                      /\ IF DevNonAtomicDelta
                            THEN /\ lc' = [lc EXCEPT ![self] = curr[o[self]][g[self]]]
                                 /\ lp' = lp
                            ELSE /\ lp' = [lp EXCEPT ![self] = prev[o[self]][g[self]]]
                                 /\ lc' = lc
                      /\ pc' = [pc EXCEPT ![self] = "cv_load_curr"]
                      /\ UNCHANGED << regS, regR, nobj, closed, doneCh, hasCtr, 
                                      ctrGen, curr, prev, gval, gflag, bR, bW, 
                                      cR, cW, closeMu, delivered, promised, 
                                      allIncs, negDelta, updc, upd, gdl, 
                                      inflight, stale, objClosed, reacqClosed, 
                                      closeCalled, closeReturned, lateCall, 
                                      unflushed, rclosed, barrierOk, 
                                      closeBeforeFlush, loopEndedOk, hnd, 
                                      ticks, quiesced, stack, o, g, lv, wasSet, 
                                      ro, co, cur, visR, visS, wasClosed, due, 
                                      fs, closedAtCall, h, ch, v, ip >>

cv_load_curr(self) == /\ pc[self] = "cv_load_curr"
                      /\ IF DevNonAtomicDelta
                            THEN /\ lp' = [lp EXCEPT ![self] = prev[o[self]][g[self]]]
                                 /\ lc' = lc
                            ELSE /\ lc' = [lc EXCEPT ![self] = curr[o[self]][g[self]]]
                                 /\ lp' = lp
                      /\ IF lp'[self] = lc'[self]
                            THEN /\ pc' = [pc EXCEPT ![self] = "sr_c_unlock"]
                            ELSE /\ pc' = [pc EXCEPT ![self] = "cv_cas"]
                      /\ UNCHANGED << regS, regR, nobj, closed, doneCh, hasCtr, 
                                      ctrGen, curr, prev, gval, gflag, bR, bW, 
                                      cR, cW, closeMu, delivered, promised, 
                                      allIncs, negDelta, updc, upd, gdl, 
                                      inflight, stale, objClosed, reacqClosed, 
                                      closeCalled, closeReturned, lateCall, 
                                      unflushed, rclosed, barrierOk, 
                                      closeBeforeFlush, loopEndedOk, hnd, 
                                      ticks, quiesced, stack, o, g, lv, wasSet, 
                                      ro, co, cur, visR, visS, wasClosed, due, 
                                      fs, closedAtCall, h, ch, v, ip >>

cv_cas(self) == /\ pc[self] = "cv_cas"
                /\ IF DevNonAtomicDelta
                      THEN /\ prev' = [prev EXCEPT ![o[self]][g[self]] = lc[self]]
                           /\ pc' = [pc EXCEPT ![self] = "rp_counter"]
                      ELSE /\ IF prev[o[self]][g[self]] = lp[self]
                                 THEN /\ prev' = [prev EXCEPT ![o[self]][g[self]] = lc[self]]
                                      /\ pc' = [pc EXCEPT ![self] = "rp_counter"]
                                 ELSE /\ pc' = [pc EXCEPT ![self] = "cv_load_prev"]
                                      /\ prev' = prev
                /\ UNCHANGED << regS, regR, nobj, closed, doneCh, hasCtr, 
                                ctrGen, curr, gval, gflag, bR, bW, cR, cW, 
                                closeMu, delivered, promised, allIncs, 
                                negDelta, updc, upd, gdl, inflight, stale, 
                                objClosed, reacqClosed, closeCalled, 
                                closeReturned, lateCall, unflushed, rclosed, 
                                barrierOk, closeBeforeFlush, loopEndedOk, hnd, 
                                ticks, quiesced, stack, o, lc, lp, g, lv, 
                                wasSet, ro, co, cur, visR, visS, wasClosed, 
                                due, fs, closedAtCall, h, ch, v, ip >>

rp_counter(self) == /\ pc[self] = "rp_counter"
                    /\ delivered' = delivered + (lc[self] - lp[self])
                    /\ negDelta' = (negDelta \/ (lc[self] - lp[self] <= 0))
                    /\ lateCall' = (lateCall \/ closeReturned)
                    /\ unflushed' = TRUE
                    /\ pc' = [pc EXCEPT ![self] = "sr_c_unlock"]
                    /\ UNCHANGED << regS, regR, nobj, closed, doneCh, hasCtr, 
                                    ctrGen, curr, prev, gval, gflag, bR, bW, 
                                    cR, cW, closeMu, promised, allIncs, updc, 
                                    upd, gdl, inflight, stale, objClosed, 
                                    reacqClosed, closeCalled, closeReturned, 
                                    rclosed, barrierOk, closeBeforeFlush, 
                                    loopEndedOk, hnd, ticks, quiesced, stack, 
                                    o, lc, lp, g, lv, wasSet, ro, co, cur, 
                                    visR, visS, wasClosed, due, fs, 
                                    closedAtCall, h, ch, v, ip >>

sr_c_unlock(self) == /\ pc[self] = "sr_c_unlock"
                     /\ cR' = [cR EXCEPT ![o[self]] = cR[o[self]] \ {self}]
                     /\ pc' = [pc EXCEPT ![self] = "gr_swap"]
                     /\ UNCHANGED << regS, regR, nobj, closed, doneCh, hasCtr, 
                                     ctrGen, curr, prev, gval, gflag, bR, bW, 
                                     cW, closeMu, delivered, promised, allIncs, 
                                     negDelta, updc, upd, gdl, inflight, stale, 
                                     objClosed, reacqClosed, closeCalled, 
                                     closeReturned, lateCall, unflushed, 
                                     rclosed, barrierOk, closeBeforeFlush, 
                                     loopEndedOk, hnd, ticks, quiesced, stack, 
                                     o, lc, lp, g, lv, wasSet, ro, co, cur, 
                                     visR, visS, wasClosed, due, fs, 
                                     closedAtCall, h, ch, v, ip >>

gr_swap(self) == /\ pc[self] = "gr_swap"
                 /\ IF o[self] # ROOT
                       THEN /\ pc' = [pc EXCEPT ![self] = "sr_ret"]
                            /\ UNCHANGED << gflag, lv, wasSet >>
                       ELSE /\ IF WeakLoadBeforeSwap
                                  THEN /\ lv' = [lv EXCEPT ![self] = gval]
                                       /\ UNCHANGED << gflag, wasSet >>
                                  ELSE /\ wasSet' = [wasSet EXCEPT ![self] = (gflag = 1)]
                                       /\ gflag' = 0
                                       /\ lv' = lv
                            /\ pc' = [pc EXCEPT ![self] = "gr_load"]
                 /\ UNCHANGED << regS, regR, nobj, closed, doneCh, hasCtr, 
                                 ctrGen, curr, prev, gval, bR, bW, cR, cW, 
                                 closeMu, delivered, promised, allIncs, 
                                 negDelta, updc, upd, gdl, inflight, stale, 
                                 objClosed, reacqClosed, closeCalled, 
                                 closeReturned, lateCall, unflushed, rclosed, 
                                 barrierOk, closeBeforeFlush, loopEndedOk, hnd, 
                                 ticks, quiesced, stack, o, lc, lp, g, ro, co, 
                                 cur, visR, visS, wasClosed, due, fs, 
                                 closedAtCall, h, ch, v, ip >>

gr_load(self) == /\ pc[self] = "gr_load"
                 /\ IF WeakLoadBeforeSwap
                       THEN /\ wasSet' = [wasSet EXCEPT ![self] = (gflag = 1)]
                            /\ gflag' = 0
                            /\ lv' = lv
                       ELSE /\ IF wasSet[self]
                                  THEN /\ lv' = [lv EXCEPT ![self] = gval]
                                  ELSE /\ TRUE
                                       /\ lv' = lv
                            /\ UNCHANGED << gflag, wasSet >>
                 /\ pc' = [pc EXCEPT ![self] = "gr_chk"]
                 /\ UNCHANGED << regS, regR, nobj, closed, doneCh, hasCtr, 
                                 ctrGen, curr, prev, gval, bR, bW, cR, cW, 
                                 closeMu, delivered, promised, allIncs, 
                                 negDelta, updc, upd, gdl, inflight, stale, 
                                 objClosed, reacqClosed, closeCalled, 
                                 closeReturned, lateCall, unflushed, rclosed, 
                                 barrierOk, closeBeforeFlush, loopEndedOk, hnd, 
                                 ticks, quiesced, stack, o, lc, lp, g, ro, co, 
                                 cur, visR, visS, wasClosed, due, fs, 
                                 closedAtCall, h, ch, v, ip >>

gr_chk(self) == /\ pc[self] = "gr_chk"
                /\ IF ~wasSet[self]
                      THEN /\ pc' = [pc EXCEPT ![self] = "sr_ret"]
                      ELSE /\ pc' = [pc EXCEPT ![self] = "rp_gauge"]
                /\ UNCHANGED << regS, regR, nobj, closed, doneCh, hasCtr, 
                                ctrGen, curr, prev, gval, gflag, bR, bW, cR, 
                                cW, closeMu, delivered, promised, allIncs, 
                                negDelta, updc, upd, gdl, inflight, stale, 
                                objClosed, reacqClosed, closeCalled, 
                                closeReturned, lateCall, unflushed, rclosed, 
                                barrierOk, closeBeforeFlush, loopEndedOk, hnd, 
                                ticks, quiesced, stack, o, lc, lp, g, lv, 
                                wasSet, ro, co, cur, visR, visS, wasClosed, 
                                due, fs, closedAtCall, h, ch, v, ip >>

rp_gauge(self) == /\ pc[self] = "rp_gauge"
                  /\ gdl' = Append(gdl, lv[self])
                  /\ lateCall' = (lateCall \/ closeReturned)
                  /\ unflushed' = TRUE
                  /\ pc' = [pc EXCEPT ![self] = "sr_ret"]
                  /\ UNCHANGED << regS, regR, nobj, closed, doneCh, hasCtr, 
                                  ctrGen, curr, prev, gval, gflag, bR, bW, cR, 
                                  cW, closeMu, delivered, promised, allIncs, 
                                  negDelta, updc, upd, inflight, stale, 
                                  objClosed, reacqClosed, closeCalled, 
                                  closeReturned, rclosed, barrierOk, 
                                  closeBeforeFlush, loopEndedOk, hnd, ticks, 
                                  quiesced, stack, o, lc, lp, g, lv, wasSet, 
                                  ro, co, cur, visR, visS, wasClosed, due, fs, 
                                  closedAtCall, h, ch, v, ip >>

sr_ret(self) == /\ pc[self] = "sr_ret"
                /\ pc' = [pc EXCEPT ![self] = Head(stack[self]).pc]
                /\ lc' = [lc EXCEPT ![self] = Head(stack[self]).lc]
                /\ lp' = [lp EXCEPT ![self] = Head(stack[self]).lp]
                /\ g' = [g EXCEPT ![self] = Head(stack[self]).g]
                /\ lv' = [lv EXCEPT ![self] = Head(stack[self]).lv]
                /\ wasSet' = [wasSet EXCEPT ![self] = Head(stack[self]).wasSet]
                /\ o' = [o EXCEPT ![self] = Head(stack[self]).o]
                /\ stack' = [stack EXCEPT ![self] = Tail(stack[self])]
                /\ UNCHANGED << regS, regR, nobj, closed, doneCh, hasCtr, 
                                ctrGen, curr, prev, gval, gflag, bR, bW, cR, 
                                cW, closeMu, delivered, promised, allIncs, 
                                negDelta, updc, upd, gdl, inflight, stale, 
                                objClosed, reacqClosed, closeCalled, 
                                closeReturned, lateCall, unflushed, rclosed, 
                                barrierOk, closeBeforeFlush, loopEndedOk, hnd, 
                                ticks, quiesced, ro, co, cur, visR, visS, 
                                wasClosed, due, fs, closedAtCall, h, ch, v, ip >>

report(self) == sr_c(self) \/ cv_load_prev(self) \/ cv_load_curr(self)
                   \/ cv_cas(self) \/ rp_counter(self) \/ sr_c_unlock(self)
                   \/ gr_swap(self) \/ gr_load(self) \/ gr_chk(self)
                   \/ rp_gauge(self) \/ sr_ret(self)

rm_runlock(self) == /\ pc[self] = "rm_runlock"
                    /\ bR' = bR \ {self}
                    /\ pc' = [pc EXCEPT ![self] = "rm_lock"]
                    /\ UNCHANGED << regS, regR, nobj, closed, doneCh, hasCtr, 
                                    ctrGen, curr, prev, gval, gflag, bW, cR, 
                                    cW, closeMu, delivered, promised, allIncs, 
                                    negDelta, updc, upd, gdl, inflight, stale, 
                                    objClosed, reacqClosed, closeCalled, 
                                    closeReturned, lateCall, unflushed, 
                                    rclosed, barrierOk, closeBeforeFlush, 
                                    loopEndedOk, hnd, ticks, quiesced, stack, 
                                    o, lc, lp, g, lv, wasSet, ro, co, cur, 
                                    visR, visS, wasClosed, due, fs, 
                                    closedAtCall, h, ch, v, ip >>

rm_lock(self) == /\ pc[self] = "rm_lock"
                 /\ BFreeW
                 /\ bW' = self
                 /\ pc' = [pc EXCEPT ![self] = "rm_del"]
                 /\ UNCHANGED << regS, regR, nobj, closed, doneCh, hasCtr, 
                                 ctrGen, curr, prev, gval, gflag, bR, cR, cW, 
                                 closeMu, delivered, promised, allIncs, 
                                 negDelta, updc, upd, gdl, inflight, stale, 
                                 objClosed, reacqClosed, closeCalled, 
                                 closeReturned, lateCall, unflushed, rclosed, 
                                 barrierOk, closeBeforeFlush, loopEndedOk, hnd, 
                                 ticks, quiesced, stack, o, lc, lp, g, lv, 
                                 wasSet, ro, co, cur, visR, visS, wasClosed, 
                                 due, fs, closedAtCall, h, ch, v, ip >>

rm_del(self) == /\ pc[self] = "rm_del"
                /\ IF ro[self] = ROOT
                      THEN /\ regR' = FALSE
                           /\ regS' = regS
                      ELSE /\ IF DevDeleteByKey \/ regS = ro[self]
                                 THEN /\ regS' = NONE
                                 ELSE /\ TRUE
                                      /\ regS' = regS
                           /\ regR' = regR
                /\ bW' = NOBODY
                /\ pc' = [pc EXCEPT ![self] = "rm_relock"]
                /\ UNCHANGED << nobj, closed, doneCh, hasCtr, ctrGen, curr, 
                                prev, gval, gflag, bR, cR, cW, closeMu, 
                                delivered, promised, allIncs, negDelta, updc, 
                                upd, gdl, inflight, stale, objClosed, 
                                reacqClosed, closeCalled, closeReturned, 
                                lateCall, unflushed, rclosed, barrierOk, 
                                closeBeforeFlush, loopEndedOk, hnd, ticks, 
                                quiesced, stack, o, lc, lp, g, lv, wasSet, ro, 
                                co, cur, visR, visS, wasClosed, due, fs, 
                                closedAtCall, h, ch, v, ip >>

rm_relock(self) == /\ pc[self] = "rm_relock"
                   /\ BFreeR
                   /\ bR' = (bR \cup {self})
                   /\ pc' = [pc EXCEPT ![self] = Head(stack[self]).pc]
                   /\ ro' = [ro EXCEPT ![self] = Head(stack[self]).ro]
                   /\ stack' = [stack EXCEPT ![self] = Tail(stack[self])]
                   /\ UNCHANGED << regS, regR, nobj, closed, doneCh, hasCtr, 
                                   ctrGen, curr, prev, gval, gflag, bW, cR, cW, 
                                   closeMu, delivered, promised, allIncs, 
                                   negDelta, updc, upd, gdl, inflight, stale, 
                                   objClosed, reacqClosed, closeCalled, 
                                   closeReturned, lateCall, unflushed, rclosed, 
                                   barrierOk, closeBeforeFlush, loopEndedOk, 
                                   hnd, ticks, quiesced, o, lc, lp, g, lv, 
                                   wasSet, co, cur, visR, visS, wasClosed, due, 
                                   fs, closedAtCall, h, ch, v, ip >>

removeWithRLock(self) == rm_runlock(self) \/ rm_lock(self) \/ rm_del(self)
                            \/ rm_relock(self)

cm_c(self) == /\ pc[self] = "cm_c"
              /\ CFreeW(co[self])
              /\ hasCtr' = [hasCtr EXCEPT ![co[self]] = FALSE]
              /\ pc' = [pc EXCEPT ![self] = Head(stack[self]).pc]
              /\ co' = [co EXCEPT ![self] = Head(stack[self]).co]
              /\ stack' = [stack EXCEPT ![self] = Tail(stack[self])]
              /\ UNCHANGED << regS, regR, nobj, closed, doneCh, ctrGen, curr, 
                              prev, gval, gflag, bR, bW, cR, cW, closeMu, 
                              delivered, promised, allIncs, negDelta, updc, 
                              upd, gdl, inflight, stale, objClosed, 
                              reacqClosed, closeCalled, closeReturned, 
                              lateCall, unflushed, rclosed, barrierOk, 
                              closeBeforeFlush, loopEndedOk, hnd, ticks, 
                              quiesced, o, lc, lp, g, lv, wasSet, ro, cur, 
                              visR, visS, wasClosed, due, fs, closedAtCall, h, 
                              ch, v, ip >>

clearMetrics(self) == cm_c(self)

rr_begin(self) == /\ pc[self] = "rr_begin"
                  /\ inflight' = (inflight \cup {self})
                  /\ due' = [due EXCEPT ![self] = IF upd = Len(updc) THEN Len(updc) ELSE -1]
                  /\ pc' = [pc EXCEPT ![self] = "rp_rlock"]
                  /\ UNCHANGED << regS, regR, nobj, closed, doneCh, hasCtr, 
                                  ctrGen, curr, prev, gval, gflag, bR, bW, cR, 
                                  cW, closeMu, delivered, promised, allIncs, 
                                  negDelta, updc, upd, gdl, stale, objClosed, 
                                  reacqClosed, closeCalled, closeReturned, 
                                  lateCall, unflushed, rclosed, barrierOk, 
                                  closeBeforeFlush, loopEndedOk, hnd, ticks, 
                                  quiesced, stack, o, lc, lp, g, lv, wasSet, 
                                  ro, co, cur, visR, visS, wasClosed, fs, 
                                  closedAtCall, h, ch, v, ip >>

rp_rlock(self) == /\ pc[self] = "rp_rlock"
                  /\ BFreeR
                  /\ bR' = (bR \cup {self})
                  /\ pc' = [pc EXCEPT ![self] = "rp_visit"]
                  /\ UNCHANGED << regS, regR, nobj, closed, doneCh, hasCtr, 
                                  ctrGen, curr, prev, gval, gflag, bW, cR, cW, 
                                  closeMu, delivered, promised, allIncs, 
                                  negDelta, updc, upd, gdl, inflight, stale, 
                                  objClosed, reacqClosed, closeCalled, 
                                  closeReturned, lateCall, unflushed, rclosed, 
                                  barrierOk, closeBeforeFlush, loopEndedOk, 
                                  hnd, ticks, quiesced, stack, o, lc, lp, g, 
                                  lv, wasSet, ro, co, cur, visR, visS, 
                                  wasClosed, due, fs, closedAtCall, h, ch, v, 
                                  ip >>

rp_visit(self) == /\ pc[self] = "rp_visit"
                  /\ \/ /\ regR /\ ~visR[self]
                        /\ cur' = [cur EXCEPT ![self] = ROOT]
                        /\ visR' = [visR EXCEPT ![self] = TRUE]
                        /\ pc' = [pc EXCEPT ![self] = "rp_closed"]
                        /\ visS' = visS
                     \/ /\ regS # NONE /\ ~visS[self]
                        /\ cur' = [cur EXCEPT ![self] = regS]
                        /\ visS' = [visS EXCEPT ![self] = TRUE]
                        /\ pc' = [pc EXCEPT ![self] = "rp_closed"]
                        /\ visR' = visR
                     \/ /\ (~regR \/ visR[self]) /\ (regS = NONE \/ visS[self])
                        /\ pc' = [pc EXCEPT ![self] = "rp_runlock"]
                        /\ UNCHANGED <<cur, visR, visS>>
                  /\ UNCHANGED << regS, regR, nobj, closed, doneCh, hasCtr, 
                                  ctrGen, curr, prev, gval, gflag, bR, bW, cR, 
                                  cW, closeMu, delivered, promised, allIncs, 
                                  negDelta, updc, upd, gdl, inflight, stale, 
                                  objClosed, reacqClosed, closeCalled, 
                                  closeReturned, lateCall, unflushed, rclosed, 
                                  barrierOk, closeBeforeFlush, loopEndedOk, 
                                  hnd, ticks, quiesced, stack, o, lc, lp, g, 
                                  lv, wasSet, ro, co, wasClosed, due, fs, 
                                  closedAtCall, h, ch, v, ip >>

rp_closed(self) == /\ pc[self] = "rp_closed"
                   /\ wasClosed' = [wasClosed EXCEPT ![self] = closed[cur[self]]]
                   /\ pc' = [pc EXCEPT ![self] = "rp_report"]
                   /\ UNCHANGED << regS, regR, nobj, closed, doneCh, hasCtr, 
                                   ctrGen, curr, prev, gval, gflag, bR, bW, cR, 
                                   cW, closeMu, delivered, promised, allIncs, 
                                   negDelta, updc, upd, gdl, inflight, stale, 
                                   objClosed, reacqClosed, closeCalled, 
                                   closeReturned, lateCall, unflushed, rclosed, 
                                   barrierOk, closeBeforeFlush, loopEndedOk, 
                                   hnd, ticks, quiesced, stack, o, lc, lp, g, 
                                   lv, wasSet, ro, co, cur, visR, visS, due, 
                                   fs, closedAtCall, h, ch, v, ip >>

rp_report(self) == /\ pc[self] = "rp_report"
                   /\ /\ o' = [o EXCEPT ![self] = cur[self]]
                      /\ stack' = [stack EXCEPT ![self] = << [ procedure |->  "report",
                                                               pc        |->  "rp_chk",
                                                               lc        |->  lc[self],
                                                               lp        |->  lp[self],
                                                               g         |->  g[self],
                                                               lv        |->  lv[self],
                                                               wasSet    |->  wasSet[self],
                                                               o         |->  o[self] ] >>
                                                           \o stack[self]]
                   /\ lc' = [lc EXCEPT ![self] = 0]
                   /\ lp' = [lp EXCEPT ![self] = 0]
                   /\ g' = [g EXCEPT ![self] = 0]
                   /\ lv' = [lv EXCEPT ![self] = 0]
                   /\ wasSet' = [wasSet EXCEPT ![self] = FALSE]
                   /\ pc' = [pc EXCEPT ![self] = "sr_c"]
                   /\ UNCHANGED << regS, regR, nobj, closed, doneCh, hasCtr, 
                                   ctrGen, curr, prev, gval, gflag, bR, bW, cR, 
                                   cW, closeMu, delivered, promised, allIncs, 
                                   negDelta, updc, upd, gdl, inflight, stale, 
                                   objClosed, reacqClosed, closeCalled, 
                                   closeReturned, lateCall, unflushed, rclosed, 
                                   barrierOk, closeBeforeFlush, loopEndedOk, 
                                   hnd, ticks, quiesced, ro, co, cur, visR, 
                                   visS, wasClosed, due, fs, closedAtCall, h, 
                                   ch, v, ip >>

rp_chk(self) == /\ pc[self] = "rp_chk"
                /\ IF (DevClosedAfterReport /\ closed[cur[self]]) \/ (~DevClosedAfterReport /\ wasClosed[self])
                      THEN /\ /\ ro' = [ro EXCEPT ![self] = cur[self]]
                              /\ stack' = [stack EXCEPT ![self] = << [ procedure |->  "removeWithRLock",
                                                                       pc        |->  "rp_clr",
                                                                       ro        |->  ro[self] ] >>
                                                                   \o stack[self]]
                           /\ pc' = [pc EXCEPT ![self] = "rm_runlock"]
                      ELSE /\ pc' = [pc EXCEPT ![self] = "rp_next"]
                           /\ UNCHANGED << stack, ro >>
                /\ UNCHANGED << regS, regR, nobj, closed, doneCh, hasCtr, 
                                ctrGen, curr, prev, gval, gflag, bR, bW, cR, 
                                cW, closeMu, delivered, promised, allIncs, 
                                negDelta, updc, upd, gdl, inflight, stale, 
                                objClosed, reacqClosed, closeCalled, 
                                closeReturned, lateCall, unflushed, rclosed, 
                                barrierOk, closeBeforeFlush, loopEndedOk, hnd, 
                                ticks, quiesced, o, lc, lp, g, lv, wasSet, co, 
                                cur, visR, visS, wasClosed, due, fs, 
                                closedAtCall, h, ch, v, ip >>

rp_clr(self) == /\ pc[self] = "rp_clr"
                /\ /\ co' = [co EXCEPT ![self] = cur[self]]
                   /\ stack' = [stack EXCEPT ![self] = << [ procedure |->  "clearMetrics",
                                                            pc        |->  "rp_next",
                                                            co        |->  co[self] ] >>
                                                        \o stack[self]]
                /\ pc' = [pc EXCEPT ![self] = "cm_c"]
                /\ UNCHANGED << regS, regR, nobj, closed, doneCh, hasCtr, 
                                ctrGen, curr, prev, gval, gflag, bR, bW, cR, 
                                cW, closeMu, delivered, promised, allIncs, 
                                negDelta, updc, upd, gdl, inflight, stale, 
                                objClosed, reacqClosed, closeCalled, 
                                closeReturned, lateCall, unflushed, rclosed, 
                                barrierOk, closeBeforeFlush, loopEndedOk, hnd, 
                                ticks, quiesced, o, lc, lp, g, lv, wasSet, ro, 
                                cur, visR, visS, wasClosed, due, fs, 
                                closedAtCall, h, ch, v, ip >>

rp_next(self) == /\ pc[self] = "rp_next"
                 /\ pc' = [pc EXCEPT ![self] = "rp_visit"]
                 /\ UNCHANGED << regS, regR, nobj, closed, doneCh, hasCtr, 
                                 ctrGen, curr, prev, gval, gflag, bR, bW, cR, 
                                 cW, closeMu, delivered, promised, allIncs, 
                                 negDelta, updc, upd, gdl, inflight, stale, 
                                 objClosed, reacqClosed, closeCalled, 
                                 closeReturned, lateCall, unflushed, rclosed, 
                                 barrierOk, closeBeforeFlush, loopEndedOk, hnd, 
                                 ticks, quiesced, stack, o, lc, lp, g, lv, 
                                 wasSet, ro, co, cur, visR, visS, wasClosed, 
                                 due, fs, closedAtCall, h, ch, v, ip >>

rp_runlock(self) == /\ pc[self] = "rp_runlock"
                    /\ bR' = bR \ {self}
                    /\ pc' = [pc EXCEPT ![self] = "rp_flush"]
                    /\ UNCHANGED << regS, regR, nobj, closed, doneCh, hasCtr, 
                                    ctrGen, curr, prev, gval, gflag, bW, cR, 
                                    cW, closeMu, delivered, promised, allIncs, 
                                    negDelta, updc, upd, gdl, inflight, stale, 
                                    objClosed, reacqClosed, closeCalled, 
                                    closeReturned, lateCall, unflushed, 
                                    rclosed, barrierOk, closeBeforeFlush, 
                                    loopEndedOk, hnd, ticks, quiesced, stack, 
                                    o, lc, lp, g, lv, wasSet, ro, co, cur, 
                                    visR, visS, wasClosed, due, fs, 
                                    closedAtCall, h, ch, v, ip >>

rp_flush(self) == /\ pc[self] = "rp_flush"
                  /\ unflushed' = FALSE
                  /\ lateCall' = (lateCall \/ closeReturned)
                  /\ pc' = [pc EXCEPT ![self] = "rp_purge"]
                  /\ UNCHANGED << regS, regR, nobj, closed, doneCh, hasCtr, 
                                  ctrGen, curr, prev, gval, gflag, bR, bW, cR, 
                                  cW, closeMu, delivered, promised, allIncs, 
                                  negDelta, updc, upd, gdl, inflight, stale, 
                                  objClosed, reacqClosed, closeCalled, 
                                  closeReturned, rclosed, barrierOk, 
                                  closeBeforeFlush, loopEndedOk, hnd, ticks, 
                                  quiesced, stack, o, lc, lp, g, lv, wasSet, 
                                  ro, co, cur, visR, visS, wasClosed, due, fs, 
                                  closedAtCall, h, ch, v, ip >>

rp_purge(self) == /\ pc[self] = "rp_purge"
                  /\ IF DevPurgeAnyPass /\ closed[ROOT]
                        THEN /\ stack' = [stack EXCEPT ![self] = << [ procedure |->  "purge",
                                                                      pc        |->  "rr_end" ] >>
                                                                  \o stack[self]]
                             /\ pc' = [pc EXCEPT ![self] = "pg_lock"]
                        ELSE /\ pc' = [pc EXCEPT ![self] = "rr_end"]
                             /\ stack' = stack
                  /\ UNCHANGED << regS, regR, nobj, closed, doneCh, hasCtr, 
                                  ctrGen, curr, prev, gval, gflag, bR, bW, cR, 
                                  cW, closeMu, delivered, promised, allIncs, 
                                  negDelta, updc, upd, gdl, inflight, stale, 
                                  objClosed, reacqClosed, closeCalled, 
                                  closeReturned, lateCall, unflushed, rclosed, 
                                  barrierOk, closeBeforeFlush, loopEndedOk, 
                                  hnd, ticks, quiesced, o, lc, lp, g, lv, 
                                  wasSet, ro, co, cur, visR, visS, wasClosed, 
                                  due, fs, closedAtCall, h, ch, v, ip >>

rr_end(self) == /\ pc[self] = "rr_end"
                /\ stale' = (stale \/ (inflight = {self} /\ due[self] = Len(updc) /\ Len(updc) > 0
                                       /\ (gdl = <<>> \/ LastOf(gdl) # LastOf(updc))))
                /\ inflight' = inflight \ {self}
                /\ pc' = [pc EXCEPT ![self] = Head(stack[self]).pc]
                /\ cur' = [cur EXCEPT ![self] = Head(stack[self]).cur]
                /\ visR' = [visR EXCEPT ![self] = Head(stack[self]).visR]
                /\ visS' = [visS EXCEPT ![self] = Head(stack[self]).visS]
                /\ wasClosed' = [wasClosed EXCEPT ![self] = Head(stack[self]).wasClosed]
                /\ due' = [due EXCEPT ![self] = Head(stack[self]).due]
                /\ stack' = [stack EXCEPT ![self] = Tail(stack[self])]
                /\ UNCHANGED << regS, regR, nobj, closed, doneCh, hasCtr, 
                                ctrGen, curr, prev, gval, gflag, bR, bW, cR, 
                                cW, closeMu, delivered, promised, allIncs, 
                                negDelta, updc, upd, gdl, objClosed, 
                                reacqClosed, closeCalled, closeReturned, 
                                lateCall, unflushed, rclosed, barrierOk, 
                                closeBeforeFlush, loopEndedOk, hnd, ticks, 
                                quiesced, o, lc, lp, g, lv, wasSet, ro, co, fs, 
                                closedAtCall, h, ch, v, ip >>

pass(self) == rr_begin(self) \/ rp_rlock(self) \/ rp_visit(self)
                 \/ rp_closed(self) \/ rp_report(self) \/ rp_chk(self)
                 \/ rp_clr(self) \/ rp_next(self) \/ rp_runlock(self)
                 \/ rp_flush(self) \/ rp_purge(self) \/ rr_end(self)

pg_lock(self) == /\ pc[self] = "pg_lock"
                 /\ BFreeW /\ \A x \in Objs : CFreeW(x)
                 /\ closed' = [x \in Objs |-> IF x = ROOT \/ x = regS THEN TRUE ELSE closed[x]]
                 /\ hasCtr' = [x \in Objs |-> IF x = ROOT \/ x = regS THEN FALSE ELSE hasCtr[x]]
                 /\ regR' = FALSE
                 /\ regS' = NONE
                 /\ pc' = [pc EXCEPT ![self] = Head(stack[self]).pc]
                 /\ stack' = [stack EXCEPT ![self] = Tail(stack[self])]
                 /\ UNCHANGED << nobj, doneCh, ctrGen, curr, prev, gval, gflag, 
                                 bR, bW, cR, cW, closeMu, delivered, promised, 
                                 allIncs, negDelta, updc, upd, gdl, inflight, 
                                 stale, objClosed, reacqClosed, closeCalled, 
                                 closeReturned, lateCall, unflushed, rclosed, 
                                 barrierOk, closeBeforeFlush, loopEndedOk, hnd, 
                                 ticks, quiesced, o, lc, lp, g, lv, wasSet, ro, 
                                 co, cur, visR, visS, wasClosed, due, fs, 
                                 closedAtCall, h, ch, v, ip >>

purge(self) == pg_lock(self)

ss_closed_check(self) == /\ pc[self] = "ss_closed_check"
                         /\ closedAtCall' = [closedAtCall EXCEPT ![self] = objClosed]
                         /\ IF closed[ROOT]
                               THEN /\ hnd' = [hnd EXCEPT ![self] = NONE]
                                    /\ pc' = [pc EXCEPT ![self] = "ss_ret"]
                               ELSE /\ pc' = [pc EXCEPT ![self] = "ss_rlock"]
                                    /\ hnd' = hnd
                         /\ UNCHANGED << regS, regR, nobj, closed, doneCh, 
                                         hasCtr, ctrGen, curr, prev, gval, 
                                         gflag, bR, bW, cR, cW, closeMu, 
                                         delivered, promised, allIncs, 
                                         negDelta, updc, upd, gdl, inflight, 
                                         stale, objClosed, reacqClosed, 
                                         closeCalled, closeReturned, lateCall, 
                                         unflushed, rclosed, barrierOk, 
                                         closeBeforeFlush, loopEndedOk, ticks, 
                                         quiesced, stack, o, lc, lp, g, lv, 
                                         wasSet, ro, co, cur, visR, visS, 
                                         wasClosed, due, fs, h, ch, v, ip >>

ss_rlock(self) == /\ pc[self] = "ss_rlock"
                  /\ BFreeR
                  /\ bR' = (bR \cup {self})
                  /\ fs' = [fs EXCEPT ![self] = regS]
                  /\ pc' = [pc EXCEPT ![self] = "ss_found_check"]
                  /\ UNCHANGED << regS, regR, nobj, closed, doneCh, hasCtr, 
                                  ctrGen, curr, prev, gval, gflag, bW, cR, cW, 
                                  closeMu, delivered, promised, allIncs, 
                                  negDelta, updc, upd, gdl, inflight, stale, 
                                  objClosed, reacqClosed, closeCalled, 
                                  closeReturned, lateCall, unflushed, rclosed, 
                                  barrierOk, closeBeforeFlush, loopEndedOk, 
                                  hnd, ticks, quiesced, stack, o, lc, lp, g, 
                                  lv, wasSet, ro, co, cur, visR, visS, 
                                  wasClosed, due, closedAtCall, h, ch, v, ip >>

ss_found_check(self) == /\ pc[self] = "ss_found_check"
                        /\ IF fs[self] # NONE /\ ~closed[fs[self]]
                              THEN /\ bR' = bR \ {self}
                                   /\ hnd' = [hnd EXCEPT ![self] = fs[self]]
                                   /\ pc' = [pc EXCEPT ![self] = "ss_ret"]
                              ELSE /\ pc' = [pc EXCEPT ![self] = "ss_rep"]
                                   /\ UNCHANGED << bR, hnd >>
                        /\ UNCHANGED << regS, regR, nobj, closed, doneCh, 
                                        hasCtr, ctrGen, curr, prev, gval, 
                                        gflag, bW, cR, cW, closeMu, delivered, 
                                        promised, allIncs, negDelta, updc, upd, 
                                        gdl, inflight, stale, objClosed, 
                                        reacqClosed, closeCalled, 
                                        closeReturned, lateCall, unflushed, 
                                        rclosed, barrierOk, closeBeforeFlush, 
                                        loopEndedOk, ticks, quiesced, stack, o, 
                                        lc, lp, g, lv, wasSet, ro, co, cur, 
                                        visR, visS, wasClosed, due, fs, 
                                        closedAtCall, h, ch, v, ip >>

ss_rep(self) == /\ pc[self] = "ss_rep"
                /\ IF fs[self] # NONE
                      THEN /\ /\ o' = [o EXCEPT ![self] = fs[self]]
                              /\ stack' = [stack EXCEPT ![self] = << [ procedure |->  "report",
                                                                       pc        |->  "ss_rm",
                                                                       lc        |->  lc[self],
                                                                       lp        |->  lp[self],
                                                                       g         |->  g[self],
                                                                       lv        |->  lv[self],
                                                                       wasSet    |->  wasSet[self],
                                                                       o         |->  o[self] ] >>
                                                                   \o stack[self]]
                           /\ lc' = [lc EXCEPT ![self] = 0]
                           /\ lp' = [lp EXCEPT ![self] = 0]
                           /\ g' = [g EXCEPT ![self] = 0]
                           /\ lv' = [lv EXCEPT ![self] = 0]
                           /\ wasSet' = [wasSet EXCEPT ![self] = FALSE]
                           /\ pc' = [pc EXCEPT ![self] = "sr_c"]
                      ELSE /\ pc' = [pc EXCEPT ![self] = "ss_runlock"]
                           /\ UNCHANGED << stack, o, lc, lp, g, lv, wasSet >>
                /\ UNCHANGED << regS, regR, nobj, closed, doneCh, hasCtr, 
                                ctrGen, curr, prev, gval, gflag, bR, bW, cR, 
                                cW, closeMu, delivered, promised, allIncs, 
                                negDelta, updc, upd, gdl, inflight, stale, 
                                objClosed, reacqClosed, closeCalled, 
                                closeReturned, lateCall, unflushed, rclosed, 
                                barrierOk, closeBeforeFlush, loopEndedOk, hnd, 
                                ticks, quiesced, ro, co, cur, visR, visS, 
                                wasClosed, due, fs, closedAtCall, h, ch, v, ip >>

ss_rm(self) == /\ pc[self] = "ss_rm"
               /\ /\ ro' = [ro EXCEPT ![self] = fs[self]]
                  /\ stack' = [stack EXCEPT ![self] = << [ procedure |->  "removeWithRLock",
                                                           pc        |->  "ss_rm2",
                                                           ro        |->  ro[self] ] >>
                                                       \o stack[self]]
               /\ pc' = [pc EXCEPT ![self] = "rm_runlock"]
               /\ UNCHANGED << regS, regR, nobj, closed, doneCh, hasCtr, 
                               ctrGen, curr, prev, gval, gflag, bR, bW, cR, cW, 
                               closeMu, delivered, promised, allIncs, negDelta, 
                               updc, upd, gdl, inflight, stale, objClosed, 
                               reacqClosed, closeCalled, closeReturned, 
                               lateCall, unflushed, rclosed, barrierOk, 
                               closeBeforeFlush, loopEndedOk, hnd, ticks, 
                               quiesced, o, lc, lp, g, lv, wasSet, co, cur, 
                               visR, visS, wasClosed, due, fs, closedAtCall, h, 
                               ch, v, ip >>

ss_rm2(self) == /\ pc[self] = "ss_rm2"
                /\ /\ ro' = [ro EXCEPT ![self] = fs[self]]
                   /\ stack' = [stack EXCEPT ![self] = << [ procedure |->  "removeWithRLock",
                                                            pc        |->  "ss_clr",
                                                            ro        |->  ro[self] ] >>
                                                        \o stack[self]]
                /\ pc' = [pc EXCEPT ![self] = "rm_runlock"]
                /\ UNCHANGED << regS, regR, nobj, closed, doneCh, hasCtr, 
                                ctrGen, curr, prev, gval, gflag, bR, bW, cR, 
                                cW, closeMu, delivered, promised, allIncs, 
                                negDelta, updc, upd, gdl, inflight, stale, 
                                objClosed, reacqClosed, closeCalled, 
                                closeReturned, lateCall, unflushed, rclosed, 
                                barrierOk, closeBeforeFlush, loopEndedOk, hnd, 
                                ticks, quiesced, o, lc, lp, g, lv, wasSet, co, 
                                cur, visR, visS, wasClosed, due, fs, 
                                closedAtCall, h, ch, v, ip >>

ss_clr(self) == /\ pc[self] = "ss_clr"
                /\ /\ co' = [co EXCEPT ![self] = fs[self]]
                   /\ stack' = [stack EXCEPT ![self] = << [ procedure |->  "clearMetrics",
                                                            pc        |->  "ss_runlock",
                                                            co        |->  co[self] ] >>
                                                        \o stack[self]]
                /\ pc' = [pc EXCEPT ![self] = "cm_c"]
                /\ UNCHANGED << regS, regR, nobj, closed, doneCh, hasCtr, 
                                ctrGen, curr, prev, gval, gflag, bR, bW, cR, 
                                cW, closeMu, delivered, promised, allIncs, 
                                negDelta, updc, upd, gdl, inflight, stale, 
                                objClosed, reacqClosed, closeCalled, 
                                closeReturned, lateCall, unflushed, rclosed, 
                                barrierOk, closeBeforeFlush, loopEndedOk, hnd, 
                                ticks, quiesced, o, lc, lp, g, lv, wasSet, ro, 
                                cur, visR, visS, wasClosed, due, fs, 
                                closedAtCall, h, ch, v, ip >>

ss_runlock(self) == /\ pc[self] = "ss_runlock"
                    /\ bR' = bR \ {self}
                    /\ pc' = [pc EXCEPT ![self] = "ss_lock"]
                    /\ UNCHANGED << regS, regR, nobj, closed, doneCh, hasCtr, 
                                    ctrGen, curr, prev, gval, gflag, bW, cR, 
                                    cW, closeMu, delivered, promised, allIncs, 
                                    negDelta, updc, upd, gdl, inflight, stale, 
                                    objClosed, reacqClosed, closeCalled, 
                                    closeReturned, lateCall, unflushed, 
                                    rclosed, barrierOk, closeBeforeFlush, 
                                    loopEndedOk, hnd, ticks, quiesced, stack, 
                                    o, lc, lp, g, lv, wasSet, ro, co, cur, 
                                    visR, visS, wasClosed, due, fs, 
                                    closedAtCall, h, ch, v, ip >>

ss_lock(self) == /\ pc[self] = "ss_lock"
                 /\ BFreeW
                 /\ bW' = self
                 /\ pc' = [pc EXCEPT ![self] = "ss_ins"]
                 /\ UNCHANGED << regS, regR, nobj, closed, doneCh, hasCtr, 
                                 ctrGen, curr, prev, gval, gflag, bR, cR, cW, 
                                 closeMu, delivered, promised, allIncs, 
                                 negDelta, updc, upd, gdl, inflight, stale, 
                                 objClosed, reacqClosed, closeCalled, 
                                 closeReturned, lateCall, unflushed, rclosed, 
                                 barrierOk, closeBeforeFlush, loopEndedOk, hnd, 
                                 ticks, quiesced, stack, o, lc, lp, g, lv, 
                                 wasSet, ro, co, cur, visR, visS, wasClosed, 
                                 due, fs, closedAtCall, h, ch, v, ip >>

ss_ins(self) == /\ pc[self] = "ss_ins"
                /\ IF regS # NONE /\ ~WeakNoRecheckUnderLock
                      THEN /\ hnd' = [hnd EXCEPT ![self] = regS]
                           /\ UNCHANGED << regS, nobj >>
                      ELSE /\ nobj' = nobj + 1
                           /\ regS' = nobj'
                           /\ hnd' = [hnd EXCEPT ![self] = nobj']
                /\ bW' = NOBODY
                /\ pc' = [pc EXCEPT ![self] = "ss_ret"]
                /\ UNCHANGED << regR, closed, doneCh, hasCtr, ctrGen, curr, 
                                prev, gval, gflag, bR, cR, cW, closeMu, 
                                delivered, promised, allIncs, negDelta, updc, 
                                upd, gdl, inflight, stale, objClosed, 
                                reacqClosed, closeCalled, closeReturned, 
                                lateCall, unflushed, rclosed, barrierOk, 
                                closeBeforeFlush, loopEndedOk, ticks, quiesced, 
                                stack, o, lc, lp, g, lv, wasSet, ro, co, cur, 
                                visR, visS, wasClosed, due, fs, closedAtCall, 
                                h, ch, v, ip >>

ss_ret(self) == /\ pc[self] = "ss_ret"
                /\ reacqClosed' = (reacqClosed \/ (hnd[self] # NONE /\ hnd[self] \in closedAtCall[self]))
                /\ pc' = [pc EXCEPT ![self] = Head(stack[self]).pc]
                /\ fs' = [fs EXCEPT ![self] = Head(stack[self]).fs]
                /\ closedAtCall' = [closedAtCall EXCEPT ![self] = Head(stack[self]).closedAtCall]
                /\ stack' = [stack EXCEPT ![self] = Tail(stack[self])]
                /\ UNCHANGED << regS, regR, nobj, closed, doneCh, hasCtr, 
                                ctrGen, curr, prev, gval, gflag, bR, bW, cR, 
                                cW, closeMu, delivered, promised, allIncs, 
                                negDelta, updc, upd, gdl, inflight, stale, 
                                objClosed, closeCalled, closeReturned, 
                                lateCall, unflushed, rclosed, barrierOk, 
                                closeBeforeFlush, loopEndedOk, hnd, ticks, 
                                quiesced, o, lc, lp, g, lv, wasSet, ro, co, 
                                cur, visR, visS, wasClosed, due, h, ch, v, ip >>

subscope(self) == ss_closed_check(self) \/ ss_rlock(self)
                     \/ ss_found_check(self) \/ ss_rep(self) \/ ss_rm(self)
                     \/ ss_rm2(self) \/ ss_clr(self) \/ ss_runlock(self)
                     \/ ss_lock(self) \/ ss_ins(self) \/ ss_ret(self)

gc_probe(self) == /\ pc[self] = "gc_probe"
                  /\ CFreeR(h[self])
                  /\ IF hasCtr[h[self]]
                        THEN /\ pc' = [pc EXCEPT ![self] = "c_inc"]
                        ELSE /\ pc' = [pc EXCEPT ![self] = "gc_lock"]
                  /\ UNCHANGED << regS, regR, nobj, closed, doneCh, hasCtr, 
                                  ctrGen, curr, prev, gval, gflag, bR, bW, cR, 
                                  cW, closeMu, delivered, promised, allIncs, 
                                  negDelta, updc, upd, gdl, inflight, stale, 
                                  objClosed, reacqClosed, closeCalled, 
                                  closeReturned, lateCall, unflushed, rclosed, 
                                  barrierOk, closeBeforeFlush, loopEndedOk, 
                                  hnd, ticks, quiesced, stack, o, lc, lp, g, 
                                  lv, wasSet, ro, co, cur, visR, visS, 
                                  wasClosed, due, fs, closedAtCall, h, ch, v, 
                                  ip >>

gc_lock(self) == /\ pc[self] = "gc_lock"
                 /\ CFreeW(h[self])
                 /\ IF ~hasCtr[h[self]]
                       THEN /\ hasCtr' = [hasCtr EXCEPT ![h[self]] = TRUE]
                            /\ ctrGen' = [ctrGen EXCEPT ![h[self]] = ctrGen[h[self]] + 1]
                       ELSE /\ TRUE
                            /\ UNCHANGED << hasCtr, ctrGen >>
                 /\ pc' = [pc EXCEPT ![self] = "c_inc"]
                 /\ UNCHANGED << regS, regR, nobj, closed, doneCh, curr, prev, 
                                 gval, gflag, bR, bW, cR, cW, closeMu, 
                                 delivered, promised, allIncs, negDelta, updc, 
                                 upd, gdl, inflight, stale, objClosed, 
                                 reacqClosed, closeCalled, closeReturned, 
                                 lateCall, unflushed, rclosed, barrierOk, 
                                 closeBeforeFlush, loopEndedOk, hnd, ticks, 
                                 quiesced, stack, o, lc, lp, g, lv, wasSet, ro, 
                                 co, cur, visR, visS, wasClosed, due, fs, 
                                 closedAtCall, h, ch, v, ip >>

c_inc(self) == /\ pc[self] = "c_inc"
               /\ curr' = [curr EXCEPT ![h[self]][ctrGen[h[self]]] = curr[h[self]][ctrGen[h[self]]] + 1]
               /\ allIncs' = allIncs + 1
               /\ IF h[self] \notin objClosed /\ ~closeCalled
                     THEN /\ promised' = promised + 1
                     ELSE /\ TRUE
                          /\ UNCHANGED promised
               /\ quiesced' = FALSE
               /\ pc' = [pc EXCEPT ![self] = Head(stack[self]).pc]
               /\ h' = [h EXCEPT ![self] = Head(stack[self]).h]
               /\ stack' = [stack EXCEPT ![self] = Tail(stack[self])]
               /\ UNCHANGED << regS, regR, nobj, closed, doneCh, hasCtr, 
                               ctrGen, prev, gval, gflag, bR, bW, cR, cW, 
                               closeMu, delivered, negDelta, updc, upd, gdl, 
                               inflight, stale, objClosed, reacqClosed, 
                               closeCalled, closeReturned, lateCall, unflushed, 
                               rclosed, barrierOk, closeBeforeFlush, 
                               loopEndedOk, hnd, ticks, o, lc, lp, g, lv, 
                               wasSet, ro, co, cur, visR, visS, wasClosed, due, 
                               fs, closedAtCall, ch, v, ip >>

inc(self) == gc_probe(self) \/ gc_lock(self) \/ c_inc(self)

sc_mu(self) == /\ pc[self] = "sc_mu"
               /\ TRUE
               /\ pc' = [pc EXCEPT ![self] = "sc_cas"]
               /\ UNCHANGED << regS, regR, nobj, closed, doneCh, hasCtr, 
                               ctrGen, curr, prev, gval, gflag, bR, bW, cR, cW, 
                               closeMu, delivered, promised, allIncs, negDelta, 
                               updc, upd, gdl, inflight, stale, objClosed, 
                               reacqClosed, closeCalled, closeReturned, 
                               lateCall, unflushed, rclosed, barrierOk, 
                               closeBeforeFlush, loopEndedOk, hnd, ticks, 
                               quiesced, stack, o, lc, lp, g, lv, wasSet, ro, 
                               co, cur, visR, visS, wasClosed, due, fs, 
                               closedAtCall, h, ch, v, ip >>

sc_cas(self) == /\ pc[self] = "sc_cas"
                /\ objClosed' = (objClosed \cup {ch[self]})
                /\ closed' = [closed EXCEPT ![ch[self]] = TRUE]
                /\ pc' = [pc EXCEPT ![self] = "sc_done"]
                /\ UNCHANGED << regS, regR, nobj, doneCh, hasCtr, ctrGen, curr, 
                                prev, gval, gflag, bR, bW, cR, cW, closeMu, 
                                delivered, promised, allIncs, negDelta, updc, 
                                upd, gdl, inflight, stale, reacqClosed, 
                                closeCalled, closeReturned, lateCall, 
                                unflushed, rclosed, barrierOk, 
                                closeBeforeFlush, loopEndedOk, hnd, ticks, 
                                quiesced, stack, o, lc, lp, g, lv, wasSet, ro, 
                                co, cur, visR, visS, wasClosed, due, fs, 
                                closedAtCall, h, ch, v, ip >>

sc_done(self) == /\ pc[self] = "sc_done"
                 /\ TRUE
                 /\ pc' = [pc EXCEPT ![self] = Head(stack[self]).pc]
                 /\ ch' = [ch EXCEPT ![self] = Head(stack[self]).ch]
                 /\ stack' = [stack EXCEPT ![self] = Tail(stack[self])]
                 /\ UNCHANGED << regS, regR, nobj, closed, doneCh, hasCtr, 
                                 ctrGen, curr, prev, gval, gflag, bR, bW, cR, 
                                 cW, closeMu, delivered, promised, allIncs, 
                                 negDelta, updc, upd, gdl, inflight, stale, 
                                 objClosed, reacqClosed, closeCalled, 
                                 closeReturned, lateCall, unflushed, rclosed, 
                                 barrierOk, closeBeforeFlush, loopEndedOk, hnd, 
                                 ticks, quiesced, o, lc, lp, g, lv, wasSet, ro, 
                                 co, cur, visR, visS, wasClosed, due, fs, 
                                 closedAtCall, h, v, ip >>

closesub(self) == sc_mu(self) \/ sc_cas(self) \/ sc_done(self)

gu_store_val(self) == /\ pc[self] = "gu_store_val"
                      /\ IF WeakFlagBeforeValue
                            THEN /\ gflag' = 1
                                 /\ gval' = gval
                            ELSE /\ gval' = v[self]
                                 /\ gflag' = gflag
                      /\ updc' = Append(updc, v[self])
                      /\ pc' = [pc EXCEPT ![self] = "gu_store_flag"]
                      /\ UNCHANGED << regS, regR, nobj, closed, doneCh, hasCtr, 
                                      ctrGen, curr, prev, bR, bW, cR, cW, 
                                      closeMu, delivered, promised, allIncs, 
                                      negDelta, upd, gdl, inflight, stale, 
                                      objClosed, reacqClosed, closeCalled, 
                                      closeReturned, lateCall, unflushed, 
                                      rclosed, barrierOk, closeBeforeFlush, 
                                      loopEndedOk, hnd, ticks, quiesced, stack, 
                                      o, lc, lp, g, lv, wasSet, ro, co, cur, 
                                      visR, visS, wasClosed, due, fs, 
                                      closedAtCall, h, ch, v, ip >>

gu_store_flag(self) == /\ pc[self] = "gu_store_flag"
                       /\ IF WeakFlagBeforeValue
                             THEN /\ gval' = v[self]
                                  /\ gflag' = gflag
                             ELSE /\ gflag' = 1
                                  /\ gval' = gval
                       /\ upd' = upd + 1
                       /\ pc' = [pc EXCEPT ![self] = Head(stack[self]).pc]
                       /\ v' = [v EXCEPT ![self] = Head(stack[self]).v]
                       /\ stack' = [stack EXCEPT ![self] = Tail(stack[self])]
                       /\ UNCHANGED << regS, regR, nobj, closed, doneCh, 
                                       hasCtr, ctrGen, curr, prev, bR, bW, cR, 
                                       cW, closeMu, delivered, promised, 
                                       allIncs, negDelta, updc, gdl, inflight, 
                                       stale, objClosed, reacqClosed, 
                                       closeCalled, closeReturned, lateCall, 
                                       unflushed, rclosed, barrierOk, 
                                       closeBeforeFlush, loopEndedOk, hnd, 
                                       ticks, quiesced, o, lc, lp, g, lv, 
                                       wasSet, ro, co, cur, visR, visS, 
                                       wasClosed, due, fs, closedAtCall, h, ch, 
                                       ip >>

update(self) == gu_store_val(self) \/ gu_store_flag(self)

a_loop(self) == /\ pc[self] = "a_loop"
                /\ IF ip[self] <= Len(Script[self])
                      THEN /\ IF Script[self][ip[self]] = "sub"
                                 THEN /\ stack' = [stack EXCEPT ![self] = << [ procedure |->  "subscope",
                                                                               pc        |->  "a_adv",
                                                                               fs        |->  fs[self],
                                                                               closedAtCall |->  closedAtCall[self] ] >>
                                                                           \o stack[self]]
                                      /\ fs' = [fs EXCEPT ![self] = NONE]
                                      /\ closedAtCall' = [closedAtCall EXCEPT ![self] = {}]
                                      /\ pc' = [pc EXCEPT ![self] = "ss_closed_check"]
                                      /\ UNCHANGED << h, ch, v >>
                                 ELSE /\ IF Script[self][ip[self]] = "inc"
                                            THEN /\ IF hnd[self] # NONE
                                                       THEN /\ /\ h' = [h EXCEPT ![self] = hnd[self]]
                                                               /\ stack' = [stack EXCEPT ![self] = << [ procedure |->  "inc",
                                                                                                        pc        |->  "a_adv",
                                                                                                        h         |->  h[self] ] >>
                                                                                                    \o stack[self]]
                                                            /\ pc' = [pc EXCEPT ![self] = "gc_probe"]
                                                       ELSE /\ pc' = [pc EXCEPT ![self] = "a_adv"]
                                                            /\ UNCHANGED << stack, 
                                                                            h >>
                                                 /\ UNCHANGED << ch, v >>
                                            ELSE /\ IF Script[self][ip[self]] = "rinc"
                                                       THEN /\ /\ h' = [h EXCEPT ![self] = ROOT]
                                                               /\ stack' = [stack EXCEPT ![self] = << [ procedure |->  "inc",
                                                                                                        pc        |->  "a_adv",
                                                                                                        h         |->  h[self] ] >>
                                                                                                    \o stack[self]]
                                                            /\ pc' = [pc EXCEPT ![self] = "gc_probe"]
                                                            /\ UNCHANGED << ch, 
                                                                            v >>
                                                       ELSE /\ IF Script[self][ip[self]] = "upd1"
                                                                  THEN /\ /\ stack' = [stack EXCEPT ![self] = << [ procedure |->  "update",
                                                                                                                   pc        |->  "a_adv",
                                                                                                                   v         |->  v[self] ] >>
                                                                                                               \o stack[self]]
                                                                          /\ v' = [v EXCEPT ![self] = 1]
                                                                       /\ pc' = [pc EXCEPT ![self] = "gu_store_val"]
                                                                       /\ ch' = ch
                                                                  ELSE /\ IF Script[self][ip[self]] = "upd2"
                                                                             THEN /\ /\ stack' = [stack EXCEPT ![self] = << [ procedure |->  "update",
                                                                                                                              pc        |->  "a_adv",
                                                                                                                              v         |->  v[self] ] >>
                                                                                                                          \o stack[self]]
                                                                                     /\ v' = [v EXCEPT ![self] = 2]
                                                                                  /\ pc' = [pc EXCEPT ![self] = "gu_store_val"]
                                                                                  /\ ch' = ch
                                                                             ELSE /\ IF Script[self][ip[self]] = "close"
                                                                                        THEN /\ IF hnd[self] # NONE
                                                                                                   THEN /\ /\ ch' = [ch EXCEPT ![self] = hnd[self]]
                                                                                                           /\ stack' = [stack EXCEPT ![self] = << [ procedure |->  "closesub",
                                                                                                                                                    pc        |->  "a_adv",
                                                                                                                                                    ch        |->  ch[self] ] >>
                                                                                                                                                \o stack[self]]
                                                                                                        /\ pc' = [pc EXCEPT ![self] = "sc_mu"]
                                                                                                   ELSE /\ pc' = [pc EXCEPT ![self] = "a_adv"]
                                                                                                        /\ UNCHANGED << stack, 
                                                                                                                        ch >>
                                                                                        ELSE /\ pc' = [pc EXCEPT ![self] = "a_adv"]
                                                                                             /\ UNCHANGED << stack, 
                                                                                                             ch >>
                                                                                  /\ v' = v
                                                            /\ h' = h
                                      /\ UNCHANGED << fs, closedAtCall >>
                      ELSE /\ pc' = [pc EXCEPT ![self] = "Done"]
                           /\ UNCHANGED << stack, fs, closedAtCall, h, ch, v >>
                /\ UNCHANGED << regS, regR, nobj, closed, doneCh, hasCtr, 
                                ctrGen, curr, prev, gval, gflag, bR, bW, cR, 
                                cW, closeMu, delivered, promised, allIncs, 
                                negDelta, updc, upd, gdl, inflight, stale, 
                                objClosed, reacqClosed, closeCalled, 
                                closeReturned, lateCall, unflushed, rclosed, 
                                barrierOk, closeBeforeFlush, loopEndedOk, hnd, 
                                ticks, quiesced, o, lc, lp, g, lv, wasSet, ro, 
                                co, cur, visR, visS, wasClosed, due, ip >>

a_adv(self) == /\ pc[self] = "a_adv"
               /\ ip' = [ip EXCEPT ![self] = ip[self] + 1]
               /\ pc' = [pc EXCEPT ![self] = "a_loop"]
               /\ UNCHANGED << regS, regR, nobj, closed, doneCh, hasCtr, 
                               ctrGen, curr, prev, gval, gflag, bR, bW, cR, cW, 
                               closeMu, delivered, promised, allIncs, negDelta, 
                               updc, upd, gdl, inflight, stale, objClosed, 
                               reacqClosed, closeCalled, closeReturned, 
                               lateCall, unflushed, rclosed, barrierOk, 
                               closeBeforeFlush, loopEndedOk, hnd, ticks, 
                               quiesced, stack, o, lc, lp, g, lv, wasSet, ro, 
                               co, cur, visR, visS, wasClosed, due, fs, 
                               closedAtCall, h, ch, v >>

app(self) == a_loop(self) \/ a_adv(self)

p_pass(self) == /\ pc[self] = "p_pass"
                /\ stack' = [stack EXCEPT ![self] = << [ procedure |->  "pass",
                                                         pc        |->  "Done",
                                                         cur       |->  cur[self],
                                                         visR      |->  visR[self],
                                                         visS      |->  visS[self],
                                                         wasClosed |->  wasClosed[self],
                                                         due       |->  due[self] ] >>
                                                     \o stack[self]]
                /\ cur' = [cur EXCEPT ![self] = NONE]
                /\ visR' = [visR EXCEPT ![self] = FALSE]
                /\ visS' = [visS EXCEPT ![self] = FALSE]
                /\ wasClosed' = [wasClosed EXCEPT ![self] = FALSE]
                /\ due' = [due EXCEPT ![self] = -1]
                /\ pc' = [pc EXCEPT ![self] = "rr_begin"]
                /\ UNCHANGED << regS, regR, nobj, closed, doneCh, hasCtr, 
                                ctrGen, curr, prev, gval, gflag, bR, bW, cR, 
                                cW, closeMu, delivered, promised, allIncs, 
                                negDelta, updc, upd, gdl, inflight, stale, 
                                objClosed, reacqClosed, closeCalled, 
                                closeReturned, lateCall, unflushed, rclosed, 
                                barrierOk, closeBeforeFlush, loopEndedOk, hnd, 
                                ticks, quiesced, o, lc, lp, g, lv, wasSet, ro, 
                                co, fs, closedAtCall, h, ch, v, ip >>

passer(self) == p_pass(self)

rl_select == /\ pc[TICK] = "rl_select"
             /\ IF HasLoop
                   THEN /\ \/ /\ doneCh
                              /\ pc' = [pc EXCEPT ![TICK] = "rl_exit"]
                              /\ ticks' = ticks
                           \/ /\ ticks < MaxTicks /\ ~doneCh
                              /\ ticks' = ticks + 1
                              /\ pc' = [pc EXCEPT ![TICK] = "rl_tick"]
                   ELSE /\ pc' = [pc EXCEPT ![TICK] = "rl_exit"]
                        /\ ticks' = ticks
             /\ UNCHANGED << regS, regR, nobj, closed, doneCh, hasCtr, ctrGen, 
                             curr, prev, gval, gflag, bR, bW, cR, cW, closeMu, 
                             delivered, promised, allIncs, negDelta, updc, upd, 
                             gdl, inflight, stale, objClosed, reacqClosed, 
                             closeCalled, closeReturned, lateCall, unflushed, 
                             rclosed, barrierOk, closeBeforeFlush, loopEndedOk, 
                             hnd, quiesced, stack, o, lc, lp, g, lv, wasSet, 
                             ro, co, cur, visR, visS, wasClosed, due, fs, 
                             closedAtCall, h, ch, v, ip >>

rl_tick == /\ pc[TICK] = "rl_tick"
           /\ IF closed[ROOT]
                 THEN /\ pc' = [pc EXCEPT ![TICK] = "rl_select"]
                 ELSE /\ pc' = [pc EXCEPT ![TICK] = "rl_pass"]
           /\ UNCHANGED << regS, regR, nobj, closed, doneCh, hasCtr, ctrGen, 
                           curr, prev, gval, gflag, bR, bW, cR, cW, closeMu, 
                           delivered, promised, allIncs, negDelta, updc, upd, 
                           gdl, inflight, stale, objClosed, reacqClosed, 
                           closeCalled, closeReturned, lateCall, unflushed, 
                           rclosed, barrierOk, closeBeforeFlush, loopEndedOk, 
                           hnd, ticks, quiesced, stack, o, lc, lp, g, lv, 
                           wasSet, ro, co, cur, visR, visS, wasClosed, due, fs, 
                           closedAtCall, h, ch, v, ip >>

rl_pass == /\ pc[TICK] = "rl_pass"
           /\ stack' = [stack EXCEPT ![TICK] = << [ procedure |->  "pass",
                                                    pc        |->  "rl_select",
                                                    cur       |->  cur[TICK],
                                                    visR      |->  visR[TICK],
                                                    visS      |->  visS[TICK],
                                                    wasClosed |->  wasClosed[TICK],
                                                    due       |->  due[TICK] ] >>
                                                \o stack[TICK]]
           /\ cur' = [cur EXCEPT ![TICK] = NONE]
           /\ visR' = [visR EXCEPT ![TICK] = FALSE]
           /\ visS' = [visS EXCEPT ![TICK] = FALSE]
           /\ wasClosed' = [wasClosed EXCEPT ![TICK] = FALSE]
           /\ due' = [due EXCEPT ![TICK] = -1]
           /\ pc' = [pc EXCEPT ![TICK] = "rr_begin"]
           /\ UNCHANGED << regS, regR, nobj, closed, doneCh, hasCtr, ctrGen, 
                           curr, prev, gval, gflag, bR, bW, cR, cW, closeMu, 
                           delivered, promised, allIncs, negDelta, updc, upd, 
                           gdl, inflight, stale, objClosed, reacqClosed, 
                           closeCalled, closeReturned, lateCall, unflushed, 
                           rclosed, barrierOk, closeBeforeFlush, loopEndedOk, 
                           hnd, ticks, quiesced, o, lc, lp, g, lv, wasSet, ro, 
                           co, fs, closedAtCall, h, ch, v, ip >>

rl_exit == /\ pc[TICK] = "rl_exit"
           /\ TRUE
           /\ pc' = [pc EXCEPT ![TICK] = "Done"]
           /\ UNCHANGED << regS, regR, nobj, closed, doneCh, hasCtr, ctrGen, 
                           curr, prev, gval, gflag, bR, bW, cR, cW, closeMu, 
                           delivered, promised, allIncs, negDelta, updc, upd, 
                           gdl, inflight, stale, objClosed, reacqClosed, 
                           closeCalled, closeReturned, lateCall, unflushed, 
                           rclosed, barrierOk, closeBeforeFlush, loopEndedOk, 
                           hnd, ticks, quiesced, stack, o, lc, lp, g, lv, 
                           wasSet, ro, co, cur, visR, visS, wasClosed, due, fs, 
                           closedAtCall, h, ch, v, ip >>

ticker == rl_select \/ rl_tick \/ rl_pass \/ rl_exit

cl_call(self) == /\ pc[self] = "cl_call"
                 /\ closeCalled' = TRUE
                 /\ pc' = [pc EXCEPT ![self] = "cl_mu"]
                 /\ UNCHANGED << regS, regR, nobj, closed, doneCh, hasCtr, 
                                 ctrGen, curr, prev, gval, gflag, bR, bW, cR, 
                                 cW, closeMu, delivered, promised, allIncs, 
                                 negDelta, updc, upd, gdl, inflight, stale, 
                                 objClosed, reacqClosed, closeReturned, 
                                 lateCall, unflushed, rclosed, barrierOk, 
                                 closeBeforeFlush, loopEndedOk, hnd, ticks, 
                                 quiesced, stack, o, lc, lp, g, lv, wasSet, ro, 
                                 co, cur, visR, visS, wasClosed, due, fs, 
                                 closedAtCall, h, ch, v, ip >>

cl_mu(self) == /\ pc[self] = "cl_mu"
               /\ IF ~DevNoCloseMutex
                     THEN /\ closeMu = NOBODY
                          /\ closeMu' = self
                     ELSE /\ TRUE
                          /\ UNCHANGED closeMu
               /\ pc' = [pc EXCEPT ![self] = "cl_cas"]
               /\ UNCHANGED << regS, regR, nobj, closed, doneCh, hasCtr, 
                               ctrGen, curr, prev, gval, gflag, bR, bW, cR, cW, 
                               delivered, promised, allIncs, negDelta, updc, 
                               upd, gdl, inflight, stale, objClosed, 
                               reacqClosed, closeCalled, closeReturned, 
                               lateCall, unflushed, rclosed, barrierOk, 
                               closeBeforeFlush, loopEndedOk, hnd, ticks, 
                               quiesced, stack, o, lc, lp, g, lv, wasSet, ro, 
                               co, cur, visR, visS, wasClosed, due, fs, 
                               closedAtCall, h, ch, v, ip >>

cl_cas(self) == /\ pc[self] = "cl_cas"
                /\ IF closed[ROOT]
                      THEN /\ pc' = [pc EXCEPT ![self] = "cl_unmu"]
                           /\ UNCHANGED closed
                      ELSE /\ closed' = [closed EXCEPT ![ROOT] = TRUE]
                           /\ pc' = [pc EXCEPT ![self] = "cl_done"]
                /\ UNCHANGED << regS, regR, nobj, doneCh, hasCtr, ctrGen, curr, 
                                prev, gval, gflag, bR, bW, cR, cW, closeMu, 
                                delivered, promised, allIncs, negDelta, updc, 
                                upd, gdl, inflight, stale, objClosed, 
                                reacqClosed, closeCalled, closeReturned, 
                                lateCall, unflushed, rclosed, barrierOk, 
                                closeBeforeFlush, loopEndedOk, hnd, ticks, 
                                quiesced, stack, o, lc, lp, g, lv, wasSet, ro, 
                                co, cur, visR, visS, wasClosed, due, fs, 
                                closedAtCall, h, ch, v, ip >>

cl_done(self) == /\ pc[self] = "cl_done"
                 /\ doneCh' = TRUE
                 /\ pc' = [pc EXCEPT ![self] = "cl_wait"]
                 /\ UNCHANGED << regS, regR, nobj, closed, hasCtr, ctrGen, 
                                 curr, prev, gval, gflag, bR, bW, cR, cW, 
                                 closeMu, delivered, promised, allIncs, 
                                 negDelta, updc, upd, gdl, inflight, stale, 
                                 objClosed, reacqClosed, closeCalled, 
                                 closeReturned, lateCall, unflushed, rclosed, 
                                 barrierOk, closeBeforeFlush, loopEndedOk, hnd, 
                                 ticks, quiesced, stack, o, lc, lp, g, lv, 
                                 wasSet, ro, co, cur, visR, visS, wasClosed, 
                                 due, fs, closedAtCall, h, ch, v, ip >>

cl_wait(self) == /\ pc[self] = "cl_wait"
                 /\ IF ~DevCloseNoWait
                       THEN /\ pc[TICK] = "Done"
                       ELSE /\ TRUE
                 /\ pc' = [pc EXCEPT ![self] = "cl_report"]
                 /\ UNCHANGED << regS, regR, nobj, closed, doneCh, hasCtr, 
                                 ctrGen, curr, prev, gval, gflag, bR, bW, cR, 
                                 cW, closeMu, delivered, promised, allIncs, 
                                 negDelta, updc, upd, gdl, inflight, stale, 
                                 objClosed, reacqClosed, closeCalled, 
                                 closeReturned, lateCall, unflushed, rclosed, 
                                 barrierOk, closeBeforeFlush, loopEndedOk, hnd, 
                                 ticks, quiesced, stack, o, lc, lp, g, lv, 
                                 wasSet, ro, co, cur, visR, visS, wasClosed, 
                                 due, fs, closedAtCall, h, ch, v, ip >>

cl_report(self) == /\ pc[self] = "cl_report"
                   /\ IF ~WeakNoFinalPass
                         THEN /\ stack' = [stack EXCEPT ![self] = << [ procedure |->  "pass",
                                                                       pc        |->  "cl_purge",
                                                                       cur       |->  cur[self],
                                                                       visR      |->  visR[self],
                                                                       visS      |->  visS[self],
                                                                       wasClosed |->  wasClosed[self],
                                                                       due       |->  due[self] ] >>
                                                                   \o stack[self]]
                              /\ cur' = [cur EXCEPT ![self] = NONE]
                              /\ visR' = [visR EXCEPT ![self] = FALSE]
                              /\ visS' = [visS EXCEPT ![self] = FALSE]
                              /\ wasClosed' = [wasClosed EXCEPT ![self] = FALSE]
                              /\ due' = [due EXCEPT ![self] = -1]
                              /\ pc' = [pc EXCEPT ![self] = "rr_begin"]
                         ELSE /\ pc' = [pc EXCEPT ![self] = "cl_purge"]
                              /\ UNCHANGED << stack, cur, visR, visS, 
                                              wasClosed, due >>
                   /\ UNCHANGED << regS, regR, nobj, closed, doneCh, hasCtr, 
                                   ctrGen, curr, prev, gval, gflag, bR, bW, cR, 
                                   cW, closeMu, delivered, promised, allIncs, 
                                   negDelta, updc, upd, gdl, inflight, stale, 
                                   objClosed, reacqClosed, closeCalled, 
                                   closeReturned, lateCall, unflushed, rclosed, 
                                   barrierOk, closeBeforeFlush, loopEndedOk, 
                                   hnd, ticks, quiesced, o, lc, lp, g, lv, 
                                   wasSet, ro, co, fs, closedAtCall, h, ch, v, 
                                   ip >>

cl_purge(self) == /\ pc[self] = "cl_purge"
                  /\ IF ~DevPurgeAnyPass
                        THEN /\ stack' = [stack EXCEPT ![self] = << [ procedure |->  "purge",
                                                                      pc        |->  "cl_rclose" ] >>
                                                                  \o stack[self]]
                             /\ pc' = [pc EXCEPT ![self] = "pg_lock"]
                        ELSE /\ pc' = [pc EXCEPT ![self] = "cl_rclose"]
                             /\ stack' = stack
                  /\ UNCHANGED << regS, regR, nobj, closed, doneCh, hasCtr, 
                                  ctrGen, curr, prev, gval, gflag, bR, bW, cR, 
                                  cW, closeMu, delivered, promised, allIncs, 
                                  negDelta, updc, upd, gdl, inflight, stale, 
                                  objClosed, reacqClosed, closeCalled, 
                                  closeReturned, lateCall, unflushed, rclosed, 
                                  barrierOk, closeBeforeFlush, loopEndedOk, 
                                  hnd, ticks, quiesced, o, lc, lp, g, lv, 
                                  wasSet, ro, co, cur, visR, visS, wasClosed, 
                                  due, fs, closedAtCall, h, ch, v, ip >>

cl_rclose(self) == /\ pc[self] = "cl_rclose"
                   /\ rclosed' = rclosed + 1
                   /\ closeBeforeFlush' = (closeBeforeFlush \/ unflushed)
                   /\ lateCall' = (lateCall \/ closeReturned)
                   /\ pc' = [pc EXCEPT ![self] = "cl_unmu"]
                   /\ UNCHANGED << regS, regR, nobj, closed, doneCh, hasCtr, 
                                   ctrGen, curr, prev, gval, gflag, bR, bW, cR, 
                                   cW, closeMu, delivered, promised, allIncs, 
                                   negDelta, updc, upd, gdl, inflight, stale, 
                                   objClosed, reacqClosed, closeCalled, 
                                   closeReturned, unflushed, barrierOk, 
                                   loopEndedOk, hnd, ticks, quiesced, stack, o, 
                                   lc, lp, g, lv, wasSet, ro, co, cur, visR, 
                                   visS, wasClosed, due, fs, closedAtCall, h, 
                                   ch, v, ip >>

cl_unmu(self) == /\ pc[self] = "cl_unmu"
                 /\ IF closeMu = self
                       THEN /\ closeMu' = NOBODY
                       ELSE /\ TRUE
                            /\ UNCHANGED closeMu
                 /\ pc' = [pc EXCEPT ![self] = "cl_ret"]
                 /\ UNCHANGED << regS, regR, nobj, closed, doneCh, hasCtr, 
                                 ctrGen, curr, prev, gval, gflag, bR, bW, cR, 
                                 cW, delivered, promised, allIncs, negDelta, 
                                 updc, upd, gdl, inflight, stale, objClosed, 
                                 reacqClosed, closeCalled, closeReturned, 
                                 lateCall, unflushed, rclosed, barrierOk, 
                                 closeBeforeFlush, loopEndedOk, hnd, ticks, 
                                 quiesced, stack, o, lc, lp, g, lv, wasSet, ro, 
                                 co, cur, visR, visS, wasClosed, due, fs, 
                                 closedAtCall, h, ch, v, ip >>

cl_ret(self) == /\ pc[self] = "cl_ret"
                /\ barrierOk' = (barrierOk /\ (promised <= delivered) /\ ~unflushed)
                /\ loopEndedOk' = (loopEndedOk /\ (pc[TICK] = "Done"))
                /\ closeReturned' = TRUE
                /\ pc' = [pc EXCEPT ![self] = "Done"]
                /\ UNCHANGED << regS, regR, nobj, closed, doneCh, hasCtr, 
                                ctrGen, curr, prev, gval, gflag, bR, bW, cR, 
                                cW, closeMu, delivered, promised, allIncs, 
                                negDelta, updc, upd, gdl, inflight, stale, 
                                objClosed, reacqClosed, closeCalled, lateCall, 
                                unflushed, rclosed, closeBeforeFlush, hnd, 
                                ticks, quiesced, stack, o, lc, lp, g, lv, 
                                wasSet, ro, co, cur, visR, visS, wasClosed, 
                                due, fs, closedAtCall, h, ch, v, ip >>

closer(self) == cl_call(self) \/ cl_mu(self) \/ cl_cas(self)
                   \/ cl_done(self) \/ cl_wait(self) \/ cl_report(self)
                   \/ cl_purge(self) \/ cl_rclose(self) \/ cl_unmu(self)
                   \/ cl_ret(self)

f_wait == /\ pc[FINAL] = "f_wait"
          /\ \A t \in Apps \cup Passers \cup Closers : pc[t] = "Done"
          /\ ~HasLoop \/ Closers # {} \/ ticks = MaxTicks
          /\ pc[TICK] \in {"Done", "rl_select"}
          /\ pc' = [pc EXCEPT ![FINAL] = "f_pass"]
          /\ UNCHANGED << regS, regR, nobj, closed, doneCh, hasCtr, ctrGen, 
                          curr, prev, gval, gflag, bR, bW, cR, cW, closeMu, 
                          delivered, promised, allIncs, negDelta, updc, upd, 
                          gdl, inflight, stale, objClosed, reacqClosed, 
                          closeCalled, closeReturned, lateCall, unflushed, 
                          rclosed, barrierOk, closeBeforeFlush, loopEndedOk, 
                          hnd, ticks, quiesced, stack, o, lc, lp, g, lv, 
                          wasSet, ro, co, cur, visR, visS, wasClosed, due, fs, 
                          closedAtCall, h, ch, v, ip >>

f_pass == /\ pc[FINAL] = "f_pass"
          /\ IF ~closed[ROOT]
                THEN /\ stack' = [stack EXCEPT ![FINAL] = << [ procedure |->  "pass",
                                                               pc        |->  "f_q",
                                                               cur       |->  cur[FINAL],
                                                               visR      |->  visR[FINAL],
                                                               visS      |->  visS[FINAL],
                                                               wasClosed |->  wasClosed[FINAL],
                                                               due       |->  due[FINAL] ] >>
                                                           \o stack[FINAL]]
                     /\ cur' = [cur EXCEPT ![FINAL] = NONE]
                     /\ visR' = [visR EXCEPT ![FINAL] = FALSE]
                     /\ visS' = [visS EXCEPT ![FINAL] = FALSE]
                     /\ wasClosed' = [wasClosed EXCEPT ![FINAL] = FALSE]
                     /\ due' = [due EXCEPT ![FINAL] = -1]
                     /\ pc' = [pc EXCEPT ![FINAL] = "rr_begin"]
                ELSE /\ pc' = [pc EXCEPT ![FINAL] = "f_q"]
                     /\ UNCHANGED << stack, cur, visR, visS, wasClosed, due >>
          /\ UNCHANGED << regS, regR, nobj, closed, doneCh, hasCtr, ctrGen, 
                          curr, prev, gval, gflag, bR, bW, cR, cW, closeMu, 
                          delivered, promised, allIncs, negDelta, updc, upd, 
                          gdl, inflight, stale, objClosed, reacqClosed, 
                          closeCalled, closeReturned, lateCall, unflushed, 
                          rclosed, barrierOk, closeBeforeFlush, loopEndedOk, 
                          hnd, ticks, quiesced, o, lc, lp, g, lv, wasSet, ro, 
                          co, fs, closedAtCall, h, ch, v, ip >>

f_q == /\ pc[FINAL] = "f_q"
       /\ quiesced' = TRUE
       /\ pc' = [pc EXCEPT ![FINAL] = "Done"]
       /\ UNCHANGED << regS, regR, nobj, closed, doneCh, hasCtr, ctrGen, curr, 
                       prev, gval, gflag, bR, bW, cR, cW, closeMu, delivered, 
                       promised, allIncs, negDelta, updc, upd, gdl, inflight, 
                       stale, objClosed, reacqClosed, closeCalled, 
                       closeReturned, lateCall, unflushed, rclosed, barrierOk, 
                       closeBeforeFlush, loopEndedOk, hnd, ticks, stack, o, lc, 
                       lp, g, lv, wasSet, ro, co, cur, visR, visS, wasClosed, 
                       due, fs, closedAtCall, h, ch, v, ip >>

final == f_wait \/ f_pass \/ f_q

(* Allow infinite stuttering to prevent deadlock on termination. *)
Terminating == /\ \A self \in ProcSet: pc[self] = "Done"
               /\ UNCHANGED vars

Next == ticker \/ final
           \/ (\E self \in ProcSet:  \/ report(self) \/ removeWithRLock(self)
                                     \/ clearMetrics(self) \/ pass(self)
                                     \/ purge(self) \/ subscope(self) \/ inc(self)
                                     \/ closesub(self) \/ update(self))
           \/ (\E self \in Apps: app(self))
           \/ (\E self \in Passers: passer(self))
           \/ (\E self \in Closers: closer(self))
           \/ Terminating

Spec == /\ Init /\ [][Next]_vars
        /\ \A self \in Apps : /\ WF_vars(app(self))
                              /\ WF_vars(subscope(self))
                              /\ WF_vars(inc(self))
                              /\ WF_vars(update(self))
                              /\ WF_vars(closesub(self))
                              /\ WF_vars(report(self))
                              /\ WF_vars(removeWithRLock(self))
                              /\ WF_vars(clearMetrics(self))
        /\ \A self \in Passers : /\ WF_vars(passer(self))
                                 /\ WF_vars(pass(self))
                                 /\ WF_vars(report(self))
                                 /\ WF_vars(removeWithRLock(self))
                                 /\ WF_vars(clearMetrics(self))
                                 /\ WF_vars(purge(self))
        /\ /\ WF_vars(ticker)
           /\ WF_vars(pass(TICK))
           /\ WF_vars(report(TICK))
           /\ WF_vars(removeWithRLock(TICK))
           /\ WF_vars(clearMetrics(TICK))
           /\ WF_vars(purge(TICK))
        /\ \A self \in Closers : /\ WF_vars(closer(self))
                                 /\ WF_vars(pass(self))
                                 /\ WF_vars(purge(self))
                                 /\ WF_vars(report(self))
                                 /\ WF_vars(removeWithRLock(self))
                                 /\ WF_vars(clearMetrics(self))
        /\ /\ WF_vars(final)
           /\ WF_vars(pass(FINAL))
           /\ WF_vars(report(FINAL))
           /\ WF_vars(removeWithRLock(FINAL))
           /\ WF_vars(clearMetrics(FINAL))
           /\ WF_vars(purge(FINAL))

Termination == <>(\A self \in ProcSet: pc[self] = "Done")

\* END TRANSLATION

---------------------------------------------------------------------------
(* Properties: same names as in TallyObs *)
NeverAhead == delivered <= allIncs
NoNegativeDelta == ~negDelta
Conservation == quiesced => (promised <= delivered /\ delivered <= allIncs)
GaugeAuthentic == \A i \in 1..Len(gdl) : \E j \in 1..Len(updc) : updc[j] = gdl[i]
GaugeFresh == ~stale
GaugeCountBound == Len(gdl) <= upd
ReacquireFresh == ~reacqClosed
CloseBarrier == barrierOk
QuietAfterClose == ~lateCall
ReporterClosedOnce == rclosed <= 1
ReporterClosedAfterFlush == ~closeBeforeFlush
LoopEnded == loopEndedOk
LockOrder == \A t \in bR : bW # t     \* nobody holds the shard lock both ways
=============================================================================
