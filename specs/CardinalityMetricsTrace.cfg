SPECIFICATION TraceSpec
CONSTANTS
  MaxScopes = 100
  MaxOps = 1000000
  AsIsDoubleCountsAliased = TRUE
  WeakRootPerShard = FALSE
  WeakCountsTimers = FALSE
CHECK_DEADLOCK FALSE
