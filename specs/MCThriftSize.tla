---------------------------- MODULE MCThriftSize ----------------------------
EXTENDS ThriftSize
TagLists == { <<>>, << <<1, 1>> >>, << <<1, 0>>, <<200, 3>> >> }
MCShapes == {[name |-> n, type |-> 1, count |-> c, timer |-> t, ts |-> s, tags |-> [set |-> st, list |-> tl]] :
               n \in {0, 1, 200}, c \in {1, 10}, t \in {1, 10}, s \in {9, 10}, st \in BOOLEAN, tl \in TagLists}
=============================================================================
