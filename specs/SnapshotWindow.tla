--------------------------- MODULE SnapshotWindow ---------------------------
(***************************************************************************)
(* A test scope's Snapshot taken WHILE other goroutines record (C11, last  *)
(* clause of the quantifier).  Counters only carry the argument: an        *)
(* increment is three steps (call, the atomic add, return), a snapshot is  *)
(* call, one read per counter in any order, return.  What a concurrent     *)
(* snapshot may show for a counter is bounded by what had RETURNED when    *)
(* the snapshot was called (lo) and what had been CALLED when it returned  *)
(* (hi); timers are the same statement about the multiset of recorded      *)
(* values, gauges about the set of candidate last updates.                 *)
(***************************************************************************)
EXTENDS Integers, FiniteSets, TLC
CONSTANTS Recorders, Counters, MaxIncs,
          WeakSnapshotReadsReportedValue   \* the snapshot shows what was last handed to a reporter (prev) instead of the running total
VARIABLES pc, tgt, started, completed, value, snap, lo, hi, toRead, ninc
vars == <<pc, tgt, started, completed, value, snap, lo, hi, toRead, ninc>>
Init == /\ pc = [r \in Recorders |-> "idle"] /\ tgt = [r \in Recorders |-> CHOOSE c \in Counters : TRUE]
        /\ started = [c \in Counters |-> 0] /\ completed = [c \in Counters |-> 0] /\ value = [c \in Counters |-> 0]
        /\ snap = [c \in Counters |-> -1] /\ lo = [c \in Counters |-> 0] /\ hi = [c \in Counters |-> 0] /\ toRead = {} /\ ninc = 0
IncCall(r, c) == /\ pc[r] = "idle" /\ ninc < MaxIncs /\ ninc' = ninc + 1 /\ pc' = [pc EXCEPT ![r] = "add"] /\ tgt' = [tgt EXCEPT ![r] = c]
                 /\ started' = [started EXCEPT ![c] = @ + 1] /\ UNCHANGED <<completed, value, snap, lo, hi, toRead>>
IncAdd(r) == /\ pc[r] = "add" /\ value' = [value EXCEPT ![tgt[r]] = @ + 1] /\ pc' = [pc EXCEPT ![r] = "ret"]
             /\ UNCHANGED <<tgt, started, completed, snap, lo, hi, toRead, ninc>>
IncRet(r) == /\ pc[r] = "ret" /\ completed' = [completed EXCEPT ![tgt[r]] = @ + 1] /\ pc' = [pc EXCEPT ![r] = "idle"]
             /\ UNCHANGED <<tgt, started, value, snap, lo, hi, toRead, ninc>>
SnapCall == /\ toRead = {} /\ \A c \in Counters : snap[c] = -1
            /\ lo' = completed /\ toRead' = Counters /\ UNCHANGED <<pc, tgt, started, completed, value, snap, hi, ninc>>
SnapRead(c) == /\ c \in toRead /\ toRead' = toRead \ {c}
               /\ snap' = [snap EXCEPT ![c] = IF WeakSnapshotReadsReportedValue THEN 0 ELSE value[c]]
               /\ hi' = IF toRead' = {} THEN started ELSE hi
               /\ UNCHANGED <<pc, tgt, started, completed, value, lo, ninc>>
Next == (\E r \in Recorders : (\E c \in Counters : IncCall(r, c)) \/ IncAdd(r) \/ IncRet(r)) \/ SnapCall \/ \E c \in Counters : SnapRead(c)
Spec == Init /\ [][Next]_vars
SnapshotDone == toRead = {} /\ \A c \in Counters : snap[c] # -1
WindowBound == SnapshotDone => \A c \in Counters : lo[c] <= snap[c] /\ snap[c] <= hi[c]
=============================================================================
