---------------------------- MODULE MCTallyCore ----------------------------
EXTENDS TallyCore
(* scripts and views for the model-checking configurations of TallyCore *)
ScriptC01 == [a \in {"a1"} |-> <<"rinc", "rinc">>]
ScriptC02 == [a \in {"a1"} |-> <<"upd1", "upd2">>]
ScriptC07a == [a \in {"a1"} |-> <<"sub", "inc", "close", "sub", "inc">>]
ScriptC07b == [a \in {"a1", "a2"} |-> <<"sub", "inc", "close", "sub", "inc">>]
ScriptC08 == [a \in {"a1"} |-> <<"rinc", "sub", "inc", "rinc">>]
ScriptC08g == [a \in {"a1"} |-> <<"rinc", "upd1", "sub", "inc">>]
ScriptC09 == [a \in {"a1", "a2"} |-> <<"sub", "inc">>]
NoApps == [a \in {} |-> <<>>]
=============================================================================
