------------------------ MODULE SnapshotWindowTrace ------------------------
(***************************************************************************)
(* Snapshots of a real test scope taken while other goroutines record.     *)
(* Events are logged under one mutex, "call" before and "ret" after the    *)
(* operation, so the log order is consistent with real time.               *)
(*  new   {}                                                               *)
(*  call / ret  {m, n}         n increments / updates / records on metric m *)
(*                             (gauge and timer arguments are 1, 2, 3, ... *)
(*                             from the metric's single writer)            *)
(*  snapcall {s}  snapret {s, vals:[[m, kind, v, ok]...]}                  *)
(*        v = counter value | gauge value | number of timer values;        *)
(*        ok = the timer values are exactly 1..v in order                  *)
(* WindowBound of SnapshotWindow.tla: completed at snapcall <= v <=        *)
(* started at snapret, per metric.                                         *)
(***************************************************************************)
EXTENDS Integers, Sequences, FiniteSets, TLC, Json
VARIABLES l, st, co, los
TraceLog == ndJsonDeserialize("trace.ndjson")
Fail(c) == PrintT(<<"FAIL", l, c>>)
Get(f, k) == IF k \in DOMAIN f THEN f[k] ELSE 0
Put(f, k, v) == [x \in DOMAIN f \cup {k} |-> IF x = k THEN v ELSE f[x]]
TInit == l = 1 /\ st = <<>> /\ co = <<>> /\ los = <<>>
TNext ==
  /\ l <= Len(TraceLog)
  /\ LET r == TraceLog[l] IN
     CASE r.e = "new" -> st' = <<>> /\ co' = <<>> /\ los' = <<>>
       [] r.e = "call" -> st' = Put(st, r.m, Get(st, r.m) + r.n) /\ UNCHANGED <<co, los>>
       [] r.e = "ret" -> co' = Put(co, r.m, Get(co, r.m) + r.n) /\ UNCHANGED <<st, los>>
       [] r.e = "snapcall" -> los' = Put(los, r.s, co) /\ UNCHANGED <<st, co>>
       [] r.e = "snapret" ->
            /\ UNCHANGED <<st, co, los>>
            /\ LET lo == los[r.s] IN
               IF \E i \in 1..Len(r.vals) : ~r.vals[i][4] THEN Fail("SnapshotTimersInOrder")
               ELSE IF \E i \in 1..Len(r.vals) : r.vals[i][3] < Get(lo, r.vals[i][1]) THEN Fail("WindowBound:missing-what-had-returned-before-the-snapshot-was-called")
               ELSE IF \E i \in 1..Len(r.vals) : r.vals[i][3] > Get(st, r.vals[i][1]) THEN Fail("WindowBound:more-than-was-called-before-the-snapshot-returned")
               ELSE IF \E m \in DOMAIN lo : lo[m] > 0 /\ ~\E i \in 1..Len(r.vals) : r.vals[i][1] = m THEN Fail("WindowBound:metric-missing-from-snapshot")
               ELSE TRUE
       [] OTHER -> UNCHANGED <<st, co, los>>
  /\ l' = l + 1
TraceSpec == TInit /\ [][TNext]_<<l, st, co, los>>
=============================================================================
