SPECIFICATION TraceSpec
CONSTANTS
  MaxLen = 4
  DevFFFDAllowedPassesInvalid = FALSE
  WeakExclusiveRangeEnd = FALSE
  WeakNoBackfill = FALSE
  WeakResultAliasesBuffer = FALSE
CHECK_DEADLOCK FALSE
