----------------------------- MODULE Instrument -----------------------------
(***************************************************************************)
(* Stopwatches (Timer.Start / Histogram.Start, Stopwatch.Stop) and the     *)
(* instrumented call wrapper (instrument.Call.Exec) over an abstract       *)
(* clock.  Serves C10.                                                     *)
(***************************************************************************)
EXTENDS Integers, Sequences, FiniteSets, TLC

CONSTANTS MaxClk, MaxSw, MaxExec,
          WeakStopwatchUsesStart,  \* weakening: Stop records the start reading instead of the difference
          WeakBothCounters,        \* weakening: an error increments the success counter too
          WeakExecTwice            \* weakening: the function is run again on error

VARIABLES clk,        \* abstract clock (the package's now())
          started,    \* stopwatch id -> clock reading at Start
          stoppedAt,  \* stopwatch id -> clock reading at Stop (ghost)
          recorded,   \* stopwatch id -> duration recorded by Stop
          nsw,
          execs,      \* sequence of [outcome, ran, lat, succ, errs, same]
          nexec

ivars == <<clk, started, stoppedAt, recorded, nsw, execs, nexec>>

IInit == clk = 0 /\ started = <<>> /\ stoppedAt = <<>> /\ recorded = <<>> /\ nsw = 0 /\ execs = <<>> /\ nexec = 0

Tick(d) == clk + d <= MaxClk /\ clk' = clk + d /\ UNCHANGED <<started, stoppedAt, recorded, nsw, execs, nexec>>

Start == /\ nsw < MaxSw
         /\ nsw' = nsw + 1
         /\ started' = started @@ ((nsw + 1) :> clk)
         /\ UNCHANGED <<clk, stoppedAt, recorded, execs, nexec>>

Stop(i) == /\ i \in DOMAIN started /\ i \notin DOMAIN recorded
           /\ stoppedAt' = stoppedAt @@ (i :> clk)
           /\ recorded' = recorded @@ (i :> IF WeakStopwatchUsesStart THEN started[i] ELSE clk - started[i])
           /\ UNCHANGED <<clk, started, nsw, execs, nexec>>

(* instrument.Call.Exec(f) with f returning nil ("ok") or an error ("err"); the call takes d clock units *)
Exec(outcome, d) ==
  /\ nexec < MaxExec /\ clk + d <= MaxClk
  /\ nexec' = nexec + 1
  /\ clk' = clk + d
  /\ execs' = Append(execs, [outcome |-> outcome,
                             ran |-> IF WeakExecTwice /\ outcome = "err" THEN 2 ELSE 1,
                             lat |-> <<d>>,
                             succ |-> IF outcome = "ok" \/ WeakBothCounters THEN 1 ELSE 0,
                             errs |-> IF outcome = "err" THEN 1 ELSE 0,
                             same |-> TRUE])
  /\ UNCHANGED <<started, stoppedAt, recorded, nsw>>

INext == \/ \E d \in 1..2 : Tick(d)
         \/ Start
         \/ \E i \in 1..MaxSw : Stop(i)
         \/ \E o \in {"ok", "err"}, d \in 0..2 : Exec(o, d)

ISpec == IInit /\ [][INext]_ivars

StopwatchElapsed == \A i \in DOMAIN recorded : recorded[i] = stoppedAt[i] - started[i]
ExecOnce == \A k \in 1..Len(execs) : execs[k].ran = 1
OneLatency == \A k \in 1..Len(execs) : Len(execs[k].lat) = 1
ExactlyOneOutcomeCounter == \A k \in 1..Len(execs) :
      /\ execs[k].succ + execs[k].errs = 1
      /\ (execs[k].outcome = "ok") = (execs[k].succ = 1)
ErrorUnchanged == \A k \in 1..Len(execs) : execs[k].same
=============================================================================
