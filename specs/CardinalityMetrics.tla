------------------------- MODULE CardinalityMetrics -------------------------
(***************************************************************************)
(* scope_registry.go reportInternalMetrics: at every report pass the root  *)
(* delivers four gauges - the numbers of counters, gauges, histograms and  *)
(* scopes currently registered (tally.internal.*_cardinality), unless      *)
(* OmitCardinalityMetrics is set.  Not one of the listed properties: part  *)
(* of the growth of the specification beyond them.                         *)
(*                                                                         *)
(* The code walks the registry ENTRIES (ForEachScope): the root is counted *)
(* once whatever the shard count; a sub-scope whose tags the sanitizer     *)
(* rewrites is registered under two keys (RegistryKeys.tla) and is visited *)
(* - and counted - once per key.  AsIsDoubleCountsAliased names that.      *)
(* Timers are not counted.  A closed sub-scope stays counted until a pass  *)
(* has removed it.                                                         *)
(***************************************************************************)
EXTENDS Integers, FiniteSets, TLC
CONSTANTS MaxScopes, MaxOps, AsIsDoubleCountsAliased,
          WeakRootPerShard,      \* the root is counted once per shard
          WeakCountsTimers
VARIABLES scopes, nkeys, cnt, nops, last
vars == <<scopes, nkeys, cnt, nops, last>>
Kinds == {"counter", "gauge", "histogram", "timer"}
Zero == [k \in Kinds |-> 0]
Init == scopes = {0} /\ nkeys = (0 :> 1) /\ cnt = (0 :> Zero) /\ nops = 0 /\ last = <<>>      \* scope 0 is the root
NewScope(aliased) == /\ Cardinality(scopes) <= MaxScopes
                     /\ LET s == Cardinality(scopes) IN
                        /\ scopes' = scopes \cup {s} /\ nkeys' = (s :> (IF aliased THEN 2 ELSE 1)) @@ nkeys /\ cnt' = (s :> Zero) @@ cnt
                     /\ nops' = nops + 1 /\ UNCHANGED last
NewMetric(s, k) == /\ cnt' = [cnt EXCEPT ![s][k] = @ + 1] /\ nops' = nops + 1 /\ UNCHANGED <<scopes, nkeys, last>>
Weight(s) == IF s = 0 THEN (IF WeakRootPerShard THEN 2 ELSE 1) ELSE IF AsIsDoubleCountsAliased THEN nkeys[s] ELSE 1
RECURSIVE SumOver(_, _)
SumOver(S, k) == IF S = {} THEN 0 ELSE LET s == CHOOSE x \in S : TRUE IN Weight(s) * (cnt[s][k] + (IF WeakCountsTimers /\ k = "counter" THEN cnt[s]["timer"] ELSE 0)) + SumOver(S \ {s}, k)
RECURSIVE SumW(_)
SumW(S) == IF S = {} THEN 0 ELSE LET s == CHOOSE x \in S : TRUE IN Weight(s) + SumW(S \ {s})
(* what a pass delivers *)
Gauges == [counters |-> SumOver(scopes, "counter"), gauges |-> SumOver(scopes, "gauge"), histograms |-> SumOver(scopes, "histogram"), scopes |-> SumW(scopes)]
Pass == last' = Gauges /\ nops' = nops + 1 /\ UNCHANGED <<scopes, nkeys, cnt>>
Next == nops < MaxOps /\ (Pass \/ (\E a \in BOOLEAN : NewScope(a)) \/ \E s \in scopes, k \in Kinds : NewMetric(s, k))
Spec == Init /\ [][Next]_vars
(* the figures a user expects: every scope and every metric once *)
RECURSIVE Plain(_, _)
Plain(S, k) == IF S = {} THEN 0 ELSE LET s == CHOOSE x \in S : TRUE IN cnt[s][k] + Plain(S \ {s}, k)
CountsEachOnce == last # <<>> => (last.scopes <= Cardinality(scopes) /\ last.counters <= Plain(scopes, "counter"))
AtLeastEachOnce == last # <<>> => last.scopes >= 1
=============================================================================
