SPECIFICATION Spec
CONSTANTS
  Recorders = {"r1", "r2"}
  Counters = {"c1", "c2"}
  MaxIncs = 4
  WeakSnapshotReadsReportedValue = FALSE
INVARIANTS WindowBound
CHECK_DEADLOCK FALSE
