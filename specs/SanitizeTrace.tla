---------------------------- MODULE SanitizeTrace ----------------------------
(***************************************************************************)
(* Validates what the real sanitizer did (NewSanitizer(opts).Name/Key/     *)
(* Value on class sequences, strings that reached a reporter through a     *)
(* scope with sanitize options, concurrent use of the pooled buffers)      *)
(* against Sanitize.tla.                                                   *)
(*  san      {repValid, fffdAllowed, in, out, same, again}                 *)
(*  reported {role, bad}    a string delivered to the reporter; bad =      *)
(*           number of runes neither allowed for the role nor replacement  *)
(*  conc     {stable}       results of concurrent calls re-read at the end *)
(***************************************************************************)
EXTENDS Sanitize, Json
VARIABLES l
TraceLog == ndJsonDeserialize("trace.ndjson")
Fail(c) == PrintT(<<"FAIL", l, c>>)
TInit == l = 1 /\ cfg = [repValid |-> TRUE, fffdAllowed |-> FALSE] /\ in = <<>>
TNext ==
  /\ l <= Len(TraceLog)
  /\ LET r == TraceLog[l] IN
     CASE r.e = "san" ->
            /\ cfg' = [repValid |-> r.repValid, fffdAllowed |-> r.fffdAllowed] /\ in' = r.in
            /\ LET exp == Sanitized(cfg', r.in) IN
                 IF \E i \in 1..Len(r.out) : ~Allowed(cfg', r.out[i]) THEN Fail("OnlyAllowedOrReplacement")
                 ELSE IF Len(r.out) # Len(r.in) THEN Fail("RuneCountPreserved")
                 ELSE IF r.out # exp.out THEN Fail("InvalidReplacedValidKept")
                 ELSE IF AllValid(cfg', r.in) /\ ~r.same THEN Fail("ValidUnchanged")
                 ELSE IF r.again # r.out THEN Fail("Idempotent")
                 ELSE TRUE
       [] r.e = "sanlong" ->   \* a 4 KiB string unit^k; the output is logged run-length encoded in chunks of Len(unit) runes
            /\ cfg' = [repValid |-> r.repValid, fffdAllowed |-> r.fffdAllowed] /\ in' = r.unit
            /\ IF Len(r.outruns) # 1 \/ r.outruns[1].n # r.k THEN Fail("InvalidReplacedValidKept")
               ELSE IF r.outruns[1].c # Sanitized(cfg', r.unit).out THEN Fail("InvalidReplacedValidKept")
               ELSE IF AllValid(cfg', r.unit) /\ ~r.same THEN Fail("ValidUnchanged")
               ELSE IF ~r.againsame THEN Fail("Idempotent")
               ELSE TRUE
       [] r.e = "reported" ->
            /\ IF r.bad # 0 THEN Fail("EverythingReportedIsSanitized") ELSE TRUE
            /\ UNCHANGED <<cfg, in>>
       [] r.e = "conc" ->
            /\ IF ~r.stable THEN Fail("ResultsStable") ELSE TRUE
            /\ UNCHANGED <<cfg, in>>
       [] OTHER -> UNCHANGED <<cfg, in>>
  /\ l' = l + 1
TraceSpec == TInit /\ [][TNext]_<<vars, l>>
=============================================================================
