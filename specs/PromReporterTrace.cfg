SPECIFICATION TraceSpec
CONSTANTS
  Names = {"alpha", "alpha_k", "beta_total"}
  Keys = {"k", "a", "z"}
  Vals = {"v1", "v2"}
  K = 4
  MaxOps = 1000000
  ReportVals = {}
  DevCrossKindNilSlot = FALSE
  WeakObserveLowerBound = FALSE
  WeakNoNoopOnError = FALSE
  WeakCounterSet = FALSE
  WeakCallbackSkipped = FALSE
  WeakSharedSeries = FALSE
CHECK_DEADLOCK FALSE
