---------------------------- MODULE UDPTransport ----------------------------
(***************************************************************************)
(* m3/thriftudp: TUDPTransport (one destination) and TMultiUDPTransport    *)
(* (several).  A writer assembles a message with Write / WriteByte /       *)
(* WriteString and ends it with Flush (send what was accepted as ONE       *)
(* datagram) or Discard (give up: what m3.reporter.flush does after a      *)
(* failed emit, because the generated client returns on the first error    *)
(* without flushing).  Serves C15.                                         *)
(*                                                                         *)
(* Per destination: buf (chunks buffered), closed (Close was called), dead *)
(* (the socket fails every send), wire (datagrams the sink received).      *)
(* Chunks are <<id, size>>.  The writer's view of the message being        *)
(* assembled (ghost): cur = chunks whose write returned ok since the last  *)
(* message boundary, curBad = some write of it returned an error, expect = *)
(* the messages whose Flush returned ok.                                   *)
(*                                                                         *)
(* Dev... = behaviour of the pinned tree before the "fix:" commit;         *)
(* Weak... = a design decision dropped (non-vacuity).                      *)
(***************************************************************************)
EXTENDS Integers, Sequences, FiniteSets, TLC

CONSTANTS NChild, Multi, MaxLen, Sizes, MaxOps,
          DevWriterAbandonsWithoutDiscard, \* the writer (generated client under the reporter) gives up on a message and just starts the next one
          DevMultiFlushStopsAtFirstError,  \* multi Flush returns at the first failing destination, the others keep their message
          WeakNoResetOnFlushError,         \* Flush keeps the buffer when the send fails
          WeakCheckAfterAppend,            \* the refused chunk has already been appended
          WeakOffByOne,                    \* `>=` instead of `>` in the length check
          WeakCloseNotIdempotent,          \* a second Close closes the socket again (error)
          WeakDiscardKeepsBuffer           \* Discard does nothing

VARIABLES buf, closed, dead, deaf, wire,
          nops, lastOp, res,
          cur, curBad, expect, refused, destFailed, pre
tvars == <<buf, closed, dead, deaf, wire>>
gvars == <<nops, lastOp, res, cur, curBad, expect, refused, destFailed, pre>>
vars == <<tvars, gvars>>

Children == 1..NChild

RECURSIVE SumSizes(_)
SumSizes(s) == IF s = <<>> THEN 0 ELSE Head(s)[2] + SumSizes(Tail(s))

Pre0 == [size |-> 0, sz |-> 0, bad |-> FALSE, closeCalled |-> FALSE]
Init ==
  /\ buf = [c \in Children |-> <<>>]
  /\ closed = [c \in Children |-> FALSE] /\ dead = [c \in Children |-> FALSE] /\ deaf = [c \in Children |-> FALSE]
  /\ wire = [c \in Children |-> <<>>]
  /\ nops = 0 /\ lastOp = "init" /\ res = "ok"
  /\ cur = <<>> /\ curBad = FALSE /\ expect = <<>> /\ refused = {} /\ destFailed = FALSE /\ pre = Pre0

(***************************************************************************)
(* One destination.  Each operator yields the destination's next           *)
(* [buf, closed, wire] and the result of the call.                         *)
(***************************************************************************)
St(c) == [buf |-> buf[c], closed |-> closed[c], wire |-> wire[c]]

TooBig(s, sz) == IF WeakOffByOne THEN SumSizes(s.buf) + sz >= MaxLen ELSE SumSizes(s.buf) + sz > MaxLen

ChildWrite(c, s, ch) ==
  IF s.closed THEN <<s, "notopen">>
  ELSE IF TooBig(s, ch[2])
       THEN <<[s EXCEPT !.buf = IF WeakCheckAfterAppend THEN Append(s.buf, ch) ELSE s.buf], "toobig">>
       ELSE <<[s EXCEPT !.buf = Append(s.buf, ch)], "ok">>

(* dr: what a send to a destination that has stopped listening returns this time - "ok" (the datagram goes into the
   void) or "senderr" (the kernel reports the refusal of an earlier one); either way nothing arrives *)
ChildFlush(c, s, dr) ==
  IF s.closed THEN <<s, "notopen">>
  ELSE IF dead[c] THEN <<[s EXCEPT !.buf = IF WeakNoResetOnFlushError THEN s.buf ELSE <<>>], "senderr">>
  ELSE IF deaf[c] THEN <<[s EXCEPT !.buf = IF WeakNoResetOnFlushError /\ dr # "ok" THEN s.buf ELSE <<>>], dr>>
  ELSE <<[s EXCEPT !.buf = <<>>, !.wire = Append(s.wire, s.buf)], "ok">>

ChildDiscard(c, s) == <<[s EXCEPT !.buf = IF WeakDiscardKeepsBuffer THEN s.buf ELSE <<>>], "ok">>

(* Close: the first call closes the socket (an error if the socket is already dead), later calls do nothing *)
ChildClose(c, s) ==
  IF s.closed /\ ~WeakCloseNotIdempotent THEN <<s, "ok">>
  ELSE <<[s EXCEPT !.closed = TRUE], IF dead[c] \/ s.closed THEN "closeerr" ELSE "ok">>

(***************************************************************************)
(* Fan-out.  f(c, s) is the per-destination operation.  `stop` = return at *)
(* the first destination that fails (Write and Close do; Flush did before  *)
(* the fix), otherwise every destination is visited and the first error is *)
(* the result.                                                             *)
(***************************************************************************)
RECURSIVE Fan(_, _, _, _, _)
Fan(f(_, _), c, acc, r, stop) ==
  IF c > NChild \/ (stop /\ r # "ok") THEN <<acc, r>>
  ELSE LET o == f(c, St(c))
       IN Fan(f, c + 1, [acc EXCEPT ![c] = o[1]], IF r = "ok" THEN o[2] ELSE r, stop)

Apply(o) ==
  /\ buf' = [c \in Children |-> o[1][c].buf]
  /\ closed' = [c \in Children |-> o[1][c].closed]
  /\ wire' = [c \in Children |-> o[1][c].wire]
  /\ res' = o[2]
  /\ UNCHANGED <<dead, deaf>>

Cur0 == [c \in Children |-> St(c)]
Step(op) == nops' = nops + 1 /\ lastOp' = op
Pre(sz) == pre' = [size |-> SumSizes(cur), sz |-> sz, bad |-> curBad, closeCalled |-> (pre.closeCalled \/ lastOp = "close")]

(* kind: "w" Write, "wb" WriteByte, "ws" WriteString - one length check, one append for all three *)
Write(kind, id, sz) ==
  LET ch == <<id, sz>>
      W(c, s) == ChildWrite(c, s, ch)
      o == Fan(W, 1, Cur0, "ok", TRUE)
  IN /\ Apply(o) /\ Step(kind) /\ Pre(sz)
     /\ cur' = IF o[2] = "ok" THEN Append(cur, ch) ELSE cur
     /\ curBad' = (curBad \/ o[2] # "ok")
     /\ refused' = IF o[2] = "ok" THEN refused ELSE refused \cup {id}
     /\ UNCHANGED <<expect, destFailed>>

Flush(dr) ==
  LET F(c, s) == ChildFlush(c, s, dr)
      o == Fan(F, 1, Cur0, "ok", Multi /\ DevMultiFlushStopsAtFirstError)
  IN /\ Apply(o) /\ Step("flush") /\ Pre(0)
     /\ expect' = IF o[2] = "ok" THEN Append(expect, cur) ELSE expect
     /\ cur' = <<>> /\ curBad' = FALSE
     /\ UNCHANGED <<refused, destFailed>>

Discard ==
  LET o == Fan(ChildDiscard, 1, Cur0, "ok", FALSE)
  IN /\ Apply(o) /\ Step("discard") /\ Pre(0)
     /\ cur' = <<>> /\ curBad' = FALSE
     /\ UNCHANGED <<expect, refused, destFailed>>

Close ==
  LET o == Fan(ChildClose, 1, Cur0, "ok", TRUE)
  IN /\ Apply(o) /\ Step("close") /\ Pre(0)
     /\ UNCHANGED <<cur, curBad, expect, refused, destFailed>>

(* fault: the socket of destination c fails every send from now on *)
SocketDies(c) ==
  /\ ~dead[c] /\ dead' = [dead EXCEPT ![c] = TRUE] /\ Step("die") /\ res' = "ok" /\ Pre(0)
  /\ destFailed' = TRUE
  /\ UNCHANGED <<buf, closed, deaf, wire, cur, curBad, expect, refused>>

(* fault: nobody listens at destination c any more (the collector went away): sends are refused now and then *)
Deafen(c) ==
  /\ ~deaf[c] /\ deaf' = [deaf EXCEPT ![c] = TRUE] /\ Step("deafen") /\ res' = "ok" /\ Pre(0)
  /\ destFailed' = TRUE
  /\ UNCHANGED <<buf, closed, dead, wire, cur, curBad, expect, refused>>

(* deviation: after an error the writer gives up on the message WITHOUT telling the transport and
   starts the next one (the generated client on its own; the reporter before the fix) *)
AbandonRaw ==
  /\ DevWriterAbandonsWithoutDiscard /\ curBad
  /\ cur' = <<>> /\ curBad' = FALSE /\ Step("abandon") /\ res' = "ok" /\ Pre(0)
  /\ UNCHANGED <<tvars, expect, refused, destFailed>>

Next ==
  /\ nops < MaxOps
  /\ \/ \E sz \in Sizes : Write("w", nops + 1, sz)
     \/ (\E dr \in {"ok", "senderr"} : Flush(dr)) \/ Discard \/ Close \/ AbandonRaw
     \/ \E c \in Children : SocketDies(c) \/ Deafen(c)
Spec == Init /\ [][Next]_vars

(***************************************************************************)
(* C15                                                                     *)
(***************************************************************************)
AnyClosed == \E c \in Children : closed[c]
AllClosed == \A c \in Children : closed[c]
Healthy == ~destFailed /\ ~AnyClosed
Writes == {"w", "wb", "ws"}

(* one flush = one exact datagram; a refused write sends nothing; the message after a failed or
   abandoned one arrives complete, alone, uncorrupted: each sink saw exactly what the writer had
   had accepted for each message whose Flush returned ok, each as one datagram.  On a multi
   transport a destination that fails takes only itself out: see BufferEmptyAfterFlush *)
ExactDelivery == ~(Multi /\ destFailed) => \A c \in Children : ~deaf[c] => wire[c] = expect
RefusedNeverSent == \A c \in Children : \A i \in 1..Len(wire[c]) : \A k \in 1..Len(wire[c][i]) : wire[c][i][k][1] \notin refused
BufferEmptyAfterFlush == lastOp = "flush" => \A c \in Children : ~closed[c] => buf[c] = <<>>
BufferEmptyAfterDiscard == lastOp = "discard" => \A c \in Children : buf[c] = <<>>
FanOutComplete == Healthy => \A c \in Children : buf[c] = buf[1] /\ wire[c] = wire[1]
WithinLimit == \A c \in Children : SumSizes(buf[c]) <= MaxLen
(* what a caller may rely on *)
OversizeRefused == (lastOp \in Writes /\ pre.size + pre.sz > MaxLen) => res # "ok"
FittingAccepted == (lastOp \in Writes /\ Healthy /\ pre.size + pre.sz <= MaxLen) => res = "ok"
FlushOkWhenHealthy == (lastOp = "flush" /\ Healthy) => res = "ok"
NotOpenAfterClose == (lastOp \in Writes \cup {"flush"} /\ AllClosed) => res = "notopen"
CloseIdempotent == (lastOp = "close" /\ ~destFailed) => (res = "ok" /\ AllClosed)
(* ... whatever the first Close returned (the socket may have been dead already): Close was CALLED, so every later
   write or flush is refused as not open, and on one destination a further Close returns nil *)
UseAfterCloseNotOpen == (lastOp \in Writes \cup {"flush"} /\ pre.closeCalled) => res = "notopen"
SecondCloseOk == (lastOp = "close" /\ ~Multi /\ pre.closeCalled) => res = "ok"
NeverPanics == res # "PANIC"
=============================================================================
