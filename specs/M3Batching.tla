----------------------------- MODULE M3Batching -----------------------------
(***************************************************************************)
(* The batching loop of m3/reporter.go (process), sequentially: items are  *)
(* dequeued one by one; an item is a metric with a CHARGED size c (what    *)
(* Allocate* measured with maximal values, sizedMetric.size) and an ACTUAL *)
(* size a (the bytes it occupies in the emitted batch), or a flush marker. *)
(*   Free = MaxPacket - Overhead   (reporter.freeBytes)                    *)
(*   Env  = the bytes of a datagram that are not metrics (message          *)
(*          envelope, list headers, common tags)                           *)
(* Assumptions the property rests on, as named predicates:                 *)
(*   A1  every metric: a <= c        A2  Env <= Overhead                   *)
(*   A3  every metric: c <= Free  (each single metric fits on its own)     *)
(* Serves C12; ThriftSize.tla / the measured traces establish A1 and A2.   *)
(***************************************************************************)
EXTENDS Integers, Sequences, FiniteSets, TLC

CONSTANTS MaxPacket, Overhead, Env, CSizes, MaxItems,
          DevBucketTagsUncharged,   \* pinned tree: a histogram bucket metric is charged without the struct overhead of its two bucket tags (a = c + 2)
          DevEnvelopeConst,         \* pinned tree: the envelope allowance is a constant smaller than the real envelope (Env = Overhead + 1)
          WeakCheckAfterAppend, WeakNoResetOfBytes, WeakFlushDropsOverflowing
VARIABLES inp, mets, bytes, out, why, closed
vars == <<inp, mets, bytes, out, why, closed>>

Free == MaxPacket - Overhead
EnvActual == IF DevEnvelopeConst THEN Overhead + 1 ELSE Env
Items == [set : {TRUE}, c : CSizes, a : 1..(Free + 2), bucket : BOOLEAN] \cup {[set |-> FALSE, c |-> 0, a |-> 0, bucket |-> FALSE]}
A1(it) == it.set => (IF DevBucketTagsUncharged /\ it.bucket THEN it.a = it.c + 2 ELSE it.a <= it.c /\ it.a >= it.c - 1)
A3(it) == it.c <= Free
A2 == EnvActual <= Overhead \/ DevEnvelopeConst

Init == inp = <<>> /\ mets = <<>> /\ bytes = 0 /\ out = <<>> /\ why = <<>> /\ closed = FALSE

RECURSIVE SumC(_), SumA(_), Flat(_)
SumC(b) == IF b = <<>> THEN 0 ELSE Head(b).c + SumC(Tail(b))
SumA(b) == IF b = <<>> THEN 0 ELSE Head(b).a + SumA(Tail(b))
Flat(bs) == IF bs = <<>> THEN <<>> ELSE Head(bs) \o Flat(Tail(bs))

(* one iteration of `for smet := range r.metCh` *)
RecvF(it, free) ==
  LET over == IF WeakCheckAfterAppend THEN bytes > free ELSE bytes + it.c > free
      flush == (~it.set /\ mets # <<>>) \/ over
      emitted == flush /\ mets # <<>>
      mets1 == IF flush THEN <<>> ELSE mets
      bytes1 == IF flush /\ ~WeakNoResetOfBytes THEN 0 ELSE bytes
  IN /\ inp' = Append(inp, it)
     /\ out' = IF emitted THEN Append(out, mets) ELSE out
     /\ why' = IF emitted THEN Append(why, IF over THEN [r |-> "size", next |-> it.c] ELSE [r |-> "marker", next |-> 0]) ELSE why
     /\ IF it.set /\ ~(WeakFlushDropsOverflowing /\ over)
        THEN mets' = Append(mets1, it) /\ bytes' = bytes1 + it.c
        ELSE mets' = mets1 /\ bytes' = bytes1
     /\ UNCHANGED closed
Recv(it) == RecvF(it, Free)
(* the queue was closed: final flush *)
Close == /\ ~closed /\ closed' = TRUE
         /\ out' = IF mets # <<>> THEN Append(out, mets) ELSE out
         /\ why' = IF mets # <<>> THEN Append(why, [r |-> "close", next |-> 0]) ELSE why
         /\ mets' = <<>> /\ bytes' = 0 /\ UNCHANGED inp
Next == ~closed /\ (Close \/ (Len(inp) < MaxItems /\ \E it \in Items : A1(it) /\ A3(it) /\ Recv(it)))
Spec == Init /\ [][Next]_vars

Sel(s) == SelectSeq(s, LAMBDA it : it.set)
RECURSIVE SumLen(_)
SumLen(bs) == IF bs = <<>> THEN 0 ELSE Len(Head(bs)) + SumLen(Tail(bs))
NoDropNoDup == Flat(out) \o mets = Sel(inp)
ChargedWithinFree == bytes = SumC(mets) /\ bytes <= Free /\ \A i \in 1..Len(out) : SumC(out[i]) <= Free
OverflowStartsNextF(free) == \A i \in 1..Len(out) : why[i].r = "size" => SumC(out[i]) + why[i].next > free
OverflowStartsNext == OverflowStartsNextF(Free)
NoEmptyBatch == \A i \in 1..Len(out) : out[i] # <<>>
(* the property itself: with A1, A2, A3 no datagram exceeds the maximum *)
DatagramWithinLimit == \A i \in 1..Len(out) : EnvActual + SumA(out[i]) <= MaxPacket
=============================================================================
