-------------------------- MODULE ObjectPoolTrace ---------------------------
(***************************************************************************)
(* Sequential call histories of the real ObjectPool replayed through       *)
(* ObjectPool.tla (the model is deterministic: the object a Get returns is *)
(* predicted), and the summary of concurrent runs in which every object    *)
(* carries an ownership flag.                                              *)
(*  new {cap} | get {t, obj, fresh} | put {t, obj} | conc {double}         *)
(***************************************************************************)
EXTENDS Integers, Sequences, FiniteSets, TLC, Json
VARIABLES l, pool, next, cap
TraceLog == ndJsonDeserialize("trace.ndjson")
Fail(c) == PrintT(<<"FAIL", l, c>>)
TInit == l = 1 /\ pool = <<>> /\ next = 1 /\ cap = 0
TNext ==
  /\ l <= Len(TraceLog)
  /\ LET r == TraceLog[l] IN
     CASE r.e = "new" -> pool' = [i \in 1..r.cap |-> i] /\ next' = r.cap + 1 /\ cap' = r.cap
       [] r.e = "get" ->
            /\ UNCHANGED cap
            /\ IF pool # <<>>
               THEN /\ pool' = Tail(pool) /\ UNCHANGED next
                    /\ IF r.fresh \/ r.obj # Head(pool) THEN Fail("Drift:get-returns-oldest-pooled-object") ELSE TRUE
               ELSE /\ UNCHANGED pool /\ next' = next + 1
                    /\ IF ~r.fresh \/ r.obj # next THEN Fail("Drift:get-allocates-when-empty") ELSE TRUE
       [] r.e = "put" ->
            /\ UNCHANGED <<next, cap>>
            /\ pool' = (IF Len(pool) < cap THEN Append(pool, r.obj) ELSE pool)
       [] r.e = "conc" ->
            /\ UNCHANGED <<pool, next, cap>>
            /\ IF r.double > 0 THEN Fail("Drift:object-handed-to-two-holders") ELSE TRUE
       [] OTHER -> UNCHANGED <<pool, next, cap>>
  /\ l' = l + 1
TraceSpec == TInit /\ [][TNext]_<<l, pool, next, cap>>
=============================================================================
