----------------------------- MODULE ObjectPool -----------------------------
(***************************************************************************)
(* tally.ObjectPool (pool.go): a buffered channel of objects with an       *)
(* allocator.  Init fills the channel; Get takes the oldest pooled object  *)
(* or, when the channel is empty, allocates; Put appends unless the        *)
(* channel is full, in which case the object is dropped.  Not one of the   *)
(* listed properties - growth of the specification (bin/extra).            *)
(* Objects are numbered in allocation order.  A client only puts back what *)
(* it holds, once.                                                         *)
(***************************************************************************)
EXTENDS Integers, Sequences, FiniteSets
CONSTANTS Cap, Threads, MaxOps,
          WeakPutKeepsHolding,     \* Put does not end the holder's ownership in the pool's view: the object can be handed out again while still held
          WeakGetPeeks             \* Get returns the oldest pooled object without removing it
VARIABLES pool, next, held, ops
vars == <<pool, next, held, ops>>
Init == pool = [i \in 1..Cap |-> i] /\ next = Cap + 1 /\ held = [t \in Threads |-> {}] /\ ops = 0
Get(t) == /\ ops < MaxOps /\ ops' = ops + 1
          /\ IF pool # <<>>
             THEN /\ held' = [held EXCEPT ![t] = @ \cup {Head(pool)}]
                  /\ pool' = (IF WeakGetPeeks THEN pool ELSE Tail(pool)) /\ UNCHANGED next
             ELSE /\ held' = [held EXCEPT ![t] = @ \cup {next}] /\ next' = next + 1 /\ UNCHANGED pool
Put(t) == /\ ops < MaxOps /\ ops' = ops + 1
          /\ \E o \in held[t] :
               /\ held' = (IF WeakPutKeepsHolding THEN held ELSE [held EXCEPT ![t] = @ \ {o}])
               /\ pool' = (IF Len(pool) < Cap THEN Append(pool, o) ELSE pool)
          /\ UNCHANGED next
Next == \E t \in Threads : Get(t) \/ Put(t)
Spec == Init /\ [][Next]_vars
InPool == {pool[i] : i \in 1..Len(pool)}
(* an object has one owner: one holder or the pool, never both, never two holders, never twice in the pool *)
Exclusive == /\ \A a, b \in Threads : a # b => held[a] \cap held[b] = {}
             /\ \A t \in Threads : held[t] \cap InPool = {}
             /\ Cardinality(InPool) = Len(pool)
Bounded == Len(pool) <= Cap
=============================================================================
