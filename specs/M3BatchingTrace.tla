-------------------------- MODULE M3BatchingTrace --------------------------
(***************************************************************************)
(* Replays what the real batching loop dequeued (observation hook m3p_got: *)
(* charged size, metric or marker) through M3Batching!Recv and compares    *)
(* every emit (hook m3p_emit + the datagram a loopback sink received) with *)
(* the batch the model closes at that point; evaluates A1 (charged >=      *)
(* actual per metric), A2 (overhead >= what is left of the datagram) and   *)
(* the property (datagram <= MaxPacketSizeBytes) on the measured numbers.  *)
(*  cfg  {compact, max, free, overhead, seq}                               *)
(*  got  {c, set}   emit {len, ok, n, a:[actual size per metric], env}     *)
(*  endc {datagrams, emits_seen}                                           *)
(***************************************************************************)
EXTENDS M3Batching, Json
VARIABLES l, cfgv, nout, proviso
TraceLog == ndJsonDeserialize("trace.ndjson")
Fail(c) == PrintT(<<"FAIL", l, c>>)
TInit == l = 1 /\ Init /\ cfgv = [max |-> 0, free |-> 0, overhead |-> 0] /\ nout = 0 /\ proviso = TRUE

TNext ==
  /\ l <= Len(TraceLog)
  /\ LET r == TraceLog[l] IN
     CASE r.e = "cfg" ->
            /\ cfgv' = [max |-> r.max, free |-> r.free, overhead |-> r.overhead]
            /\ inp' = <<>> /\ mets' = <<>> /\ bytes' = 0 /\ out' = <<>> /\ why' = <<>> /\ closed' = FALSE /\ nout' = 0 /\ proviso' = TRUE
            /\ IF r.free # r.max - r.overhead THEN Fail("Drift:freeBytes") ELSE TRUE
       [] r.e = "got" ->
            /\ RecvF([set |-> r.set, c |-> r.c, a |-> r.c, bucket |-> FALSE], cfgv.free)
            /\ proviso' = (proviso /\ r.c <= cfgv.free)     \* A3: each single metric fits on its own
            /\ IF Len(out) > nout THEN Fail("Batching:an-emit-the-model-makes-was-not-observed") ELSE TRUE
            /\ UNCHANGED <<cfgv, nout>>
       [] r.e = "emit" ->
            /\ UNCHANGED <<vars, cfgv, proviso>>
            /\ nout' = nout + 1
            /\ IF ~r.ok THEN Fail("OneMessagePerDatagram")
               ELSE IF Len(out) < nout + 1 /\ ~(Len(out) = nout /\ mets # <<>>)
                    THEN Fail("Batching:emit-the-model-does-not-make")
               ELSE LET b == IF Len(out) >= nout + 1 THEN out[nout + 1] ELSE mets     \* the final flush comes before the model's Close
                    IN IF Len(b) # r.n THEN Fail("NoDropNoDup:batch-length")
                       ELSE IF proviso /\ r.len > cfgv.max THEN Fail("DatagramWithinLimit")
                       ELSE IF \E i \in 1..r.n : r.a[i] > b[i].c THEN Fail("A1:charged-size-below-actual")
                       ELSE IF r.env > cfgv.overhead THEN Fail("A2:overhead-below-actual-envelope")
                       ELSE IF SumC(b) > cfgv.free /\ proviso THEN Fail("ChargedWithinFree")
                       ELSE TRUE
       [] r.e = "endc" ->
            /\ UNCHANGED <<vars, cfgv, nout, proviso>>
            /\ IF r.datagrams # r.emits_seen THEN Fail("NoDropNoDup:datagrams-vs-emits")
               ELSE IF ~OverflowStartsNextF(cfgv.free) THEN Fail("OverflowStartsNext")
               ELSE IF Len(Sel(inp)) # SumLen(out) + Len(mets) THEN Fail("NoDropNoDup") ELSE TRUE
       [] OTHER -> UNCHANGED <<vars, cfgv, nout, proviso>>
  /\ l' = l + 1
TraceSpec == TInit /\ [][TNext]_<<vars, l, cfgv, nout, proviso>>
=============================================================================
