SPECIFICATION Spec
CONSTANTS
  MaxScopes = 2
  MaxOps = 5
  AsIsDoubleCountsAliased = FALSE
  WeakRootPerShard = FALSE
  WeakCountsTimers = FALSE
INVARIANTS CountsEachOnce AtLeastEachOnce
CHECK_DEADLOCK FALSE
