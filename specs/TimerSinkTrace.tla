-------------------------- MODULE TimerSinkTrace ---------------------------
(***************************************************************************)
(* Free-running histories of the real code: G goroutines call Record on    *)
(* one shared timer and on a timer of their own at the same time, on a     *)
(* reporter-less test scope (values read with Snapshot), a plain reporter  *)
(* and a cached reporter (values as the recording reporter received them). *)
(* Only multisets are compared (the order of concurrent records is not     *)
(* determined).  The harness logs both lists sorted: two sorted lists are  *)
(* equal as sequences iff they are equal as multisets.  (The lists have    *)
(* thousands of elements; they are compared as whole values, never         *)
(* indexed.)  missing / extra are the harness's own counts of the          *)
(* differences, used only to name the failure.                             *)
(*  reset {mode}                                                           *)
(*  recs  {id, ds:[sorted]}  durations whose Record returned, per timer    *)
(*  seen  {id, ds:[sorted], missing, extra}  what the snapshot / the       *)
(*        reporter holds                                                   *)
(***************************************************************************)
EXTENDS Integers, Sequences, FiniteSets, TLC, Json
VARIABLES l, want
TraceLog == ndJsonDeserialize("trace.ndjson")
Fail(c) == PrintT(<<"FAIL", l, c>>)
TInit == l = 1 /\ want = <<>>
TNext ==
  /\ l <= Len(TraceLog)
  /\ LET r == TraceLog[l] IN
     CASE r.e = "reset" -> want' = <<>>
       [] r.e = "recs" -> want' = [x \in DOMAIN want \cup {r.id} |-> IF x = r.id THEN r.ds ELSE want[x]]
       [] r.e = "seen" ->
            /\ UNCHANGED want
            /\ LET w == IF r.id \in DOMAIN want THEN want[r.id] ELSE <<>> IN
               IF r.ds = w THEN TRUE
               ELSE IF r.missing > 0 THEN Fail("TimersSynchronousOnce:recorded-value-not-delivered")
               ELSE IF r.extra > 0 THEN Fail("TimersSynchronousOnce:delivered-value-not-recorded-or-repeated")
               ELSE Fail("TimersSynchronousOnce:lists-differ")
       [] OTHER -> UNCHANGED want
  /\ l' = l + 1
TraceSpec == TInit /\ [][TNext]_<<l, want>>
=============================================================================
