------------------------------ MODULE TestScope ------------------------------
(***************************************************************************)
(* A tally test scope (scope.go NewTestScope / Snapshot): metrics of all   *)
(* scopes derived from it, keyed by full name + tags, and snapshots that   *)
(* are independent copies.  Identities are opaque strings.  Serves C11     *)
(* (and the reporter-less timers of C10).                                  *)
(***************************************************************************)
EXTENDS Integers, Sequences, FiniteSets, TLC

CONSTANTS Ids, MaxOps,
          WeakSnapshotSharesState,  \* weakening: a snapshot aliases the live values instead of copying them
          WeakCloseDropsSubscope,   \* weakening: closing a subscope removes its metrics from later snapshots
          WeakGaugeAccumulates      \* weakening: a gauge snapshot shows the sum of updates instead of the last one

VARIABLES ctr,     \* counter id -> sum of increments
          gg,      \* gauge id -> last update
          tmr,     \* timer id -> sequence of recorded durations
          hst,     \* histogram id -> (bucket upper bound -> samples)
          lastUpd, \* ghost: gauge id -> value of the last Update call
          seen,    \* ghost: ids that were ever recorded on
          snaps,   \* sequence of snapshots taken: [live: aliases the live state, c, g, t, h, want: what it must keep showing]
          nops
tsvars == <<ctr, gg, tmr, hst, snaps, nops, lastUpd, seen>>

Put(f, k, v) == IF k \in DOMAIN f THEN [f EXCEPT ![k] = v] ELSE f @@ (k :> v)
Get0(f, k) == IF k \in DOMAIN f THEN f[k] ELSE 0
GetS(f, k) == IF k \in DOMAIN f THEN f[k] ELSE <<>>

TSInit == ctr = <<>> /\ gg = <<>> /\ tmr = <<>> /\ hst = <<>> /\ snaps = <<>> /\ nops = 0 /\ lastUpd = <<>> /\ seen = {}

Inc(id, v) == ctr' = Put(ctr, id, Get0(ctr, id) + v) /\ seen' = seen \cup {id} /\ UNCHANGED <<gg, tmr, hst, snaps, lastUpd>>
Upd(id, v) == gg' = Put(gg, id, IF WeakGaugeAccumulates THEN Get0(gg, id) + v ELSE v) /\ lastUpd' = Put(lastUpd, id, v) /\ seen' = seen \cup {id} /\ UNCHANGED <<ctr, tmr, hst, snaps>>
Rec(id, v) == tmr' = Put(tmr, id, Append(GetS(tmr, id), v)) /\ seen' = seen \cup {id} /\ UNCHANGED <<ctr, gg, hst, snaps, lastUpd>>
HNew(id, ups) == hst' = (IF id \in DOMAIN hst THEN hst ELSE hst @@ (id :> [u \in ups |-> 0])) /\ seen' = seen \cup {id} /\ UNCHANGED <<ctr, gg, tmr, snaps, lastUpd>>
HRec(id, up) == id \in DOMAIN hst /\ hst' = [hst EXCEPT ![id][up] = @ + 1] /\ UNCHANGED <<ctr, gg, tmr, snaps, lastUpd, seen>>
Current == [c |-> ctr, g |-> gg, t |-> tmr, h |-> hst]
Snap == snaps' = Append(snaps, [live |-> WeakSnapshotSharesState, val |-> Current]) /\ UNCHANGED <<ctr, gg, tmr, hst, lastUpd, seen>>
(* Close of a subscope whose metrics are the ids in S: nothing visible changes *)
CloseSub(S) == /\ IF WeakCloseDropsSubscope
                  THEN /\ ctr' = [k \in DOMAIN ctr \ S |-> ctr[k]] /\ gg' = [k \in DOMAIN gg \ S |-> gg[k]]
                       /\ tmr' = [k \in DOMAIN tmr \ S |-> tmr[k]] /\ hst' = [k \in DOMAIN hst \ S |-> hst[k]]
                  ELSE UNCHANGED <<ctr, gg, tmr, hst>>
               /\ UNCHANGED <<snaps, lastUpd, seen>>

(* what snapshot i reads as now *)
Shows(i) == IF snaps[i].live THEN Current ELSE snaps[i].val

Step(A) == nops < MaxOps /\ nops' = nops + 1 /\ A
TSNext == \/ \E id \in Ids, v \in 1..2 : Step(Inc(id, v)) \/ Step(Upd(id, v)) \/ Step(Rec(id, v))
          \/ \E id \in Ids : Step(HNew(id, {"1", "MAX"})) \/ Step(HRec(id, "1"))
          \/ Step(Snap)
          \/ \E id \in Ids : Step(CloseSub({id}))
TSSpec == TSInit /\ [][TSNext]_tsvars

(* a snapshot keeps showing what was recorded when it was taken *)
GaugeShowsLastUpdate == \A id \in DOMAIN lastUpd : id \in DOMAIN gg => gg[id] = lastUpd[id]
MetricsSurviveClose == seen \subseteq (DOMAIN ctr \cup DOMAIN gg \cup DOMAIN tmr \cup DOMAIN hst)
SnapshotsIndependent == \A i \in 1..Len(snaps) : Shows(i) = snaps[i].val
=============================================================================
