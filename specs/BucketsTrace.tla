---------------------------- MODULE BucketsTrace ----------------------------
(***************************************************************************)
(* Validates the real bucket constructors and the bounds real histograms   *)
(* end up with (bucket cache under adversarial, colliding specifications)  *)
(* against Buckets.tla.                                                    *)
(*  linear {start, width, n, got, must}   exp {start, p, q, n, got, must}  *)
(*  hist   {wanted:{kind, elems}, used_kind, used}  bounds a histogram uses*)
(*  slice  {unchanged}  the caller's slice after BucketPairs / Histogram   *)
(***************************************************************************)
EXTENDS Buckets, Json
VARIABLES l
ReqNone == [t \in {"t1"} |-> <<>>]
TraceLog == ndJsonDeserialize("trace.ndjson")
Fail(c) == PrintT(<<"FAIL", l, c>>)
RECURSIVE Ins(_, _)
Ins(s, x) == IF s = <<>> THEN <<x>> ELSE IF x <= Head(s) THEN <<x>> \o s ELSE <<Head(s)>> \o Ins(Tail(s), x)
RECURSIVE Sort(_)
Sort(s) == IF s = <<>> THEN <<>> ELSE Ins(Sort(Tail(s)), Head(s))
TInit == BInit /\ l = 1
TNext ==
  /\ l <= Len(TraceLog)
  /\ LET r == TraceLog[l] IN
     CASE r.e = "linear" ->
            LET exp == Linear(r.start, r.width, r.n) IN
            IF r.got # exp THEN Fail("LinearRecurrence")
            ELSE IF r.must # MustResult(exp) THEN Fail("MustPanicsIffError") ELSE TRUE
       [] r.e = "exp" ->
            LET exp == Exponential(r.start, r.p, r.q, r.n) IN
            IF r.got # exp THEN Fail("ExponentialRecurrence")
            ELSE IF r.must # MustResult(exp) THEN Fail("MustPanicsIffError") ELSE TRUE
       [] r.e = "hist" ->
            IF r.used_kind # r.wanted.kind \/ r.used # Sort(r.wanted.elems) THEN Fail("KeepsOwnBounds")
            ELSE IF ~r.ascending THEN Fail("KeepsOwnBounds:buckets-not-in-ascending-order") ELSE TRUE
       [] r.e = "slice" ->
            IF ~r.unchanged THEN Fail("CallerSliceUntouched") ELSE TRUE
       [] OTHER -> TRUE
  /\ l' = l + 1 /\ UNCHANGED bvars
TraceSpec == TInit /\ [][TNext]_<<bvars, l>>
=============================================================================
