---------------------------- MODULE M3StepTrace ----------------------------
(***************************************************************************)
(* Step-level conformance of the real M3 reporter with M3Reporter.tla.     *)
(* The controlled scheduler records every granted step of every scenario   *)
(* thread as (thread, label) together with the projection of the           *)
(* reporter's state taken just BEFORE the step (pending, done, queue       *)
(* length: m3.VerifStateOf).  Each step must be the model's action of that *)
(* thread at that label, taken from a model state with the same            *)
(* projection.  Steps the model does not have are named stutters:          *)
(*   start (harness), m3b_set (bucket closure), m3p_exit (after the final  *)
(*   flush), an iteration of Close's spin loop that found pending > 0, and *)
(*   the grant INTO wg.Wait while the goroutines have not ended yet (the   *)
(*   model's m3c_wait happens when they have: silent LateWait).            *)
(* Silent model steps: the clock goroutine (it has no hooks), m3r_ret (the *)
(* return of reportCopyMetric).  A trace is accepted when all its lines    *)
(* are consumed; the longest consumed prefix is kept in TLC register 1.    *)
(*  cfg {producers, nrep, flushers, closers, qcap}   first line            *)
(*  scn {scenario}  step {t, p, pending, done, qlen}  endx                 *)
(***************************************************************************)
EXTENDS M3Reporter, Json, TLCExt
VARIABLES l, waiting
TraceLog == ndJsonDeserialize("steps.ndjson")
(* the first line of a step file gives the model constants of its scenario *)
Cfg == TraceLog[1]
SeqSet(s) == {s[i] : i \in 1..Len(s)}
TProducers == SeqSet(Cfg.producers)
TFlushers == SeqSet(Cfg.flushers)
TClosers == SeqSet(Cfg.closers)
TNRep == Cfg.nrep
TQCap == Cfg.qcap

Proj(r) == pending = r.pending /\ done = r.done /\ Len(q) = r.qlen

ResetAll ==
  /\ pc' = [t \in Threads |-> CASE t \in Producers -> "m3r_inc" [] t \in Flushers -> "m3f_inc" [] t \in Closers -> "m3c_cas"
                                [] t = "proc" -> "m3p_recv" [] OTHER -> "t_check"]
  /\ idx' = [t \in Threads |-> 1] /\ done' = FALSE /\ pending' = 0 /\ doneClosed' = FALSE /\ metClosed' = FALSE
  /\ q' = <<>> /\ mets' = <<>> /\ bytes' = 0 /\ sent' = <<>> /\ clk' = 1 /\ now' = 1
  /\ panicked' = FALSE /\ closeRes' = [c \in Closers |-> "none"]
  /\ called' = {} /\ returned' = {} /\ retAtClose' = {} /\ closeCalled' = FALSE /\ closeReturned' = FALSE /\ lateEnq' = {}
  /\ hold' = [t \in Threads |-> <<>>] /\ inner' = [t \in Threads |-> 0]
  /\ waiting' = [c \in Closers |-> FALSE]

TInit == l = 1 /\ Init /\ waiting = [c \in Closers |-> FALSE] /\ TLCSet(1, 0)

(* the model action of thread t at label p *)
Act(t, p) ==
  CASE p = "m3r_inc" -> RInc(t) [] p = "m3r_done" -> RDone(t) [] p = "m3r_now" -> RNow(t) [] p = "m3r_send" -> RSend(t) [] p = "m3r_dec" -> RDec(t)
    [] p = "m3f_inc" -> FInc(t) [] p = "m3f_done" -> FDone(t) [] p = "m3f_send" -> FSend(t) [] p = "m3f_dec" -> FDec(t)
    [] p = "m3c_cas" -> CCas(t) [] p = "m3c_closedone" -> CCloseDone(t) [] p = "m3c_closemet" -> CCloseMet(t)
    [] p = "m3p_recv" -> PRecv
    [] OTHER -> FALSE
Stutters == {"start", "m3b_set", "m3p_exit", "z_gate"}

Consume ==
  /\ l <= Len(TraceLog)
  /\ LET r == TraceLog[l] IN
     CASE r.e = "scn" -> ResetAll
       [] r.e = "step" /\ r.p \in Stutters -> UNCHANGED <<vars, waiting>>
       [] r.e = "step" /\ r.p = "m3c_spin" ->
            /\ Proj(r) /\ pc[r.t] = "m3c_spin"
            /\ IF r.pending = 0 THEN CSpin(r.t) ELSE UNCHANGED vars
            /\ UNCHANGED waiting
       [] r.e = "step" /\ r.p = "m3c_wait" ->
            /\ Proj(r) /\ pc[r.t] = "m3c_wait"
            /\ IF ENABLED CWait(r.t) THEN CWait(r.t) /\ UNCHANGED waiting
               ELSE UNCHANGED vars /\ waiting' = [waiting EXCEPT ![r.t] = TRUE]
       [] r.e = "step" ->
            /\ Proj(r) /\ (r.t = "proc" \/ pc[r.t] = r.p) /\ Act(r.t, r.p) /\ UNCHANGED waiting
       [] OTHER -> UNCHANGED <<vars, waiting>>
  /\ l' = l + 1
  /\ TLCSet(1, IF TLCGet(1) < l THEN l ELSE TLCGet(1))

Silent ==
  /\ l <= Len(TraceLog) /\ UNCHANGED l
  /\ \/ TCheck /\ UNCHANGED waiting
     \/ TWait /\ UNCHANGED waiting
     \/ \E t \in Threads : RRet(t) /\ UNCHANGED waiting
     \/ \E c \in Closers : waiting[c] /\ CWait(c) /\ waiting' = [waiting EXCEPT ![c] = FALSE]

TraceNext == Consume \/ Silent
TraceSpec == TInit /\ [][TraceNext]_<<vars, l, waiting>>
Consumed == TLCGet(1)
Report == PrintT(<<"CONSUMED", TLCGet(1), Len(TraceLog)>>)
=============================================================================
