---------------------------- MODULE MCM3Reporter ----------------------------
EXTENDS M3Reporter
(* charged size of a metric in the bounded configurations: producers' metrics 2 and 3 units, internal metrics 1 *)
MCSizeOf(id) == IF id[2] = "int" THEN 1 ELSE IF id[1] = "p1" THEN 2 ELSE 3
=============================================================================
