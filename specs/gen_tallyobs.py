#!/usr/bin/env python3
"""Generates TallyObs.tla: each action is given by the variables it changes; the UNCHANGED
clause for all other variables is filled in mechanically (the only thing generated)."""
import os, textwrap

VARS = [
 ("Mod", "0 = exact arithmetic, else counter values are in Z/Mod"),
 ("crashed", "\"\" or what went wrong outside any property formula: \"panic\" / \"deadlock\""),
 ("nonneg", "all counter increments so far were >= 0 (and arithmetic is exact)"),
 ("incs", "counter identity -> sum of increments applied (all incarnations of the scope)"),
 ("promised", "counter identity -> sum of increments that must be delivered: made on a live scope object before that object's Close (or the root's Close) was called"),
 ("deliv", "counter identity -> sum of deltas delivered to the reporter"),
 ("negDelivery", "a delivered counter delta was <= 0 although all increments are >= 0"),
 ("quiesced", "activity has stopped and one more report pass has run"),
 ("lateDelivery", "a counter delta was delivered after quiescence with no new increment"),
 ("updc", "gauge identity -> sequence of values passed to Update (calls that have begun)"),
 ("upd", "gauge identity -> number of Update calls that have returned"),
 ("gdl", "gauge identity -> sequence of values delivered"),
 ("passes", "pass id -> [ended, due]; due[g] = number of updates of g when the pass began, if all had returned, else -1"),
 ("staleAfterPass", "a pass that began after the last update ended, with no other pass in flight, leaving a stale most-recent value"),
 ("objClosed", "scope objects whose Close has been called"),
 ("objCloseDone", "scope objects whose Close has returned"),
 ("closedAtCall", "thread -> scope objects whose Close had already returned when the thread asked for a scope"),
 ("rootClosedAtCall", "thread -> the root's Close had already returned when the thread asked for a scope"),
 ("reacquiredClosed", "the API handed out a scope object whose Close had returned before the request began"),
 ("notInert", "a scope requested after the root's Close had returned was not the inert scope"),
 ("parentClosedAtCall", "thread -> the Close of the scope object it derives from had already returned when it asked"),
 ("liveFromClosed", "a scope derived from a scope object whose Close had returned was not inert"),
 ("gotObj", "<<kind, identity, scope object>> -> the metric object returned by first use"),
 ("objMismatch", "two requests for the same metric of the same scope object returned different objects"),
 ("allocs", "<<kind, identity, scope object>> -> number of Allocate calls on the cached reporter"),
 ("rootCloseCalled", "threads that have called the root's Close"),
 ("rootCloseReturned", "threads whose root Close has returned"),
 ("closePromise", "thread -> promised as it was when the thread called the root's Close"),
 ("barrierBroken", "a root Close returned before everything promised at its call was delivered and flushed"),
 ("unflushed", "one of the library's own passes delivered something since its last Flush"),
 ("callsAfterClose", "number of pass deliveries (counter, gauge, histogram), Flush or Close calls the library's own passes made on the reporter after the first root Close returned"),
 ("reporterCloses", "number of Close calls on the reporter"),
 ("closeBeforeFlush", "the reporter was closed while deliveries were unflushed"),
 ("loopNotEnded", "a root Close returned while the report loop goroutine was still running"),
 ("errMismatch", "a root Close returned something else than the reporter's Close error (first closer) / nil (others)"),
 ("boundsBad", "a histogram does not use exactly the bucket bounds (and kind) it was created with"),
 ("timerLog", "sequence of <<id, v>> timer deliveries"),
 ("timerOpen", "thread -> [id, v, seen]: Record call in progress"),
 ("timerBad", "a timer delivery outside a matching Record window, or a Record that returned without exactly one delivery"),
]
NAMES = [v for v, _ in VARS]

INIT = {
 "Mod": "m", "crashed": '""', "nonneg": "TRUE", "incs": "<<>>", "promised": "<<>>", "deliv": "<<>>", "negDelivery": "FALSE",
 "quiesced": "FALSE", "lateDelivery": "FALSE", "updc": "<<>>", "upd": "<<>>", "gdl": "<<>>", "passes": "<<>>",
 "staleAfterPass": "FALSE", "objClosed": "{}", "objCloseDone": "{}", "closedAtCall": "<<>>", "rootClosedAtCall": "<<>>", "reacquiredClosed": "FALSE",
 "notInert": "FALSE", "parentClosedAtCall": "<<>>", "liveFromClosed": "FALSE", "gotObj": "<<>>", "objMismatch": "FALSE", "allocs": "<<>>", "rootCloseCalled": "{}",
 "rootCloseReturned": "{}", "closePromise": "<<>>", "barrierBroken": "FALSE", "unflushed": "FALSE", "callsAfterClose": "0",
 "reporterCloses": "0", "closeBeforeFlush": "FALSE", "loopNotEnded": "FALSE", "errMismatch": "FALSE", "boundsBad": "FALSE",
 "timerLog": "<<>>", "timerOpen": "<<>>", "timerBad": "FALSE",
}

RC = ("callsAfterClose", "IF rootCloseReturned # {} /\\ own THEN callsAfterClose + 1 ELSE callsAfterClose")
RC1 = ("callsAfterClose", "IF rootCloseReturned # {} THEN callsAfterClose + 1 ELSE callsAfterClose")

# (name, params, comment, [(var, expr)], [extra enabling conjuncts])
ACTIONS = [
 ("ObsInc", "id, o, v, inert", "Counter.Inc(v) has returned; o = the scope object the counter was obtained from; inert = that scope is the no-op scope",
  [("incs", "IF inert THEN incs ELSE Put(incs, id, Norm(Get(incs, id) + v))"),
   ("promised", "IF ~inert /\\ o \\notin objClosed /\\ rootCloseCalled = {}\n                 THEN Put(promised, id, Norm(Get(promised, id) + v)) ELSE promised"),
   ("nonneg", "(nonneg /\\ v >= 0 /\\ Mod = 0)"),
   ("quiesced", "FALSE")], []),
 ("ObsDeliverCounter", "id, v, own", "the reporter received a counter delta (plain ReportCounter or a cached handle's ReportCount; histogram bucket sample counts too); own: made by one of the library's own passes (report loop, Close) and not by a pass the harness drives through the test entry point",
  [("deliv", "Put(deliv, id, Norm(Get(deliv, id) + v))"),
   ("negDelivery", "(negDelivery \\/ (nonneg /\\ v <= 0))"),
   ("lateDelivery", "(lateDelivery \\/ quiesced)"),
   ("unflushed", "(unflushed \\/ own)"), RC], []),
 ("ObsUpdateCall", "id, v, inert, o", "Gauge.Update(v) has been called through a handle obtained from scope object o (inert: on a scope obtained after the root's Close; a handle of a scope object that has been closed is a stale handle - nothing is promised for either)",
  [("updc", "IF inert \\/ o \\in objClosed THEN updc ELSE Put(updc, id, Append(GetSeq(updc, id), v))")], []),
 ("ObsUpdateReturn", "id, inert, o", "Gauge.Update has returned",
  [("upd", "IF inert \\/ o \\in objClosed THEN upd ELSE Put(upd, id, Get(upd, id) + 1)")], []),
 ("ObsDeliverGauge", "id, v, own", "the reporter received a gauge value",
  [("gdl", "Put(gdl, id, Append(GetSeq(gdl, id), v))"), ("unflushed", "(unflushed \\/ own)"), RC], []),
 ("ObsPassBegin", "p", "report pass p begins; due[g] = number of updates of g if every Update that began has returned, else -1",
  [("passes", "Put(passes, p, [ended |-> FALSE,\n                               due |-> [g \\in DOMAIN updc |-> IF Get(upd, g) = Len(updc[g]) THEN Len(updc[g]) ELSE -1]])")], []),
 ("ObsPassEnd", "p", "report pass p ends.  If no other pass is in flight, every gauge whose updates had all stopped before p began must now have the last update as the reporter's most recent value",
  [("staleAfterPass", "(staleAfterPass \\/\n        (/\\ \\A q \\in DOMAIN passes : q = p \\/ passes[q].ended\n         /\\ \\E g \\in DOMAIN passes[p].due :\n              /\\ passes[p].due[g] = Len(updc[g]) /\\ Len(updc[g]) > 0\n              /\\ (g \\notin DOMAIN gdl \\/ Len(gdl[g]) = 0 \\/ Last(gdl[g]) # Last(updc[g]))))"),
   ("passes", "[passes EXCEPT ![p].ended = TRUE]")], ["p \\in DOMAIN passes"]),
 ("ObsQuiesce", "", "all scenario threads have finished and one more report pass has run", [("quiesced", "TRUE")], []),
 ("ObsFlush", "own", "the reporter's Flush was called (the flush of a pass the harness drives does not settle what the library's own passes delivered, and its deliveries are not the library's to flush)", [("unflushed", "IF own THEN FALSE ELSE unflushed"), RC], []),
 ("ObsReporterClose", "", "the reporter's Close was called",
  [("reporterCloses", "reporterCloses + 1"), ("closeBeforeFlush", "(closeBeforeFlush \\/ unflushed)"), RC1], []),
 ("ObsCloseCall", "o", "Close of subscope object o has been called", [("objClosed", "objClosed \\cup {o}")], []),
 ("ObsCloseReturn", "o", "Close of subscope object o has returned", [("objCloseDone", "objCloseDone \\cup {o}")], []),
 ("ObsSubCall", "t, po", "thread t asks scope object po for a (sub)scope",
  [("closedAtCall", "Put(closedAtCall, t, objCloseDone)"), ("rootClosedAtCall", "Put(rootClosedAtCall, t, rootCloseReturned # {})"),
   ("parentClosedAtCall", "Put(parentClosedAtCall, t, po \\in objCloseDone)")], []),
 ("ObsSubReturn", "t, o, inert", "the API returned scope object o to thread t",
  [("reacquiredClosed", "(reacquiredClosed \\/ (~inert /\\ t \\in DOMAIN closedAtCall /\\ o \\in closedAtCall[t]))"),
   ("notInert", "(notInert \\/ (~inert /\\ t \\in DOMAIN rootClosedAtCall /\\ rootClosedAtCall[t]))"),
   ("liveFromClosed", "(liveFromClosed \\/ (~inert /\\ t \\in DOMAIN parentClosedAtCall /\\ parentClosedAtCall[t]))")], []),
 ("ObsGot", "k, id, so, obj", "first-use request for metric (kind k, identity id) on scope object so returned metric object obj",
  [("objMismatch", "(objMismatch \\/ (<<k, id, so>> \\in DOMAIN gotObj /\\ gotObj[<<k, id, so>>] # obj))"),
   ("gotObj", "Put(gotObj, <<k, id, so>>, obj)")], []),
 ("ObsAlloc", "k, id, o", "the cached reporter's Allocate<k> was called for identity id on behalf of scope object o (a scope object that has been closed, or any scope once the root's Close has been called, is not a live scope: what it allocates is not counted)",
  [("allocs", "IF o \\in objClosed \\/ rootCloseCalled # {} THEN allocs ELSE Put(allocs, <<k, id, o>>, Get(allocs, <<k, id, o>>) + 1)")], []),
 ("ObsRootCloseCall", "t", "thread t calls the root's Close",
  [("rootCloseCalled", "rootCloseCalled \\cup {t}"), ("closePromise", "Put(closePromise, t, promised)")], []),
 ("ObsRootCloseReturn", "t, err, experr, loopEnded", "the root's Close returned to thread t",
  [("rootCloseReturned", "rootCloseReturned \\cup {t}"),
   ("barrierBroken", "(barrierBroken \\/ unflushed \\/\n        (nonneg /\\ \\E id \\in DOMAIN closePromise[t] : Get(deliv, id) < closePromise[t][id]))"),
   ("loopNotEnded", "(loopNotEnded \\/ ~loopEnded)"),
   ("errMismatch", "(errMismatch \\/ err # experr)")], []),
 ("ObsTimerCall", "t, id, v, inert", "thread t calls Timer.Record(v) on timer id (inert: the timer belongs to the no-op scope, which delivers nothing)",
  [("timerOpen", "Put(timerOpen, t, [id |-> id, v |-> v, seen |-> IF inert THEN 1 ELSE 0])")], []),
 ("ObsDeliverTimer", "t, id, v, wrongpath", "the reporter received a timer value on thread t (wrongpath: through the plain reporter although the root also has a cached one, whose handle takes precedence)",
  [("timerLog", "Append(timerLog, <<id, v>>)"),
   ("timerOpen", "IF t \\in DOMAIN timerOpen /\\ timerOpen[t].id = id /\\ timerOpen[t].v = v /\\ timerOpen[t].seen = 0\n                  THEN [timerOpen EXCEPT ![t].seen = 1] ELSE timerOpen"),
   ("timerBad", "(timerBad \\/ wrongpath \\/ ~(t \\in DOMAIN timerOpen /\\ timerOpen[t].id = id /\\ timerOpen[t].v = v /\\ timerOpen[t].seen = 0))")], []),
 ("ObsTimerReturn", "t", "Timer.Record returned to thread t",
  [("timerBad", "(timerBad \\/ t \\notin DOMAIN timerOpen \\/ timerOpen[t].seen # 1)"),
   ("timerOpen", "[x \\in DOMAIN timerOpen \\ {t} |-> timerOpen[x]]")], []),
 ("ObsHistBounds", "wkind, wsorted, ukind, usorted", "a histogram was created with a bucket specification (kind, sorted bounds) and uses (kind, sorted bounds)",
  [("boundsBad", "(boundsBad \\/ wkind # ukind \\/ wsorted # usorted)")], []),
 ("ObsCrash", "what", "a panic escaped the library or the scheduler found every goroutine blocked", [("crashed", "what")], []),
]

HEADER = r'''------------------------------ MODULE TallyObs ------------------------------
(***************************************************************************)
(* GENERATED by gen_tallyobs.py (only the UNCHANGED clauses are filled in  *)
(* mechanically; edit the generator, not this file).                       *)
(*                                                                         *)
(* What a user of a tally root scope can observe: the API calls made       *)
(* (increments, gauge updates, timer records, scope acquisition and Close, *)
(* first-use requests, root Close) and the calls received by the reporter *)
(* (deliveries, Allocate*, Flush, Close).  The listed properties C01, C02, *)
(* C07, C08, C09, C10 are the invariants of this module.                   *)
(*  - TallyCore (the implementation-shaped model) carries the same ghost   *)
(*    quantities, specialised to its small universe, under the same        *)
(*    invariant names, and TLC checks them on every reachable state;       *)
(*  - TallyObsTrace feeds the observable events recorded from the real     *)
(*    code through these actions and TLC evaluates these invariants after  *)
(*    every event.                                                         *)
(* Identities (metric name + tags) and scope objects are opaque values.    *)
(* Counter arithmetic is exact, or modulo Mod when Mod > 0 (the harness    *)
(* then scales increments by 2^64/Mod, so int64 wrap-around is exercised   *)
(* with exactly this arithmetic).                                          *)
(***************************************************************************)
EXTENDS Integers, Sequences, FiniteSets, TLC

VARIABLES
'''

PROPS = r'''
---------------------------------------------------------------------------
(* The properties *)

CounterIds == DOMAIN incs \cup DOMAIN deliv

(* C01 *)
NeverAhead == nonneg => \A id \in CounterIds : Get(deliv, id) <= Get(incs, id)
NoNegativeDelta == ~negDelivery
Conservation == quiesced => \A id \in CounterIds :
                   IF nonneg THEN /\ Get(promised, id) <= Get(deliv, id)
                                  /\ Get(deliv, id) <= Get(incs, id)
                   ELSE Get(promised, id) = Get(incs, id) => Get(deliv, id) = Get(incs, id)
IdleCycleSilent == ~lateDelivery

(* C02 *)
GaugeAuthentic == \A g \in DOMAIN gdl : \A i \in 1..Len(gdl[g]) :
                     \E j \in 1..Len(GetSeq(updc, g)) : updc[g][j] = gdl[g][i]
GaugeFresh == ~staleAfterPass
GaugeCountBound == \A g \in DOMAIN gdl : Len(gdl[g]) <= Get(upd, g)

(* C07 *)
ReacquireFresh == ~reacquiredClosed
NoCrash == crashed = ""

(* C08 *)
CloseBarrier == ~barrierBroken
QuietAfterClose == callsAfterClose = 0
ReporterClosedOnce == reporterCloses <= 1
ReporterClosedAfterFlush == ~closeBeforeFlush
LoopEnded == ~loopNotEnded
CloseErrorPropagated == ~errMismatch
InertAfterClose == ~notInert
(* C07: "scopes derived from a closed scope are inert" *)
ClosedParentInert == ~liveFromClosed

(* C09 *)
SameObject == ~objMismatch
(* "a cached reporter's Allocate call for it is made at most once" is said of one live scope: counted per scope
   object (a child scope that was closed and is requested again is a new scope object, C07) *)
AllocateOnce == \A ka \in DOMAIN allocs : allocs[ka] <= 1

(* C10 *)
TimersSynchronousOnce == ~timerBad

(* C20 *)
KeepsOwnBounds == ~boundsBad
=============================================================================
'''


def unchanged(changed):
    rest = [n for n in NAMES if n not in changed]
    lines, cur = [], "  /\\ UNCHANGED <<"
    for i, n in enumerate(rest):
        piece = n + (", " if i < len(rest) - 1 else ">>")
        if len(cur) + len(piece) > 110:
            lines.append(cur.rstrip())
            cur = "                 "
        cur += piece
    lines.append(cur)
    return "\n".join(lines)


def main():
    out = [HEADER]
    for i, (v, c) in enumerate(VARS):
        out.append("  %s%s %s\\* %s\n" % (v, "," if i < len(VARS) - 1 else "", " " * max(1, 18 - len(v)), c))
    out.append("\novars == <<%s>>\n" % ", ".join(NAMES))
    out.append(r'''
Norm(x) == IF Mod = 0 THEN x ELSE ((x % Mod) + Mod) % Mod
Get(f, k) == IF k \in DOMAIN f THEN f[k] ELSE 0
GetSeq(f, k) == IF k \in DOMAIN f THEN f[k] ELSE <<>>
Put(f, k, v) == IF k \in DOMAIN f THEN [f EXCEPT ![k] = v] ELSE f @@ (k :> v)
Last(s) == s[Len(s)]

''')
    out.append("ObsInit(m) ==\n" + "\n".join("  /\\ %s = %s" % (n, INIT[n]) for n in NAMES) + "\n\n")
    out.append("(* the same with every variable primed: starts the next execution of a concatenated trace *)\n")
    out.append("ObsReset(m) ==\n" + "\n".join("  /\\ %s' = %s" % (n, INIT[n]) for n in NAMES) + "\n\n")
    out.append("---------------------------------------------------------------------------\n")
    for name, params, comment, changes, guards in ACTIONS:
        out.append("(* %s *)\n" % "\n   ".join(textwrap.wrap(comment, 100)))
        out.append("%s%s ==\n" % (name, "(%s)" % params if params else ""))
        for g in guards:
            out.append("  /\\ %s\n" % g)
        for v, e in changes:
            out.append("  /\\ %s' = %s\n" % (v, e))
        out.append(unchanged([v for v, _ in changes]) + "\n\n")
    out.append(PROPS)
    here = os.path.dirname(os.path.abspath(__file__))
    open(os.path.join(here, "TallyObs.tla"), "w").write("".join(out))


main()
