----------------------------- MODULE Histogram -----------------------------
(***************************************************************************)
(* Histograms of uber-go/tally: bucket derivation (histogram.go            *)
(* BucketPairs), sample placement (stats.go RecordValue/RecordDuration,    *)
(* transcribed as the binary search sort.Search really performs), the      *)
(* per-bucket sample counters and their delivery by a report pass.         *)
(*                                                                         *)
(* Bounds are tokens 1..K (only their order matters); MIN = 0 and          *)
(* MAX = K+1 are the sentinels (-MaxFloat64/MinInt64, MaxFloat64/MaxInt64).*)
(* Samples live on a doubled scale so that "equal to a bound" and          *)
(* "strictly between two bounds" are different tokens:                     *)
(*   sample 2*b  = exactly bound b         (b in 0..K+1)                   *)
(*   sample 2*b+1 = strictly between b and b+1                             *)
(*   NEGINF = -1, POSINF = 2*(K+1)+1, NAN = 2*(K+1)+3 (value kind only).   *)
(* Serves C03, C18 (bucket pairs), C11/C17 (bucket counts), C20.           *)
(***************************************************************************)
EXTENDS Integers, Sequences, FiniteSets, TLC

CONSTANTS K,            \* number of distinct bound tokens
          MaxSpecLen,   \* longest bucket specification explored
          MaxRec,       \* samples recorded per behaviour
          DevSearchUnclamped, \* as on the pinned tree: index = len(buckets) is used unclamped (panic)
          WeakStrictGreater,  \* weakening: search for upper > sample instead of >=
          WeakNoSort,         \* weakening: bounds are not sorted
          WeakLowerFromSelf   \* weakening: lower bound taken from the bucket itself

MIN == 0
MAX == K + 1
NEGINF == -1
POSINF == 2 * MAX + 1
NAN == 2 * MAX + 3
Bounds == 1..K
FiniteSamples == 0..(2 * MAX)
ValueSamples == FiniteSamples \cup {NEGINF, POSINF, NAN}
DurationSamples == FiniteSamples

Specs == UNION {[1..n -> Bounds] : n \in 0..MaxSpecLen}

---------------------------------------------------------------------------
(* insertion sort = what sort.Sort yields (only the result matters) *)
RECURSIVE Insert(_, _)
Insert(s, x) == IF s = <<>> THEN <<x>>
                ELSE IF x <= Head(s) THEN <<x>> \o s
                ELSE <<Head(s)>> \o Insert(Tail(s), x)
RECURSIVE SortSeq0(_)
SortSeq0(s) == IF s = <<>> THEN <<>> ELSE Insert(SortSeq0(Tail(s)), Head(s))
Sorted(s) == IF WeakNoSort THEN s ELSE SortSeq0(s)

(* histogram.go:192-243.  Pairs are records [lo, hi] of bound tokens. *)
Pairs(spec) ==
  IF Len(spec) = 0 THEN << [lo |-> MIN, hi |-> MAX] >>
  ELSE LET s == TLCEval(Sorted(spec))   \* TLCEval: evaluate once (TLC's function values are lazy: every s[i] would sort again)
           n == Len(s)
           body == [i \in 1..n |-> [lo |-> IF WeakLowerFromSelf /\ i > 1 THEN s[i]
                                           ELSE IF i = 1 THEN MIN ELSE s[i - 1],
                                    hi |-> s[i]]]
       IN body \o << [lo |-> s[n], hi |-> MAX] >>

(* IEEE comparison  upper(bound token b) >= sample v *)
GE(b, v) == IF v = NAN THEN FALSE
            ELSE IF WeakStrictGreater THEN 2 * b > v ELSE 2 * b >= v

(* sort.Search(n, f): i, j := 0, n; for i < j { h := (i+j)/2; if !f(h) {i = h+1} else {j = h} }; return i
   indices here are 0-based like in Go *)
RECURSIVE SearchLoop(_, _, _, _)
SearchLoop(i, j, ups, v) ==
  IF i >= j THEN i
  ELSE LET h == (i + j) \div 2
       IN IF ~GE(ups[h + 1], v) THEN SearchLoop(h + 1, j, ups, v) ELSE SearchLoop(i, h, ups, v)

Uppers(spec) == LET P == TLCEval(Pairs(spec)) IN [i \in 1..Len(P) |-> P[i].hi]

(* 0-based bucket index, or -1 for "the implementation panics" *)
BucketIndex(spec, v) ==
  LET ups == TLCEval(Uppers(spec))
      n == Len(ups)
      idx == SearchLoop(0, n, ups, v)
  IN IF idx < n THEN idx
     ELSE IF DevSearchUnclamped THEN -1 ELSE n - 1

(* What the property demands, independently of the search: the bucket with
   the smallest upper bound >= sample (first such in bucket order) *)
RightBucketOf(spec, v) ==
  LET ups == Uppers(spec)
  IN CHOOSE i \in 0..(Len(ups) - 1) :
        /\ 2 * ups[i + 1] >= v
        /\ \A j \in 0..(i - 1) : 2 * ups[j + 1] < v

---------------------------------------------------------------------------
(* State machine: one histogram, records and report passes. *)
VARIABLES spec, kind, counts, prevc, recorded, nanRecorded, delivered, panicked, nrec

vars == <<spec, kind, counts, prevc, recorded, nanRecorded, delivered, panicked, nrec>>

NB == Len(Pairs(spec))

Init == /\ spec \in Specs
        /\ kind \in {"value", "duration"}
        /\ counts = [i \in 0..(MaxSpecLen + 1) |-> 0]
        /\ prevc = [i \in 0..(MaxSpecLen + 1) |-> 0]
        /\ recorded = 0 /\ nanRecorded = 0
        /\ delivered = [i \in 0..(MaxSpecLen + 1) |-> 0]
        /\ panicked = FALSE
        /\ nrec = 0

Record(k, v) ==
  /\ nrec < MaxRec /\ ~panicked
  /\ nrec' = nrec + 1
  /\ IF k # kind
     THEN UNCHANGED <<counts, recorded, nanRecorded, panicked>>     \* type guard
     ELSE LET idx == BucketIndex(spec, v)
          IN IF idx = -1
             THEN /\ panicked' = TRUE /\ UNCHANGED <<counts, recorded, nanRecorded>>
             ELSE /\ counts' = [counts EXCEPT ![idx] = @ + 1]
                  /\ recorded' = recorded + (IF v = NAN THEN 0 ELSE 1)
                  /\ nanRecorded' = nanRecorded + (IF v = NAN THEN 1 ELSE 0)
                  /\ UNCHANGED panicked
  /\ UNCHANGED <<spec, kind, prevc, delivered>>

Report ==
  /\ ~panicked
  /\ delivered' = [i \in DOMAIN delivered |-> delivered[i] + (counts[i] - prevc[i])]
  /\ prevc' = counts
  /\ UNCHANGED <<spec, kind, counts, recorded, nanRecorded, panicked, nrec>>

Next == \/ \E v \in ValueSamples : Record("value", v)
        \/ \E v \in DurationSamples : Record("duration", v)
        \/ Report

Spec == Init /\ [][Next]_vars

---------------------------------------------------------------------------
(* Properties (C03) *)
Tiling ==
  LET p == Pairs(spec) IN
  /\ p[1].lo = MIN
  /\ p[Len(p)].hi = MAX
  /\ \A i \in 2..Len(p) : p[i].lo = p[i - 1].hi
  /\ \A i \in 2..Len(p) : p[i].hi >= p[i - 1].hi
  /\ Len(p) = Len(spec) + 1

NoPanic == ~panicked

(* placement is judged per sample as a constant-level fact over the whole domain *)
RightBucket ==
  \A v \in FiniteSamples : BucketIndex(spec, v) = RightBucketOf(spec, v)
InfPlacement ==
  /\ BucketIndex(spec, POSINF) = NB - 1
  /\ BucketIndex(spec, NEGINF) = 0
NanAtMostOne == BucketIndex(spec, NAN) \in 0..(NB - 1)

SumTo(f, n) == LET RECURSIVE S(_)
                   S(i) == IF i < 0 THEN 0 ELSE f[i] + S(i - 1)
               IN S(n)
(* after a report with nothing recorded since: delivered = recorded (+ NaNs) *)
Conserved ==
  (counts = prevc /\ ~panicked) =>
     SumTo(delivered, MaxSpecLen + 1) = recorded + nanRecorded
NeverAhead == SumTo(delivered, MaxSpecLen + 1) <= recorded + nanRecorded
=============================================================================
