SPECIFICATION Spec
CONSTANTS
  K = 3
  MaxSpecLen = 3
  MaxRec = 2
  DevSearchUnclamped = FALSE
  WeakStrictGreater = FALSE
  WeakNoSort = FALSE
  WeakLowerFromSelf = FALSE
INVARIANTS Tiling NoPanic RightBucket InfPlacement NanAtMostOne Conserved NeverAhead
CHECK_DEADLOCK FALSE
