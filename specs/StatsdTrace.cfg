SPECIFICATION TraceSpec
CONSTANTS
  K = 4
  MaxSpecLen = 0
  MaxRec = 0
  DevSearchUnclamped = FALSE
  WeakStrictGreater = FALSE
  WeakNoSort = FALSE
  WeakLowerFromSelf = FALSE
  WeakLowerOpenEndIsInfinity = FALSE
  WeakRateUnsetIsZero = FALSE
  WeakTwoCalls = FALSE
CHECK_DEADLOCK FALSE
