SPECIFICATION TraceSpec
CONSTANTS
  MaxChildren = 5
  MaxCalls = 1000000
  Calls = {"x"}
  WeakSkipLastChild = FALSE
  WeakFirstChildTwice = FALSE
  WeakCapabilitiesOr = FALSE
  WeakStopAtIncapableChild = FALSE
INVARIANTS EveryChildGetsEveryCallOnce
CHECK_DEADLOCK FALSE
