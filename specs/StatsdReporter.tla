---------------------------- MODULE StatsdReporter ----------------------------
(***************************************************************************)
(* statsd/reporter.go: every Report* call results in exactly one call on   *)
(* the statsd client (Inc / Gauge / TimingDuration) with the same name,    *)
(* the value (gauges truncated towards zero) and the configured sample     *)
(* rate (1 when unset); histogram bucket samples are an Inc on the stat    *)
(* <name>.<B(lower)>-<B(upper)> with B(MIN) = "-infinity", B(MAX) =        *)
(* "infinity" and B(b) = Fmt(b) otherwise, Fmt being the rendering at the  *)
(* configured precision / Go duration syntax, injective on the bounds used.*)
(* Bounds are the tokens of Histogram.tla.  Serves C18.                    *)
(***************************************************************************)
EXTENDS Histogram

CONSTANTS WeakLowerOpenEndIsInfinity,  \* weakening: the lower open end is rendered "infinity"
          WeakRateUnsetIsZero,         \* weakening: an unset sample rate is passed on as 0
          WeakTwoCalls                 \* weakening: a counter is sent twice

B(b) == IF b = MIN THEN (IF WeakLowerOpenEndIsInfinity THEN "infinity" ELSE "-infinity")
        ELSE IF b = MAX THEN "infinity" ELSE ToString(b)   \* Fmt(b): the token rendered as a string, injective by assumption
BucketStat(name, lo, hi) == <<name, B(lo), B(hi)>>
Rate(cfg) == IF cfg = "unset" THEN (IF WeakRateUnsetIsZero THEN "0" ELSE "1") ELSE cfg

(* the client calls a report results in *)
Forward(mk, name, v, trunc, lo, hi, cfgRate) ==
  LET one == CASE mk = "counter" -> [m |-> "Inc", stat |-> <<name>>, v |-> v, rate |-> Rate(cfgRate)]
               [] mk = "gauge"   -> [m |-> "Gauge", stat |-> <<name>>, v |-> trunc, rate |-> Rate(cfgRate)]
               [] mk = "timer"   -> [m |-> "TimingDuration", stat |-> <<name>>, v |-> v, rate |-> Rate(cfgRate)]
               [] mk = "bucket"  -> [m |-> "Inc", stat |-> BucketStat(name, lo, hi), v |-> v, rate |-> Rate(cfgRate)]
  IN IF WeakTwoCalls /\ mk = "counter" THEN <<one, one>> ELSE <<one>>

(* two buckets of one histogram with different bounds never share a stat name *)
StatNames(sp) == {BucketStat("h", Pairs(sp)[i].lo, Pairs(sp)[i].hi) : i \in 1..Len(Pairs(sp))}
PairSetOf(sp) == {<<Pairs(sp)[i].lo, Pairs(sp)[i].hi>> : i \in 1..Len(Pairs(sp))}
NamesDistinct == Cardinality(StatNames(spec)) = Cardinality(PairSetOf(spec))
OpenEndsRendered == /\ BucketStat("h", Pairs(spec)[1].lo, Pairs(spec)[1].hi)[2] = "-infinity"
                    /\ BucketStat("h", Pairs(spec)[NB].lo, Pairs(spec)[NB].hi)[3] = "infinity"
=============================================================================
