------------------------------ MODULE TallyObs ------------------------------
(***************************************************************************)
(* What a user of a tally root scope can observe: the API calls made       *)
(* (increments, gauge updates, timer records, scope acquisition and Close, *)
(* root Close) and the calls received by the reporter (deliveries, Flush,  *)
(* Close).  The listed properties C01, C02, C07, C08, C09, C10 are the     *)
(* invariants of this module.  It is used twice:                           *)
(*  - TallyCore (the implementation-shaped model) carries these variables  *)
(*    as ghost state and TLC checks the invariants on every reachable      *)
(*    state of the model;                                                  *)
(*  - TallyObsTrace feeds the observable events recorded from the real     *)
(*    code through the very same actions and TLC evaluates the very same   *)
(*    invariants after every event.                                        *)
(* Identities (metric name + tags) and scope objects are opaque values.    *)
(* Counter arithmetic is exact, or modulo Mod when Mod > 0 (the harness    *)
(* then scales increments by 2^64/Mod, so int64 wrap-around is exercised   *)
(* with exactly this arithmetic).                                          *)
(***************************************************************************)
EXTENDS Integers, Sequences, FiniteSets, TLC

VARIABLES
  Mod,          \* 0 = exact arithmetic, else counter values are in Z/Mod
  nonneg,       \* all counter increments so far were >= 0 (and no wrap is possible)
  incs,         \* counter identity -> sum of increments applied (all incarnations)
  promised,     \* counter identity -> sum of increments that must be delivered
                \*   (made on a live scope object before that object's Close was called)
  deliv,        \* counter identity -> sum of deltas delivered to the reporter
  negDelivery,  \* a delivered counter delta was <= 0 although all increments are >= 0
  quiesced,     \* activity has stopped and one more report pass has run
  lateDelivery, \* something was delivered for a counter after quiescence with no new increment
  updc,         \* gauge identity -> sequence of values passed to Update (calls that have begun)
  upd,          \* gauge identity -> number of Update calls that have returned
  gdl,          \* gauge identity -> sequence of values delivered
  passes,       \* pass id -> [ended, due]; due[g] = number of updates of g when the pass began, if all had returned
  staleAfterPass, \* a pass that started after the last update ended, alone, with a stale last-delivered value
  closedAtCall, \* thread -> scope objects already closed when the thread asked for a scope
  reacquiredClosed, \* the API handed out a scope object whose Close had been called before the request
  objClosed,    \* scope objects whose Close has been called
  objOf,        \* scope object -> identity prefix (for reporting only)
  rootCloseCalled, rootCloseReturned,  \* sets of threads
  closePromise, \* thread -> (counter identity -> promised sum at the moment the thread called root Close)
  barrierBroken,\* a root Close returned before everything promised at its call was delivered and flushed
  unflushed,    \* a delivery happened since the last Flush
  callsAfterClose, \* number of reporter calls after the first root Close returned
  reporterCloses,  \* number of Close calls on the reporter
  closeBeforeFlush,\* reporter was closed while deliveries were unflushed
  timerLog,     \* sequence of [id, v] timer deliveries
  timerOpen,    \* thread -> [id, v, seen] Record call in progress
  timerBad      \* a timer delivery outside a Record window, or a Record that returned without exactly one delivery

ovars == <<Mod, nonneg, incs, promised, deliv, negDelivery, quiesced, lateDelivery, updc, upd, gdl, passes,
           staleAfterPass, closedAtCall, reacquiredClosed, objClosed, objOf, rootCloseCalled, rootCloseReturned, closePromise,
           barrierBroken, unflushed, callsAfterClose, reporterCloses, closeBeforeFlush, timerLog, timerOpen, timerBad>>

Norm(x) == IF Mod = 0 THEN x ELSE ((x % Mod) + Mod) % Mod
Get(f, k) == IF k \in DOMAIN f THEN f[k] ELSE 0
GetSeq(f, k) == IF k \in DOMAIN f THEN f[k] ELSE <<>>
Put(f, k, v) == IF k \in DOMAIN f THEN [f EXCEPT ![k] = v] ELSE f @@ (k :> v)
Last(s) == s[Len(s)]

ObsInit(m) ==
  /\ Mod = m /\ nonneg = TRUE
  /\ incs = <<>> /\ promised = <<>> /\ deliv = <<>>
  /\ negDelivery = FALSE /\ quiesced = FALSE /\ lateDelivery = FALSE
  /\ updc = <<>> /\ upd = <<>> /\ gdl = <<>> /\ passes = <<>>
  /\ staleAfterPass = FALSE /\ closedAtCall = <<>> /\ reacquiredClosed = FALSE
  /\ objClosed = {} /\ objOf = <<>>
  /\ rootCloseCalled = {} /\ rootCloseReturned = {} /\ closePromise = <<>>
  /\ barrierBroken = FALSE /\ unflushed = FALSE /\ callsAfterClose = 0
  /\ reporterCloses = 0 /\ closeBeforeFlush = FALSE
  /\ timerLog = <<>> /\ timerOpen = <<>> /\ timerBad = FALSE

ObsReset(m) ==
  /\ Mod' = m /\ nonneg' = TRUE
  /\ incs' = <<>> /\ promised' = <<>> /\ deliv' = <<>>
  /\ negDelivery' = FALSE /\ quiesced' = FALSE /\ lateDelivery' = FALSE
  /\ updc' = <<>> /\ upd' = <<>> /\ gdl' = <<>> /\ passes' = <<>>
  /\ staleAfterPass' = FALSE /\ closedAtCall' = <<>> /\ reacquiredClosed' = FALSE
  /\ objClosed' = {} /\ objOf' = <<>>
  /\ rootCloseCalled' = {} /\ rootCloseReturned' = {} /\ closePromise' = <<>>
  /\ barrierBroken' = FALSE /\ unflushed' = FALSE /\ callsAfterClose' = 0
  /\ reporterCloses' = 0 /\ closeBeforeFlush' = FALSE
  /\ timerLog' = <<>> /\ timerOpen' = <<>> /\ timerBad' = FALSE


(* every reporter call counts towards "quiet after Close" *)
ReporterCall == callsAfterClose' = IF rootCloseReturned # {} THEN callsAfterClose + 1 ELSE callsAfterClose

---------------------------------------------------------------------------
(* API events *)

(* Counter.Inc(v) returned; o = scope object the counter belongs to ("" for none/inert),
   live = that object had been returned live by the API and its Close has not been called *)
ObsInc(id, o, v, inert) ==
  /\ incs' = IF inert THEN incs ELSE Put(incs, id, Norm(Get(incs, id) + v))
  /\ promised' = IF ~inert /\ o \notin objClosed /\ rootCloseCalled = {}
                 THEN Put(promised, id, Norm(Get(promised, id) + v)) ELSE promised
  /\ nonneg' = (nonneg /\ v >= 0 /\ Mod = 0)
  /\ quiesced' = FALSE
  /\ UNCHANGED <<Mod, deliv, negDelivery, lateDelivery, updc, upd, gdl, passes, staleAfterPass, closedAtCall, reacquiredClosed,
                 objClosed, objOf, rootCloseCalled, rootCloseReturned, closePromise, barrierBroken, unflushed,
                 callsAfterClose, reporterCloses, closeBeforeFlush, timerLog, timerOpen, timerBad>>

ObsDeliverCounter(id, v) ==
  /\ deliv' = Put(deliv, id, Norm(Get(deliv, id) + v))
  /\ negDelivery' = (negDelivery \/ (nonneg /\ v <= 0))
  /\ lateDelivery' = (lateDelivery \/ quiesced)
  /\ unflushed' = TRUE
  /\ ReporterCall
  /\ UNCHANGED <<Mod, nonneg, incs, promised, quiesced, updc, upd, gdl, passes, staleAfterPass, closedAtCall, reacquiredClosed,
                 objClosed, objOf, rootCloseCalled, rootCloseReturned, closePromise, barrierBroken,
                 reporterCloses, closeBeforeFlush, timerLog, timerOpen, timerBad>>

(* Gauge.Update(v) has been called (the call begins) *)
ObsUpdateCall(id, v) ==
  /\ updc' = Put(updc, id, Append(GetSeq(updc, id), v))
  /\ UNCHANGED <<Mod, nonneg, incs, promised, deliv, negDelivery, quiesced, lateDelivery, upd, gdl, passes,
                 staleAfterPass, closedAtCall, reacquiredClosed, objClosed, objOf, rootCloseCalled, rootCloseReturned, closePromise,
                 barrierBroken, unflushed, callsAfterClose, reporterCloses, closeBeforeFlush, timerLog, timerOpen, timerBad>>

(* Gauge.Update has returned *)
ObsUpdateReturn(id) ==
  /\ upd' = Put(upd, id, Get(upd, id) + 1)
  /\ UNCHANGED <<Mod, nonneg, incs, promised, deliv, negDelivery, quiesced, lateDelivery, updc, gdl, passes,
                 staleAfterPass, closedAtCall, reacquiredClosed, objClosed, objOf, rootCloseCalled, rootCloseReturned, closePromise,
                 barrierBroken, unflushed, callsAfterClose, reporterCloses, closeBeforeFlush, timerLog, timerOpen, timerBad>>

ObsDeliverGauge(id, v) ==
  /\ gdl' = Put(gdl, id, Append(GetSeq(gdl, id), v))
  /\ unflushed' = TRUE
  /\ ReporterCall
  /\ UNCHANGED <<Mod, nonneg, incs, promised, deliv, negDelivery, quiesced, lateDelivery, updc, upd, passes,
                 staleAfterPass, closedAtCall, reacquiredClosed, objClosed, objOf, rootCloseCalled, rootCloseReturned, closePromise, barrierBroken,
                 reporterCloses, closeBeforeFlush, timerLog, timerOpen, timerBad>>

(* pass p begins; due[g] = number of updates of g if every Update that began has returned, else -1 *)
ObsPassBegin(p) ==
  /\ passes' = Put(passes, p, [ended |-> FALSE,
                               due |-> [g \in DOMAIN updc |-> IF Get(upd, g) = Len(updc[g]) THEN Len(updc[g]) ELSE -1]])
  /\ UNCHANGED <<Mod, nonneg, incs, promised, deliv, negDelivery, quiesced, lateDelivery, updc, upd, gdl,
                 staleAfterPass, closedAtCall, reacquiredClosed, objClosed, objOf, rootCloseCalled, rootCloseReturned, closePromise,
                 barrierBroken, unflushed, callsAfterClose, reporterCloses, closeBeforeFlush, timerLog, timerOpen, timerBad>>

(* pass p ends.  If no other pass is in flight, every gauge whose updates had all stopped before p
   began must now have the last update as the reporter's most recent value.  (With another pass in
   flight that pass may legitimately be holding the fresh value between its swap and its delivery.) *)
ObsPassEnd(p) ==
  /\ p \in DOMAIN passes
  /\ staleAfterPass' = (staleAfterPass \/
        (/\ \A q \in DOMAIN passes : q = p \/ passes[q].ended
         /\ \E g \in DOMAIN passes[p].due :
              /\ passes[p].due[g] = Len(updc[g]) /\ Len(updc[g]) > 0
              /\ (g \notin DOMAIN gdl \/ Len(gdl[g]) = 0 \/ Last(gdl[g]) # Last(updc[g]))))
  /\ passes' = [passes EXCEPT ![p].ended = TRUE]
  /\ UNCHANGED <<Mod, nonneg, incs, promised, deliv, negDelivery, quiesced, lateDelivery, updc, upd, gdl,
                 closedAtCall, reacquiredClosed, objClosed, objOf, rootCloseCalled, rootCloseReturned, closePromise,
                 barrierBroken, unflushed, callsAfterClose, reporterCloses, closeBeforeFlush, timerLog, timerOpen, timerBad>>

(* a thread asks for a (sub)scope; when the API returns object o it must not be one whose Close had
   already been called when the request was made *)
ObsSubCall(t) ==
  /\ closedAtCall' = Put(closedAtCall, t, objClosed)
  /\ UNCHANGED <<Mod, nonneg, incs, promised, deliv, negDelivery, quiesced, lateDelivery, updc, upd, gdl, passes,
                 staleAfterPass, reacquiredClosed, objClosed, objOf, rootCloseCalled, rootCloseReturned, closePromise,
                 barrierBroken, unflushed, callsAfterClose, reporterCloses, closeBeforeFlush, timerLog, timerOpen, timerBad>>

ObsSubReturn(t, o) ==
  /\ reacquiredClosed' = (reacquiredClosed \/ (t \in DOMAIN closedAtCall /\ o \in closedAtCall[t]))
  /\ UNCHANGED <<Mod, nonneg, incs, promised, deliv, negDelivery, quiesced, lateDelivery, updc, upd, gdl, passes,
                 staleAfterPass, closedAtCall, objClosed, objOf, rootCloseCalled, rootCloseReturned, closePromise,
                 barrierBroken, unflushed, callsAfterClose, reporterCloses, closeBeforeFlush, timerLog, timerOpen, timerBad>>

ObsQuiesce ==
  /\ quiesced' = TRUE
  /\ UNCHANGED <<Mod, nonneg, incs, promised, deliv, negDelivery, lateDelivery, updc, upd, gdl, passes,
                 staleAfterPass, closedAtCall, reacquiredClosed, objClosed, objOf, rootCloseCalled, rootCloseReturned, closePromise,
                 barrierBroken, unflushed, callsAfterClose, reporterCloses, closeBeforeFlush, timerLog, timerOpen, timerBad>>

ObsFlush ==
  /\ unflushed' = FALSE
  /\ ReporterCall
  /\ UNCHANGED <<Mod, nonneg, incs, promised, deliv, negDelivery, quiesced, lateDelivery, updc, upd, gdl, passes,
                 staleAfterPass, closedAtCall, reacquiredClosed, objClosed, objOf, rootCloseCalled, rootCloseReturned, closePromise,
                 barrierBroken, reporterCloses, closeBeforeFlush, timerLog, timerOpen, timerBad>>

ObsReporterClose ==
  /\ reporterCloses' = reporterCloses + 1
  /\ closeBeforeFlush' = (closeBeforeFlush \/ unflushed)
  /\ ReporterCall
  /\ UNCHANGED <<Mod, nonneg, incs, promised, deliv, negDelivery, quiesced, lateDelivery, updc, upd, gdl, passes,
                 staleAfterPass, closedAtCall, reacquiredClosed, objClosed, objOf, rootCloseCalled, rootCloseReturned, closePromise,
                 barrierBroken, unflushed, timerLog, timerOpen, timerBad>>

(* Close of a subscope object has been called (the call begins) *)
ObsCloseCall(o) ==
  /\ objClosed' = objClosed \cup {o}
  /\ UNCHANGED <<Mod, nonneg, incs, promised, deliv, negDelivery, quiesced, lateDelivery, updc, upd, gdl, passes,
                 staleAfterPass, closedAtCall, reacquiredClosed, objOf, rootCloseCalled, rootCloseReturned, closePromise,
                 barrierBroken, unflushed, callsAfterClose, reporterCloses, closeBeforeFlush, timerLog, timerOpen, timerBad>>

ObsRootCloseCall(t) ==
  /\ rootCloseCalled' = rootCloseCalled \cup {t}
  /\ closePromise' = Put(closePromise, t, promised)
  /\ UNCHANGED <<Mod, nonneg, incs, promised, deliv, negDelivery, quiesced, lateDelivery, updc, upd, gdl, passes,
                 staleAfterPass, closedAtCall, reacquiredClosed, objClosed, objOf, rootCloseReturned,
                 barrierBroken, unflushed, callsAfterClose, reporterCloses, closeBeforeFlush, timerLog, timerOpen, timerBad>>

ObsRootCloseReturn(t) ==
  /\ rootCloseReturned' = rootCloseReturned \cup {t}
  /\ barrierBroken' = (barrierBroken \/ unflushed \/
        (nonneg /\ \E id \in DOMAIN closePromise[t] : Get(deliv, id) < closePromise[t][id]))
  /\ UNCHANGED <<Mod, nonneg, incs, promised, deliv, negDelivery, quiesced, lateDelivery, updc, upd, gdl, passes,
                 staleAfterPass, closedAtCall, reacquiredClosed, objClosed, objOf, rootCloseCalled, closePromise,
                 unflushed, callsAfterClose, reporterCloses, closeBeforeFlush, timerLog, timerOpen, timerBad>>

ObsTimerCall(t, id, v) ==
  /\ timerOpen' = Put(timerOpen, t, [id |-> id, v |-> v, seen |-> 0])
  /\ UNCHANGED <<Mod, nonneg, incs, promised, deliv, negDelivery, quiesced, lateDelivery, updc, upd, gdl, passes,
                 staleAfterPass, closedAtCall, reacquiredClosed, objClosed, objOf, rootCloseCalled, rootCloseReturned, closePromise,
                 barrierBroken, unflushed, callsAfterClose, reporterCloses, closeBeforeFlush, timerLog, timerBad>>

ObsDeliverTimer(t, id, v) ==
  /\ timerLog' = Append(timerLog, <<id, v>>)
  /\ IF t \in DOMAIN timerOpen /\ timerOpen[t].id = id /\ timerOpen[t].v = v /\ timerOpen[t].seen = 0
     THEN /\ timerOpen' = [timerOpen EXCEPT ![t].seen = 1] /\ UNCHANGED timerBad
     ELSE /\ timerBad' = TRUE /\ UNCHANGED timerOpen
  /\ ReporterCall
  /\ UNCHANGED <<Mod, nonneg, incs, promised, deliv, negDelivery, quiesced, lateDelivery, updc, upd, gdl, passes,
                 staleAfterPass, closedAtCall, reacquiredClosed, objClosed, objOf, rootCloseCalled, rootCloseReturned, closePromise,
                 barrierBroken, unflushed, reporterCloses, closeBeforeFlush>>

ObsTimerReturn(t) ==
  /\ timerBad' = (timerBad \/ t \notin DOMAIN timerOpen \/ timerOpen[t].seen # 1)
  /\ timerOpen' = [x \in DOMAIN timerOpen \ {t} |-> timerOpen[x]]
  /\ UNCHANGED <<Mod, nonneg, incs, promised, deliv, negDelivery, quiesced, lateDelivery, updc, upd, gdl, passes,
                 staleAfterPass, closedAtCall, reacquiredClosed, objClosed, objOf, rootCloseCalled, rootCloseReturned, closePromise,
                 barrierBroken, unflushed, callsAfterClose, reporterCloses, closeBeforeFlush, timerLog>>

---------------------------------------------------------------------------
(* The properties *)

CounterIds == DOMAIN incs \cup DOMAIN deliv

(* C01 *)
NeverAhead == nonneg => \A id \in CounterIds : Get(deliv, id) <= Get(incs, id)
NoNegativeDelta == ~negDelivery
Conservation == quiesced => \A id \in CounterIds :
                   IF nonneg THEN /\ Get(promised, id) <= Get(deliv, id)
                                  /\ Get(deliv, id) <= Get(incs, id)
                   ELSE Get(promised, id) = Get(incs, id) => Get(deliv, id) = Get(incs, id)
IdleCycleSilent == ~lateDelivery

(* C02 *)
GaugeAuthentic == \A g \in DOMAIN gdl : \A i \in 1..Len(gdl[g]) :
                     \E j \in 1..Len(GetSeq(updc, g)) : updc[g][j] = gdl[g][i]
GaugeFresh == ~staleAfterPass
GaugeCountBound == \A g \in DOMAIN gdl : Len(gdl[g]) <= Get(upd, g)

(* C07 *)
ReacquireFresh == ~reacquiredClosed

(* C08 *)
CloseBarrier == ~barrierBroken
QuietAfterClose == callsAfterClose = 0
ReporterClosedOnce == reporterCloses <= 1
ReporterClosedAfterFlush == ~closeBeforeFlush

(* C10 *)
TimersSynchronousOnce == ~timerBad
=============================================================================
