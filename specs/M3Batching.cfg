SPECIFICATION Spec
CONSTANTS
  MaxPacket = 8
  Overhead = 2
  Env = 2
  CSizes = {2, 3, 4, 6}
  MaxItems = 5
  DevBucketTagsUncharged = FALSE
  DevEnvelopeConst = FALSE
  WeakCheckAfterAppend = FALSE
  WeakNoResetOfBytes = FALSE
  WeakFlushDropsOverflowing = FALSE
INVARIANTS NoDropNoDup ChargedWithinFree OverflowStartsNext NoEmptyBatch DatagramWithinLimit
CHECK_DEADLOCK FALSE
