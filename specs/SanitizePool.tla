---------------------------- MODULE SanitizePool ----------------------------
(***************************************************************************)
(* The pooled buffers of the sanitizer (sanitize.go getSanitizeBuffer /    *)
(* putSanitizeBuffer) under concurrent calls: Get a buffer (a pooled one   *)
(* or a new one), write the sanitized bytes, take the result string, Reset *)
(* and Put the buffer back.  A result must never change after it was       *)
(* returned.  Serves the concurrency clause of C06.                        *)
(***************************************************************************)
EXTENDS Integers, Sequences, FiniteSets, TLC

CONSTANTS Threads, Calls,            \* each thread makes Calls calls
          WeakResultAliasesBuffer,   \* weakening: the result shares the buffer's memory (no copy in String())
          WeakPutBeforeString        \* weakening: the buffer is put back before the result is taken

VARIABLES pool,     \* set of buffer ids lying in the pool
          mem,      \* buffer id -> content (sequence)
          nbuf,
          pc, held, ncall,
          results   \* set of [owner, call, expected, buf]  buf = 0 for an independent copy, else the aliased buffer
vars == <<pool, mem, nbuf, pc, held, ncall, results>>

Content(t, n) == <<t, n>>      \* what call n of thread t writes

Init == /\ pool = {} /\ mem = <<>> /\ nbuf = 0
        /\ pc = [t \in Threads |-> "get"] /\ held = [t \in Threads |-> 0] /\ ncall = [t \in Threads |-> 1]
        /\ results = {}

Get(t) == /\ pc[t] = "get" /\ ncall[t] <= Calls
          /\ \/ \E b \in pool : pool' = pool \ {b} /\ held' = [held EXCEPT ![t] = b] /\ UNCHANGED <<nbuf, mem>>
             \/ /\ nbuf' = nbuf + 1 /\ mem' = mem @@ ((nbuf + 1) :> <<>>)
                /\ held' = [held EXCEPT ![t] = nbuf + 1] /\ UNCHANGED pool
          /\ pc' = [pc EXCEPT ![t] = "write"] /\ UNCHANGED <<ncall, results>>

Write(t) == /\ pc[t] = "write"
            /\ mem' = [mem EXCEPT ![held[t]] = @ \o Content(t, ncall[t])]
            /\ pc' = [pc EXCEPT ![t] = IF WeakPutBeforeString THEN "put" ELSE "string"]
            /\ UNCHANGED <<pool, nbuf, held, ncall, results>>

String(t) == /\ pc[t] = "string"
             /\ results' = results \cup {[owner |-> t, call |-> ncall[t], expected |-> Content(t, ncall[t]),
                                          buf |-> IF WeakResultAliasesBuffer \/ WeakPutBeforeString THEN held[t] ELSE 0,
                                          value |-> mem[held[t]]]}
             /\ pc' = [pc EXCEPT ![t] = IF WeakPutBeforeString THEN "next" ELSE "put"]
             /\ UNCHANGED <<pool, mem, nbuf, held, ncall>>

Put(t) == /\ pc[t] = "put"
          /\ mem' = [mem EXCEPT ![held[t]] = <<>>]          \* Reset
          /\ pool' = pool \cup {held[t]}
          /\ pc' = [pc EXCEPT ![t] = IF WeakPutBeforeString THEN "string" ELSE "next"]
          /\ UNCHANGED <<nbuf, held, ncall, results>>

NextCall(t) == /\ pc[t] = "next" /\ ncall' = [ncall EXCEPT ![t] = @ + 1] /\ pc' = [pc EXCEPT ![t] = "get"]
               /\ UNCHANGED <<pool, mem, nbuf, held, results>>

Next == \E t \in Threads : Get(t) \/ Write(t) \/ String(t) \/ Put(t) \/ NextCall(t)
Spec == Init /\ [][Next]_vars

(* what a returned result reads as now *)
Now(r) == IF r.buf = 0 THEN r.value ELSE mem[r.buf]
ResultsStable == \A r \in results : Now(r) = r.expected
ResultCorrect == \A r \in results : r.value = r.expected
=============================================================================
