SPECIFICATION TSSpec
CONSTANTS
  Ids = {"a", "b"}
  MaxOps = 4
  WeakSnapshotSharesState = FALSE
  WeakCloseDropsSubscope = FALSE
  WeakGaugeAccumulates = FALSE
INVARIANTS SnapshotsIndependent GaugeShowsLastUpdate MetricsSurviveClose
CHECK_DEADLOCK FALSE
