-------------------------- MODULE MultiReporterTrace --------------------------
(***************************************************************************)
(* Replays call histories made on real multi reporters through             *)
(* MultiReporter.tla.  new {n, caps, got_caps} | call {d, got, order}:     *)
(* got[c] = what child c received during the call, order = the children in *)
(* the order their (globally numbered) log entries were written.           *)
(***************************************************************************)
EXTENDS MultiReporter, Json
VARIABLES l
TraceLog == ndJsonDeserialize("trace.ndjson")
Fail(c) == PrintT(<<"FAIL", l, c>>)
TInit == l = 1 /\ n = 0 /\ caps = <<>> /\ logs = <<>> /\ plog = <<>> /\ order = <<>>
TNext ==
  /\ l <= Len(TraceLog)
  /\ LET r == TraceLog[l] IN
     CASE r.e = "new" ->
            /\ n' = r.n /\ caps' = [c \in 1..r.n |-> <<r.caps[c][1], r.caps[c][2]>>]
            /\ logs' = [c \in 1..r.n |-> <<>>] /\ plog' = <<>> /\ order' = <<>>
            /\ IF r.got_caps[1] # Capability(1)' \/ r.got_caps[2] # Capability(2)' THEN Fail("CapabilityConjunction") ELSE TRUE
       [] r.e = "call" ->
            /\ Fanout(r.d)
            /\ IF \E c \in 1..n : r.got[c] # <<r.d>> THEN Fail("EveryChildGetsEveryCallOnce")
               ELSE IF r.order # order' THEN Fail("ChildrenInOrder") ELSE TRUE
       [] r.e = "conc" ->
            (* the same calls made from several goroutines at once: every child still got each of them once *)
            /\ UNCHANGED mvars
            /\ IF \E c \in 1..Len(r.got) : r.got[c][1] # r.want \/ r.got[c][2] # r.want THEN Fail("EveryChildGetsEveryCallOnce:concurrent-callers") ELSE TRUE
       [] OTHER -> UNCHANGED mvars
  /\ l' = l + 1
TraceSpec == TInit /\ [][TNext]_<<mvars, l>>
=============================================================================
