--------------------------- MODULE TestScopeTrace ---------------------------
(***************************************************************************)
(* Replays record / snapshot histories executed on a real tally test scope *)
(* through TestScope.tla and compares every snapshot with the model state. *)
(*  new | inc id v | upd id v | rec id v | hnew id ups | hrec id up |      *)
(*  closesub ids | snap {c, g, t, h, keys_ok} | resnap {i, c, g, t, h}     *)
(*  (snapshot i re-read after later recording / after the harness wrote    *)
(*  into a newer snapshot's maps)                                          *)
(***************************************************************************)
EXTENDS TestScope, Json
VARIABLES l
TraceLog == ndJsonDeserialize("trace.ndjson")
Fail(c) == PrintT(<<"FAIL", l, c>>)
TInit == TSInit /\ l = 1
Obs(r) == [c |-> r.c, g |-> r.g, t |-> r.t, h |-> r.h]
TNext ==
  /\ l <= Len(TraceLog)
  /\ LET r == TraceLog[l] IN
     CASE r.e = "new" -> ctr' = <<>> /\ gg' = <<>> /\ tmr' = <<>> /\ hst' = <<>> /\ snaps' = <<>> /\ lastUpd' = <<>> /\ seen' = {}
       [] r.e = "inc" -> Inc(r.id, r.v)
       [] r.e = "upd" -> Upd(r.id, r.v)
       [] r.e = "rec" -> Rec(r.id, r.v)
       [] r.e = "hnew" -> HNew(r.id, {r.ups[i] : i \in 1..Len(r.ups)})
       [] r.e = "hrec" -> HRec(r.id, r.up)
       [] r.e = "closesub" -> CloseSub({r.ids[i] : i \in 1..Len(r.ids)})
       [] r.e = "snap" ->
            /\ Snap
            /\ IF Obs(r).c # ctr THEN Fail("SnapshotCounters")
               ELSE IF Obs(r).g # gg THEN Fail("SnapshotGauges")
               ELSE IF Obs(r).t # tmr THEN Fail("SnapshotTimers")
               ELSE IF Obs(r).h # hst THEN Fail("SnapshotHistograms")
               ELSE IF ~r.keys_ok THEN Fail("SnapshotKeys")
               ELSE TRUE
       [] r.e = "resnap" ->
            /\ IF Obs(r) # snaps[r.i].val THEN Fail("SnapshotIndependent") ELSE TRUE
            /\ UNCHANGED <<ctr, gg, tmr, hst, snaps, lastUpd, seen>>
       [] OTHER -> UNCHANGED <<ctr, gg, tmr, hst, snaps, lastUpd, seen>>
  /\ l' = l + 1 /\ UNCHANGED nops
TraceSpec == TInit /\ [][TNext]_<<tsvars, l>>
=============================================================================
