SPECIFICATION Spec
CONSTANTS
  Threads = {"a", "b", "c"}
  NRec = 2
  WeakSharedLockAppend = FALSE
INVARIANTS ExactlyOnce
CHECK_DEADLOCK FALSE
