SPECIFICATION Spec
CONSTANTS
  Threads = {"a", "b", "c"}
  NRec = 2
  WeakSharedLockAppend = FALSE
  WeakKeepCap = 0
INVARIANTS ExactlyOnce
CHECK_DEADLOCK FALSE
