---------------------------- MODULE MCScopeNaming ----------------------------
(* Exhaustive check of the derivation algebra of ScopeNaming over a small domain:
   all roots x all programs <Tagged(m1), SubScope(n), Tagged(m2)> and regroupings. *)
EXTENDS ScopeNaming

Names == {"", "a", "b"}
Vals == {"a", "b"}
TagMaps == UNION {[D -> Vals] : D \in SUBSET {"a", "b"}}
NoSan == [n |-> <<>>, k |-> <<>>, v |-> <<>>]
SEP == "."

VARIABLES rp, rt, m1, m2, nm
vars == <<rp, rt, m1, m2, nm>>
Init == rp \in {"", "a"} /\ rt \in TagMaps /\ m1 \in TagMaps /\ m2 \in TagMaps /\ nm \in Names
Next == UNCHANGED vars
Spec == Init /\ [][Next]_vars

R == RootScope(rp, rt, NoSan)
T(h, m) == TaggedOf(h, SEP, m, NoSan)
S(h, n) == SubScopeOf(h, SEP, n, NoSan)

TaggedIdempotent == SameIdentity(T(T(R, m1), m1), T(R, m1))
RegroupIndependent == SameIdentity(T(T(R, m1), m2), T(R, Merge(m1, m2)))
LaterWins == \A k \in DOMAIN m2 : T(T(R, m1), m2).tags[k] = m2[k]
InheritedKept == \A k \in (DOMAIN rt \ (DOMAIN m1 \cup DOMAIN m2)) : T(T(R, m1), m2).tags[k] = rt[k]
SubCommutesWithTagged == SameIdentity(T(S(R, nm), m1), S(T(R, m1), nm))
TaggedKeepsPrefix == T(R, m1).prefix = R.prefix
SubKeepsTags == S(R, nm).tags = R.tags
EmptyPrefixNoSeparator == (rp = "") => MetricName(R, SEP, "a", NoSan) = "a"
NameJoined == (rp # "") => MetricName(S(R, "b"), SEP, "a", NoSan) = rp \o "." \o "b" \o "." \o "a"
(* equal identities have equal registry keys, and on delimiter-free identities the converse *)
KeyFollowsIdentity == LET h1 == T(T(R, m1), m2)   h2 == S(T(R, m2), nm)
                      IN (SameIdentity(h1, h2) => RegistryKey(h1) = RegistryKey(h2))
                         /\ (RegistryKey(h1) = RegistryKey(h2) => SameIdentity(h1, h2))
=============================================================================
