SPECIFICATION TraceSpec
CONSTANTS
  NChild = 1
  Multi = FALSE
  MaxLen = 65000
  Sizes = {}
  MaxOps = 1000000
  DevWriterAbandonsWithoutDiscard = FALSE
  DevMultiFlushStopsAtFirstError = FALSE
  WeakNoResetOnFlushError = FALSE
  WeakCheckAfterAppend = FALSE
  WeakOffByOne = FALSE
  WeakCloseNotIdempotent = FALSE
  WeakDiscardKeepsBuffer = FALSE
CHECK_DEADLOCK FALSE
