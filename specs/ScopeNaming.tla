----------------------------- MODULE ScopeNaming -----------------------------
(***************************************************************************)
(* How names and tags of a scope are derived (scope.go SubScope / Tagged / *)
(* fullyQualifiedName / copyAndSanitizeMap / mergeRightTags) and when two  *)
(* derivations denote the same scope (scope_registry.go: key of prefix and *)
(* effective tags).  A scope handle is [prefix, tags]; the sanitizer is a  *)
(* per-character map (C06 decides the sanitizer itself).  Serves C04, C05, *)
(* the naming part of C11.                                                 *)
(***************************************************************************)
EXTENDS KeyGen

CONSTANTS WeakLeftBiasedMerge,    \* weakening: an inherited tag value wins over a later Tagged value
          WeakLeadingSeparator,   \* weakening: an empty prefix still contributes a separator
          WeakTaggedAppendsPrefix \* weakening: Tagged also extends the prefix

(* apply a per-character table (record char -> char; characters not in it are kept) *)
RECURSIVE SanFrom(_, _, _)
SanFrom(tab, s, i) == IF i > Len(s) THEN ""
                      ELSE (IF Ch(s, i) \in DOMAIN tab THEN tab[Ch(s, i)] ELSE Ch(s, i)) \o SanFrom(tab, s, i + 1)
San(tab, s) == SanFrom(tab, s, 1)
(* sanitize keys and values of a tag map (the harness never generates maps whose keys collide after sanitizing) *)
SanMap(tabK, tabV, m) ==
  LET ks == {San(tabK, k) : k \in DOMAIN m}
  IN [k2 \in ks |-> San(tabV, m[CHOOSE k \in DOMAIN m : San(tabK, k) = k2])]

FQ(prefix, sep, name) ==
  IF prefix = "" /\ ~WeakLeadingSeparator THEN name ELSE prefix \o sep \o name

MergeTags(parent, child) == IF WeakLeftBiasedMerge THEN Merge(child, parent) ELSE Merge(parent, child)

RootScope(prefix, tags, san) == [prefix |-> San(san.n, prefix), tags |-> SanMap(san.k, san.v, tags)]
SubScopeOf(h, sep, name, san) == [prefix |-> FQ(h.prefix, sep, San(san.n, name)), tags |-> h.tags]
TaggedOf(h, sep, tags, san) ==
  [prefix |-> IF WeakTaggedAppendsPrefix THEN FQ(h.prefix, sep, "t") ELSE h.prefix,
   tags |-> MergeTags(h.tags, SanMap(san.k, san.v, tags))]
MetricName(h, sep, name, san) == FQ(h.prefix, sep, San(san.n, name))

SameIdentity(h1, h2) == h1.prefix = h2.prefix /\ h1.tags = h2.tags
(* the registry key of a handle; two handles are one registry entry iff their keys are equal *)
RegistryKey(h) == Key(h.prefix, <<h.tags>>)
IdentityHasDelim(h) == HasDelim(h.prefix) \/ MapHasDelim(h.tags)
=============================================================================
