SPECIFICATION TraceSpec
CONSTANTS
  Ids = {"a"}
  MaxOps = 0
  WeakSnapshotSharesState = FALSE
  WeakCloseDropsSubscope = FALSE
  WeakGaugeAccumulates = FALSE
INVARIANTS SnapshotsIndependent GaugeShowsLastUpdate MetricsSurviveClose
CHECK_DEADLOCK FALSE
