SPECIFICATION BSpec
CONSTANTS
  Threads = {"t1", "t2"}
  Requests <- ReqA
  WeakNoEqualityRecheck = FALSE
  WeakKindBlindEquality = FALSE
  WeakExpAdds = FALSE
  WeakLinearOffByOne = FALSE
  WeakMustSwallowsError = FALSE
INVARIANTS KeepsOwnBounds
CHECK_DEADLOCK FALSE
