---------------------------- MODULE MultiReporter ----------------------------
(***************************************************************************)
(* multi/reporter.go: a multi reporter (plain or cached flavour) forwards  *)
(* every report, allocation, handle report and flush to every child, once, *)
(* children in the order given; its capabilities are the conjunction of    *)
(* the children's (all true for no children).  Serves C19.                 *)
(***************************************************************************)
EXTENDS Integers, Sequences, FiniteSets, TLC

CONSTANTS MaxChildren, MaxCalls, Calls,
          WeakSkipLastChild, WeakFirstChildTwice, WeakCapabilitiesOr, WeakStopAtIncapableChild

VARIABLES n,      \* number of children
          caps,   \* child -> <<reporting, tagging>>
          logs,   \* child -> sequence of calls received
          plog,   \* calls made on the multi reporter
          order   \* children in the order they were called for the last parent call
mvars == <<n, caps, logs, plog, order>>

MInit == /\ n \in 0..MaxChildren
         /\ caps \in [1..n -> BOOLEAN \X BOOLEAN]
         /\ logs = [c \in 1..n |-> <<>>] /\ plog = <<>> /\ order = <<>>

Targets == IF WeakSkipLastChild /\ n > 0 THEN 1..(n - 1) ELSE 1..n
Fanout(d) ==
  /\ plog' = Append(plog, d)
  /\ logs' = [c \in 1..n |-> IF c \in Targets
                             THEN (IF WeakFirstChildTwice /\ c = 1 THEN logs[c] \o <<d, d>> ELSE Append(logs[c], d))
                             ELSE logs[c]]
  /\ order' = [i \in 1..Cardinality(Targets) |-> i]
  /\ UNCHANGED <<n, caps>>
MNext == Len(plog) < MaxCalls /\ \E d \in Calls : Fanout(d)
MSpec == MInit /\ [][MNext]_mvars

RECURSIVE AndUpTo(_, _)
AndUpTo(i, k) == IF i = 0 THEN TRUE ELSE caps[i][k] /\ AndUpTo(i - 1, k)
RECURSIVE OrUpTo(_, _)
OrUpTo(i, k) == IF i = 0 THEN FALSE ELSE caps[i][k] \/ OrUpTo(i - 1, k)
(* weakening: stop asking after the first child that lacks any capability *)
FirstIncapable == IF \E i \in 1..n : ~(caps[i][1] /\ caps[i][2]) THEN CHOOSE i \in 1..n : ~(caps[i][1] /\ caps[i][2]) /\ \A j \in 1..(i - 1) : caps[j][1] /\ caps[j][2] ELSE n
Capability(k) == IF WeakCapabilitiesOr THEN (n = 0 \/ OrUpTo(n, k))
                 ELSE IF WeakStopAtIncapableChild THEN AndUpTo(FirstIncapable, k)
                 ELSE AndUpTo(n, k)

EveryChildGetsEveryCallOnce == \A c \in 1..n : logs[c] = plog
ChildrenInOrder == order = [i \in 1..Len(order) |-> i] /\ (plog # <<>> => Len(order) = n)
CapabilityConjunction == \A k \in 1..2 : Capability(k) = (\A c \in 1..n : caps[c][k])
=============================================================================
