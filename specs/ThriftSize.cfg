SPECIFICATION WSpec
CONSTANTS
  Shapes <- MCShapes
  MaxWrites = 2
  WeakStackNotPopped = FALSE
  WeakNoResetAtStructBegin = FALSE
INVARIANTS HistoryIndependent MaxIsUpperBound
CHECK_DEADLOCK FALSE
