----------------------------- MODULE M3ObsTrace -----------------------------
(***************************************************************************)
(* Observable-level validation of executions of the real M3 reporter       *)
(* (harness command m3sched: API calls made by scenario threads under the  *)
(* controlled scheduler, datagrams decoded at loopback sinks).  Only the    *)
(* OBSERVABLE variables of M3Reporter.tla are maintained - called,          *)
(* returned, retAtClose, closeCalled, closeReturned, closeRes, panicked,    *)
(* lateEnq and sent (what destination 1 received) - built from the log     *)
(* alone, and the invariants of M3Reporter.tla that speak about them are    *)
(* evaluated after every event.  Events:                                    *)
(*  scn  {producers, closers, max_packet, dests}                            *)
(*  call {t, op: report|flush|close, name, kind, v, tags, bucket}           *)
(*  ret  {t, op, name, v, err, alive}                                       *)
(*  emit {dest, len, ok, common_ok, mets:[{name, kind, v, tags, ts}]}       *)
(*  panic {t, msg} | deadlock {where} | end {pending, qlen, done} | endx    *)
(***************************************************************************)
EXTENDS M3Reporter, Json
VARIABLES l, ids, nrep, cfgv, sentD, closerNames, bad, occ, lastIdx
tvars == <<l, ids, nrep, cfgv, sentD, closerNames, bad, occ, lastIdx>>
TraceLog == ndJsonDeserialize("trace.ndjson")
Fail(c) == PrintT(<<"FAIL", l, c>>)

Pairs(qq) == [i \in 1..Len(qq) |-> <<qq[i][1], qq[i][2]>>]
Key(r) == <<r.name, r.v>>
Dummy == [t \in Threads |-> "fin"]

TInit ==
  /\ l = 1 /\ ids = <<>> /\ nrep = <<>> /\ cfgv = [max_packet |-> 0, dests |-> 1] /\ sentD = <<>> /\ closerNames = {} /\ bad = FALSE /\ occ = <<>> /\ lastIdx = <<>>
  /\ pc = Dummy /\ idx = [t \in Threads |-> 1] /\ done = FALSE /\ pending = 0 /\ doneClosed = FALSE /\ metClosed = FALSE
  /\ q = <<>> /\ mets = <<>> /\ bytes = 0 /\ sent = <<>> /\ now = 1 /\ clk = 1
  /\ panicked = FALSE /\ closeRes = <<>> /\ called = {} /\ returned = {} /\ retAtClose = {} /\ closeCalled = FALSE
  /\ closeReturned = FALSE /\ lateEnq = {} /\ hold = [t \in Threads |-> <<>>] /\ inner = [t \in Threads |-> 0]

Unobs == UNCHANGED <<pc, idx, done, pending, doneClosed, metClosed, q, mets, bytes, now, clk, hold, inner>>

(* The observable invariants of M3Reporter.tla, evaluated incrementally: `sent` itself is not accumulated (a
   long history would make every evaluation quadratic); occ[id] counts the occurrences of a report in what
   destination 1 received, lastIdx[t] is the highest report index of thread t seen so far. *)
OccOf(id) == IF id \in DOMAIN occ THEN occ[id] ELSE 0
JudgeState ==
  /\ IF ~NoSendOnClosedQueue' THEN Fail("NoSendOnClosedQueue") ELSE TRUE
  /\ IF Cardinality({c \in DOMAIN closeRes' : closeRes'[c] = "ok"}) > 1 THEN Fail("SecondCloseErrors") ELSE TRUE
  /\ IF ~AfterCloseNoop' THEN Fail("AfterCloseNoop") ELSE TRUE
JudgeClose ==
  IF \E id \in retAtClose : OccOf(id) # 1 THEN Fail("ReturnedBeforeCloseDelivered") ELSE TRUE

TNext ==
  /\ l <= Len(TraceLog)
  /\ LET r == TraceLog[l] IN
     CASE r.e = "scn" ->
            /\ ids' = <<>> /\ nrep' = <<>> /\ sentD' = [d \in 1..r.dests |-> <<>>] /\ closerNames' = {} /\ bad' = FALSE /\ occ' = <<>> /\ lastIdx' = <<>>
            /\ cfgv' = [max_packet |-> IF r.max_packet = 0 THEN 1440 ELSE r.max_packet, dests |-> r.dests]
            /\ sent' = <<>> /\ panicked' = FALSE /\ closeRes' = <<>> /\ called' = {} /\ returned' = {} /\ retAtClose' = {}
            /\ closeCalled' = FALSE /\ closeReturned' = FALSE /\ lateEnq' = {} /\ Unobs
       [] r.e = "call" /\ r.op = "report" ->
            LET n == IF r.t \in DOMAIN nrep THEN nrep[r.t] + 1 ELSE 1
                id == <<r.t, "rep", n>>
            IN /\ nrep' = [x \in DOMAIN nrep \cup {r.t} |-> IF x = r.t THEN n ELSE nrep[x]]
               /\ ids' = [x \in DOMAIN ids \cup {Key(r)} |-> IF x = Key(r) THEN [id |-> id, kind |-> r.kind, tags |-> Pairs(r.tags), late |-> closeReturned] ELSE ids[x]]
               /\ called' = called \cup {id}
               /\ IF Key(r) \in DOMAIN ids THEN Fail("Harness:duplicate-report-key") ELSE TRUE
               /\ UNCHANGED <<cfgv, sentD, closerNames, bad, occ, lastIdx, sent, panicked, closeRes, returned, retAtClose, closeCalled, closeReturned, lateEnq>> /\ Unobs
       [] r.e = "ret" /\ r.op = "report" ->
            /\ returned' = returned \cup {ids[Key(r)].id}
            /\ UNCHANGED <<ids, nrep, cfgv, sentD, closerNames, bad, occ, lastIdx, sent, panicked, closeRes, called, retAtClose, closeCalled, closeReturned, lateEnq>> /\ Unobs
       [] r.e = "call" /\ r.op = "close" ->
            /\ IF ~closeCalled THEN retAtClose' = returned /\ closeCalled' = TRUE ELSE UNCHANGED <<retAtClose, closeCalled>>
            /\ UNCHANGED <<ids, nrep, cfgv, sentD, closerNames, bad, occ, lastIdx, sent, panicked, closeRes, called, returned, closeReturned, lateEnq>> /\ Unobs
       [] r.e = "ret" /\ r.op = "close" ->
            /\ closeRes' = [x \in DOMAIN closeRes \cup {r.t} |-> IF x = r.t THEN (IF r.err THEN "err" ELSE "ok") ELSE closeRes[x]]
            /\ closeReturned' = (closeReturned \/ ~r.err)
            /\ IF r.alive THEN Fail("NoLeak") ELSE TRUE
            /\ IF ~r.err /\ \E d \in 2..cfgv.dests : sentD[d] # sentD[1] THEN Fail("EveryDestinationGetsEveryBatch") ELSE TRUE
            /\ IF ~r.err THEN JudgeClose ELSE TRUE
            /\ UNCHANGED <<ids, nrep, cfgv, sentD, closerNames, bad, occ, lastIdx, sent, panicked, called, returned, retAtClose, closeCalled, lateEnq>> /\ Unobs
            /\ JudgeState
       [] r.e = "emit" ->
            LET K(i) == <<r.mets[i].name, r.mets[i].v>>
                known == {i \in 1..Len(r.mets) : K(i) \in DOMAIN ids}
                bids == [i \in 1..Len(r.mets) |-> IF i \in known THEN ids[K(i)].id ELSE <<"?", "rep", l * 1000 + i>>]
                newIds == {bids[i] : i \in known}
                cnt(id) == Cardinality({i \in known : bids[i] = id})
            IN /\ sentD' = [sentD EXCEPT ![r.dest] = IF Len(r.mets) = 0 THEN @ ELSE Append(@, bids)]
               /\ sent' = sent
               /\ occ' = IF r.dest = 1 THEN [x \in DOMAIN occ \cup newIds |-> OccOf(x) + (IF x \in newIds THEN cnt(x) ELSE 0)] ELSE occ
               /\ lastIdx' = IF r.dest = 1
                             THEN [t \in DOMAIN lastIdx \cup {bids[i][1] : i \in known} |->
                                     LET here == {bids[i][3] : i \in {j \in known : bids[j][1] = t}}
                                         old == IF t \in DOMAIN lastIdx THEN lastIdx[t] ELSE 0
                                     IN IF here = {} THEN old ELSE LET m == CHOOSE x \in here : \A y \in here : y <= x IN IF m > old THEN m ELSE old]
                             ELSE lastIdx
               /\ lateEnq' = lateEnq \cup {ids[K(i)].id : i \in {j \in known : ids[K(j)].late}}
               /\ IF ~r.ok THEN Fail("OneMessagePerDatagram")
                  ELSE IF r.len > cfgv.max_packet THEN Fail("DatagramWithinLimit")
                  ELSE IF ~r.common_ok THEN Fail("CommonTagsEverywhere")
                  ELSE IF known # 1..Len(r.mets) THEN Fail("Intact:metric-nobody-reported")
                  ELSE IF \E i \in known : ids[K(i)].kind # r.mets[i].kind THEN Fail("Intact:kind")
                  ELSE IF \E i \in known : ids[K(i)].tags # Pairs(r.mets[i].tags) THEN Fail("Intact:tags")
                  ELSE IF closeReturned THEN Fail("CloseDrains:emit-after-Close-returned")
                  ELSE IF r.dest = 1 /\ \E i \in known : OccOf(bids[i]) + cnt(bids[i]) > 1 THEN Fail("AtMostOnce")
                  ELSE IF \E i \in known : r.mets[i].ts # "ok" THEN Fail("TimestampBracket:" \o (CHOOSE x \in {r.mets[i].ts : i \in known} : x # "ok"))
                  ELSE IF r.dest = 1 /\ \E i, j \in known : i < j /\ bids[i][1] = bids[j][1] /\ bids[i][3] > bids[j][3] THEN Fail("OrderPreserved")
                  ELSE IF r.dest = 1 /\ \E i \in known : bids[i][1] \in DOMAIN lastIdx /\ bids[i][3] < lastIdx[bids[i][1]] THEN Fail("OrderPreserved")
                  ELSE TRUE
               /\ UNCHANGED <<ids, nrep, cfgv, closerNames, bad, panicked, closeRes, called, returned, retAtClose, closeCalled, closeReturned>> /\ Unobs
               /\ JudgeState
       [] r.e = "panic" ->
            /\ panicked' = TRUE /\ bad' = TRUE
            /\ UNCHANGED <<ids, nrep, cfgv, sentD, closerNames, occ, lastIdx, sent, closeRes, called, returned, retAtClose, closeCalled, closeReturned, lateEnq>> /\ Unobs
            /\ JudgeState
       [] r.e = "deadlock" ->
            /\ bad' = TRUE /\ Fail("NoDeadlock")
            /\ UNCHANGED <<ids, nrep, cfgv, sentD, closerNames, occ, lastIdx, sent, panicked, closeRes, called, returned, retAtClose, closeCalled, closeReturned, lateEnq>> /\ Unobs
       [] r.e = "end" ->
            /\ IF ~bad /\ r.pending # 0 THEN Fail("PendingBalanced") ELSE TRUE
            /\ UNCHANGED <<ids, nrep, cfgv, sentD, closerNames, bad, occ, lastIdx, sent, panicked, closeRes, called, returned, retAtClose, closeCalled, closeReturned, lateEnq>> /\ Unobs
       [] OTHER -> UNCHANGED <<ids, nrep, cfgv, sentD, closerNames, bad, occ, lastIdx, sent, panicked, closeRes, called, returned, retAtClose, closeCalled, closeReturned, lateEnq>> /\ Unobs
  /\ l' = l + 1
TraceSpec == TInit /\ [][TNext]_<<vars, tvars>>
=============================================================================
