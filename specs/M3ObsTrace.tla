----------------------------- MODULE M3ObsTrace -----------------------------
(***************************************************************************)
(* Observable-level validation of executions of the real M3 reporter       *)
(* (harness command m3sched: API calls made by scenario threads under the  *)
(* controlled scheduler, datagrams decoded at loopback sinks).  Only the    *)
(* OBSERVABLE variables of M3Reporter.tla are maintained - called,          *)
(* returned, retAtClose, closeCalled, closeReturned, closeRes, panicked,    *)
(* lateEnq and sent (what destination 1 received) - built from the log     *)
(* alone, and the invariants of M3Reporter.tla that speak about them are    *)
(* evaluated after every event.  Events:                                    *)
(*  scn  {producers, closers, max_packet, dests}                            *)
(*  call {t, op: report|flush|close, name, kind, v, tags, bucket}           *)
(*  ret  {t, op, name, v, err, alive}                                       *)
(*  emit {dest, len, ok, common_ok, mets:[{name, kind, v, tags, ts}]}       *)
(*  panic {t, msg} | deadlock {where} | end {pending, qlen, done} | endx    *)
(***************************************************************************)
EXTENDS M3Reporter, Json
VARIABLES l, ids, nrep, cfgv, sentD, closerNames, bad
tvars == <<l, ids, nrep, cfgv, sentD, closerNames, bad>>
TraceLog == ndJsonDeserialize("trace.ndjson")
Fail(c) == PrintT(<<"FAIL", l, c>>)

Pairs(qq) == [i \in 1..Len(qq) |-> <<qq[i][1], qq[i][2]>>]
Key(r) == <<r.name, r.v>>
Dummy == [t \in Threads |-> "fin"]

TInit ==
  /\ l = 1 /\ ids = <<>> /\ nrep = <<>> /\ cfgv = [max_packet |-> 0, dests |-> 1] /\ sentD = <<>> /\ closerNames = {} /\ bad = FALSE
  /\ pc = Dummy /\ idx = [t \in Threads |-> 1] /\ done = FALSE /\ pending = 0 /\ doneClosed = FALSE /\ metClosed = FALSE
  /\ q = <<>> /\ mets = <<>> /\ bytes = 0 /\ sent = <<>> /\ now = 1 /\ clk = 1
  /\ panicked = FALSE /\ closeRes = <<>> /\ called = {} /\ returned = {} /\ retAtClose = {} /\ closeCalled = FALSE
  /\ closeReturned = FALSE /\ lateEnq = {} /\ hold = [t \in Threads |-> <<>>] /\ inner = [t \in Threads |-> 0]

Unobs == UNCHANGED <<pc, idx, done, pending, doneClosed, metClosed, q, mets, bytes, now, clk, hold, inner>>

(* the observable invariants of M3Reporter.tla, by name *)
JudgeState ==
  /\ IF ~NoSendOnClosedQueue' THEN Fail("NoSendOnClosedQueue") ELSE TRUE
  /\ IF Cardinality({c \in DOMAIN closeRes' : closeRes'[c] = "ok"}) > 1 THEN Fail("SecondCloseErrors") ELSE TRUE
  /\ IF ~AfterCloseNoop' THEN Fail("AfterCloseNoop") ELSE TRUE
  /\ IF ~AtMostOnce' THEN Fail("AtMostOnce") ELSE TRUE
  /\ IF ~ReturnedBeforeCloseDelivered' THEN Fail("ReturnedBeforeCloseDelivered") ELSE TRUE
  /\ IF ~TimestampBracket' THEN Fail("TimestampBracket") ELSE TRUE
  /\ IF ~OrderPreserved' THEN Fail("OrderPreserved") ELSE TRUE

TNext ==
  /\ l <= Len(TraceLog)
  /\ LET r == TraceLog[l] IN
     CASE r.e = "scn" ->
            /\ ids' = <<>> /\ nrep' = <<>> /\ sentD' = [d \in 1..r.dests |-> <<>>] /\ closerNames' = {} /\ bad' = FALSE
            /\ cfgv' = [max_packet |-> IF r.max_packet = 0 THEN 1440 ELSE r.max_packet, dests |-> r.dests]
            /\ sent' = <<>> /\ panicked' = FALSE /\ closeRes' = <<>> /\ called' = {} /\ returned' = {} /\ retAtClose' = {}
            /\ closeCalled' = FALSE /\ closeReturned' = FALSE /\ lateEnq' = {} /\ Unobs
       [] r.e = "call" /\ r.op = "report" ->
            LET n == IF r.t \in DOMAIN nrep THEN nrep[r.t] + 1 ELSE 1
                id == <<r.t, "rep", n>>
            IN /\ nrep' = [x \in DOMAIN nrep \cup {r.t} |-> IF x = r.t THEN n ELSE nrep[x]]
               /\ ids' = [x \in DOMAIN ids \cup {Key(r)} |-> IF x = Key(r) THEN [id |-> id, kind |-> r.kind, tags |-> Pairs(r.tags), late |-> closeReturned] ELSE ids[x]]
               /\ called' = called \cup {id}
               /\ IF Key(r) \in DOMAIN ids THEN Fail("Harness:duplicate-report-key") ELSE TRUE
               /\ UNCHANGED <<cfgv, sentD, closerNames, bad, sent, panicked, closeRes, returned, retAtClose, closeCalled, closeReturned, lateEnq>> /\ Unobs
       [] r.e = "ret" /\ r.op = "report" ->
            /\ returned' = returned \cup {ids[Key(r)].id}
            /\ UNCHANGED <<ids, nrep, cfgv, sentD, closerNames, bad, sent, panicked, closeRes, called, retAtClose, closeCalled, closeReturned, lateEnq>> /\ Unobs
       [] r.e = "call" /\ r.op = "close" ->
            /\ IF ~closeCalled THEN retAtClose' = returned /\ closeCalled' = TRUE ELSE UNCHANGED <<retAtClose, closeCalled>>
            /\ UNCHANGED <<ids, nrep, cfgv, sentD, closerNames, bad, sent, panicked, closeRes, called, returned, closeReturned, lateEnq>> /\ Unobs
       [] r.e = "ret" /\ r.op = "close" ->
            /\ closeRes' = [x \in DOMAIN closeRes \cup {r.t} |-> IF x = r.t THEN (IF r.err THEN "err" ELSE "ok") ELSE closeRes[x]]
            /\ closeReturned' = (closeReturned \/ ~r.err)
            /\ IF r.alive THEN Fail("NoLeak") ELSE TRUE
            /\ IF ~r.err /\ \E d \in 2..cfgv.dests : sentD[d] # sentD[1] THEN Fail("EveryDestinationGetsEveryBatch") ELSE TRUE
            /\ UNCHANGED <<ids, nrep, cfgv, sentD, closerNames, bad, sent, panicked, called, returned, retAtClose, closeCalled, lateEnq>> /\ Unobs
            /\ JudgeState
       [] r.e = "emit" ->
            LET known == {i \in 1..Len(r.mets) : <<r.mets[i].name, r.mets[i].v>> \in DOMAIN ids}
                item(i) == LET k == <<r.mets[i].name, r.mets[i].v>> IN
                           [set |-> TRUE, id |-> ids[k].id, size |-> 0,
                            ts |-> CASE r.mets[i].ts = "ok" -> 1 [] r.mets[i].ts = "before-construction" -> 0 [] OTHER -> 2, at |-> 1]
                batch == [i \in 1..Len(r.mets) |-> IF i \in known THEN item(i) ELSE [set |-> TRUE, id |-> <<"?", "rep", l * 1000 + i>>, size |-> 0, ts |-> 1, at |-> 1]]
            IN /\ sentD' = [sentD EXCEPT ![r.dest] = IF batch = <<>> THEN @ ELSE Append(@, batch)]
               /\ sent' = IF r.dest = 1 /\ batch # <<>> THEN Append(sent, batch) ELSE sent
               /\ lateEnq' = lateEnq \cup {ids[<<r.mets[i].name, r.mets[i].v>>].id : i \in {j \in known : ids[<<r.mets[j].name, r.mets[j].v>>].late}}
               /\ IF ~r.ok THEN Fail("OneMessagePerDatagram")
                  ELSE IF r.len > cfgv.max_packet THEN Fail("DatagramWithinLimit")
                  ELSE IF ~r.common_ok THEN Fail("CommonTagsEverywhere")
                  ELSE IF known # 1..Len(r.mets) THEN Fail("Intact:metric-nobody-reported")
                  ELSE IF \E i \in known : ids[<<r.mets[i].name, r.mets[i].v>>].kind # r.mets[i].kind THEN Fail("Intact:kind")
                  ELSE IF \E i \in known : ids[<<r.mets[i].name, r.mets[i].v>>].tags # Pairs(r.mets[i].tags) THEN Fail("Intact:tags")
                  ELSE IF closeReturned THEN Fail("CloseDrains:emit-after-Close-returned")
                  ELSE TRUE
               /\ UNCHANGED <<ids, nrep, cfgv, closerNames, bad, panicked, closeRes, called, returned, retAtClose, closeCalled, closeReturned>> /\ Unobs
               /\ JudgeState
       [] r.e = "panic" ->
            /\ panicked' = TRUE /\ bad' = TRUE
            /\ UNCHANGED <<ids, nrep, cfgv, sentD, closerNames, sent, closeRes, called, returned, retAtClose, closeCalled, closeReturned, lateEnq>> /\ Unobs
            /\ JudgeState
       [] r.e = "deadlock" ->
            /\ bad' = TRUE /\ Fail("NoDeadlock")
            /\ UNCHANGED <<ids, nrep, cfgv, sentD, closerNames, sent, panicked, closeRes, called, returned, retAtClose, closeCalled, closeReturned, lateEnq>> /\ Unobs
       [] r.e = "end" ->
            /\ IF ~bad /\ r.pending # 0 THEN Fail("PendingBalanced") ELSE TRUE
            /\ UNCHANGED <<ids, nrep, cfgv, sentD, closerNames, bad, sent, panicked, closeRes, called, returned, retAtClose, closeCalled, closeReturned, lateEnq>> /\ Unobs
       [] OTHER -> UNCHANGED <<ids, nrep, cfgv, sentD, closerNames, bad, sent, panicked, closeRes, called, returned, retAtClose, closeCalled, closeReturned, lateEnq>> /\ Unobs
  /\ l' = l + 1
TraceSpec == TInit /\ [][TNext]_<<vars, tvars>>
=============================================================================
