----------------------------- MODULE M3ObsTrace -----------------------------
(***************************************************************************)
(* Observable-level validation of executions of the real M3 reporter       *)
(* (harness commands m3sched: API calls made by scenario threads under the *)
(* controlled scheduler, and c13: free-running goroutines; datagrams       *)
(* decoded at loopback sinks).  Only the OBSERVABLE variables of           *)
(* M3Reporter.tla are maintained - called, returned, retAtClose,           *)
(* closeCalled, closeReturned, closeRes, panicked, lateEnq - built from    *)
(* the log alone, and the invariants of M3Reporter.tla that speak about    *)
(* them are evaluated as the events come in (incrementally: `sent` itself  *)
(* is not accumulated, occ[i] counts how often report i arrived at         *)
(* destination 1).  Reports are numbered in the order of their call events *)
(* (cid); an emitted metric carries the cid the harness found for its      *)
(* (name, value) - 0 if nobody reported it - and is compared with that     *)
(* call's record.  Events:                                                 *)
(*  scn  {producers, closers, max_packet, dests, alive:[destinations that   *)
(*        listen]}  - the first alive one is the reference destination     *)
(*  call {t, op: report|flush|close, cid, tn, name, kind, v, tags}         *)
(*  ret  {t, op, cid, err, alive}                                          *)
(*  emit {dest, len, ok, common_ok, alone_ok, mets:[{cid, name, kind, v,   *)
(*        tags, ts}]}  alone_ok: envelope + the largest metric of the      *)
(*        datagram alone is within max_packet                              *)
(*  emitted {n}   sender side: a batch was handed to the transport         *)
(*  hammer {sent, received, dup}  distinct values through one shared handle *)
(*  panic {t, msg} | deadlock {where} | end {pending, qlen, done} | endx   *)
(***************************************************************************)
EXTENDS M3Reporter, Json
VARIABLES l, calls, cfgv, sentD, bad, occ, lastTn
tvars == <<l, calls, cfgv, sentD, bad, occ, lastTn>>
TraceLog == ndJsonDeserialize("trace.ndjson")
Fail(c) == PrintT(<<"FAIL", l, c>>)

Pairs(qq) == [i \in 1..Len(qq) |-> <<qq[i][1], qq[i][2]>>]
Dummy == [t \in Threads |-> "fin"]

TInit ==
  /\ l = 1 /\ calls = <<>> /\ cfgv = [max_packet |-> 0, dests |-> 1, ref |-> 1, alive |-> {1}] /\ sentD = <<>> /\ bad = FALSE /\ occ = <<>> /\ lastTn = <<>>
  /\ pc = Dummy /\ idx = [t \in Threads |-> 1] /\ done = FALSE /\ pending = 0 /\ doneClosed = FALSE /\ metClosed = FALSE
  /\ q = <<>> /\ mets = <<>> /\ bytes = 0 /\ sent = <<>> /\ now = 1 /\ clk = 1
  /\ panicked = FALSE /\ closeRes = <<>> /\ called = {} /\ returned = {} /\ retAtClose = {} /\ closeCalled = FALSE
  /\ closeReturned = FALSE /\ lateEnq = {} /\ hold = [t \in Threads |-> <<>>] /\ inner = [t \in Threads |-> 0]

Unobs == UNCHANGED <<pc, idx, done, pending, doneClosed, metClosed, q, mets, bytes, sent, now, clk, hold, inner>>

JudgeState ==
  /\ IF ~NoSendOnClosedQueue' THEN Fail("NoSendOnClosedQueue") ELSE TRUE
  /\ IF Cardinality({c \in DOMAIN closeRes' : closeRes'[c] = "ok"}) > 1 THEN Fail("SecondCloseErrors") ELSE TRUE
  /\ IF ~AfterCloseNoop' THEN Fail("AfterCloseNoop") ELSE TRUE
(* ReturnedBeforeCloseDelivered of M3Reporter.tla, at the moment Close returns *)
JudgeClose ==
  IF \E id \in retAtClose : occ[id] # 1 THEN Fail("ReturnedBeforeCloseDelivered") ELSE TRUE

TNext ==
  /\ l <= Len(TraceLog)
  /\ LET r == TraceLog[l] IN
     CASE r.e = "scn" ->
            /\ calls' = <<>> /\ sentD' = [d \in 1..r.dests |-> <<>>] /\ bad' = FALSE /\ occ' = <<>> /\ lastTn' = <<>>
            /\ cfgv' = [max_packet |-> IF r.max_packet = 0 THEN 1440 ELSE r.max_packet, dests |-> r.dests,
                        ref |-> r.alive[1], alive |-> {r.alive[i] : i \in 1..Len(r.alive)}]
            /\ panicked' = FALSE /\ closeRes' = <<>> /\ called' = {} /\ returned' = {} /\ retAtClose' = {}
            /\ closeCalled' = FALSE /\ closeReturned' = FALSE /\ lateEnq' = {} /\ Unobs
       [] r.e = "call" /\ r.op = "report" ->
            /\ calls' = Append(calls, [t |-> r.t, tn |-> r.tn, kind |-> r.kind, tags |-> Pairs(r.tags), late |-> closeReturned])
            /\ occ' = Append(occ, 0)
            /\ called' = called \cup {r.cid}
            /\ IF r.cid # Len(calls) + 1 THEN Fail("Harness:call-numbering") ELSE TRUE
            /\ UNCHANGED <<cfgv, sentD, bad, lastTn, panicked, closeRes, returned, retAtClose, closeCalled, closeReturned, lateEnq>> /\ Unobs
       [] r.e = "ret" /\ r.op = "report" ->
            /\ returned' = returned \cup {r.cid}
            /\ UNCHANGED <<calls, cfgv, sentD, bad, occ, lastTn, panicked, closeRes, called, retAtClose, closeCalled, closeReturned, lateEnq>> /\ Unobs
       [] r.e = "call" /\ r.op = "close" ->
            /\ IF ~closeCalled THEN retAtClose' = returned /\ closeCalled' = TRUE ELSE UNCHANGED <<retAtClose, closeCalled>>
            /\ UNCHANGED <<calls, cfgv, sentD, bad, occ, lastTn, panicked, closeRes, called, returned, closeReturned, lateEnq>> /\ Unobs
       [] r.e = "ret" /\ r.op = "close" ->
            /\ closeRes' = [x \in DOMAIN closeRes \cup {r.t} |-> IF x = r.t THEN (IF r.err THEN "err" ELSE "ok") ELSE closeRes[x]]
            /\ closeReturned' = (closeReturned \/ ~r.err)
            /\ IF r.alive THEN Fail("NoLeak") ELSE TRUE
            /\ IF ~r.err /\ \E d \in cfgv.alive : sentD[d] # sentD[cfgv.ref] THEN Fail("EveryDestinationGetsEveryBatch") ELSE TRUE
            /\ IF ~r.err THEN JudgeClose ELSE TRUE
            /\ UNCHANGED <<calls, cfgv, sentD, bad, occ, lastTn, panicked, called, returned, retAtClose, closeCalled, lateEnq>> /\ Unobs
            /\ JudgeState
       [] r.e = "emit" ->
            LET n == Len(r.mets)
                known == {i \in 1..n : r.mets[i].cid >= 1 /\ r.mets[i].cid <= Len(calls)}
                cids == [i \in 1..n |-> r.mets[i].cid]
                cidSet == {cids[i] : i \in known}
                C(i) == calls[cids[i]]
                ths == {C(i).t : i \in known}
                maxTn(t) == LET S == {C(i).tn : i \in {j \in known : C(j).t = t}} IN CHOOSE x \in S : \A y \in S : y <= x
            IN /\ sentD' = [sentD EXCEPT ![r.dest] = IF n = 0 THEN @ ELSE Append(@, cids)]
               /\ occ' = IF r.dest = cfgv.ref THEN [i \in 1..Len(occ) |-> IF i \in cidSet THEN occ[i] + 1 ELSE occ[i]] ELSE occ
               /\ lastTn' = IF r.dest = cfgv.ref
                            THEN [t \in DOMAIN lastTn \cup ths |-> IF t \in ths THEN (IF t \in DOMAIN lastTn /\ lastTn[t] > maxTn(t) THEN lastTn[t] ELSE maxTn(t)) ELSE lastTn[t]]
                            ELSE lastTn
               /\ lateEnq' = lateEnq \cup {cids[i] : i \in {j \in known : C(j).late}}
               /\ IF ~r.ok THEN Fail("OneMessagePerDatagram")
                  ELSE IF r.len > cfgv.max_packet /\ r.alone_ok THEN Fail("DatagramWithinLimit")   \* C12: "provided each single metric fits on its own"
                  ELSE IF ~r.common_ok THEN Fail("CommonTagsEverywhere")
                  ELSE IF known # 1..n THEN Fail("Intact:metric-nobody-reported")
                  ELSE IF \E i \in known : C(i).kind # r.mets[i].kind THEN Fail("Intact:kind")
                  ELSE IF \E i \in known : C(i).tags # Pairs(r.mets[i].tags) THEN Fail("Intact:tags")
                  ELSE IF closeReturned THEN Fail("CloseDrains:emit-after-Close-returned")
                  ELSE IF r.dest = cfgv.ref /\ (Cardinality(cidSet) # n \/ \E i \in known : occ[cids[i]] >= 1) THEN Fail("AtMostOnce")
                  ELSE IF \E i \in known : r.mets[i].ts # "ok" THEN Fail("TimestampBracket:" \o (CHOOSE x \in {r.mets[i].ts : i \in known} : x # "ok"))
                  ELSE IF r.dest = cfgv.ref /\ \E i, j \in known : i < j /\ C(i).t = C(j).t /\ C(i).tn > C(j).tn THEN Fail("OrderPreserved")
                  ELSE IF r.dest = cfgv.ref /\ \E i \in known : C(i).t \in DOMAIN lastTn /\ C(i).tn < lastTn[C(i).t] THEN Fail("OrderPreserved")
                  ELSE TRUE
               /\ UNCHANGED <<calls, cfgv, bad, panicked, closeRes, called, returned, retAtClose, closeCalled, closeReturned>> /\ Unobs
               /\ JudgeState
       [] r.e = "emitted" ->
            (* sender side (observation hook of the batching loop): a batch was handed to the transport *)
            /\ IF closeReturned THEN Fail("CloseDrains:emit-after-Close-returned") ELSE TRUE
            /\ UNCHANGED <<calls, cfgv, sentD, bad, occ, lastTn, panicked, closeRes, called, returned, retAtClose, closeCalled, closeReturned, lateEnq>> /\ Unobs
       [] r.e = "hammer" ->
            (* many distinct values pushed through one plain handle by several goroutines: none arrives twice *)
            /\ IF r.dup > 0 THEN Fail("AtMostOnce") ELSE TRUE
            /\ UNCHANGED <<calls, cfgv, sentD, bad, occ, lastTn, panicked, closeRes, called, returned, retAtClose, closeCalled, closeReturned, lateEnq>> /\ Unobs
       [] r.e = "panic" ->
            /\ panicked' = TRUE /\ bad' = TRUE
            /\ UNCHANGED <<calls, cfgv, sentD, occ, lastTn, closeRes, called, returned, retAtClose, closeCalled, closeReturned, lateEnq>> /\ Unobs
            /\ JudgeState
       [] r.e = "deadlock" ->
            /\ bad' = TRUE /\ Fail("NoDeadlock")
            /\ UNCHANGED <<calls, cfgv, sentD, occ, lastTn, panicked, closeRes, called, returned, retAtClose, closeCalled, closeReturned, lateEnq>> /\ Unobs
       [] r.e = "end" ->
            /\ IF ~bad /\ r.pending # 0 THEN Fail("PendingBalanced") ELSE TRUE
            /\ UNCHANGED <<calls, cfgv, sentD, bad, occ, lastTn, panicked, closeRes, called, returned, retAtClose, closeCalled, closeReturned, lateEnq>> /\ Unobs
       [] OTHER -> UNCHANGED <<calls, cfgv, sentD, bad, occ, lastTn, panicked, closeRes, called, returned, retAtClose, closeCalled, closeReturned, lateEnq>> /\ Unobs
  /\ l' = l + 1
TraceSpec == TInit /\ [][TNext]_<<vars, tvars>>
=============================================================================
