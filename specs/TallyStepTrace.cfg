SPECIFICATION TraceSpec
CONSTANTS
  Apps <- TApps
  Script <- TScript
  Closers <- TClosers
  Passers <- TPassers
  HasLoop <- THasLoop
  MaxTicks <- TMaxTicks
  NObj = 3
  DevNonAtomicDelta = FALSE
  DevDeleteByKey = FALSE
  DevClosedAfterReport = FALSE
  DevCloseNoWait = FALSE
  DevPurgeAnyPass = FALSE
  DevNoCloseMutex = FALSE
  WeakFlagBeforeValue = FALSE
  WeakLoadBeforeSwap = FALSE
  WeakNoRecheckUnderLock = FALSE
  WeakNoFinalPass = FALSE
  defaultInitValue = 0
POSTCONDITION Report
CHECK_DEADLOCK FALSE
