------------------------- MODULE UDPTransportTrace -------------------------
(***************************************************************************)
(* Replays call histories made on real TUDPTransport / TMultiUDPTransport  *)
(* objects (loopback UDP sinks) through UDPTransport.tla.                  *)
(*   new  {}                                                               *)
(*   op   {op, id, size, c, res, buflen:[per destination], open:[...],     *)
(*         got:[per destination: datagrams received during the call, each *)
(*         a list of [id, size] segments; id 0 = bytes of no known chunk]} *)
(*   phase {big, got:[per destination: metrics received], exp, oversize}   *)
(* Model variables are advanced by the specification's own actions (any    *)
(* mismatch with the log is reported as Drift:..., not as a violation).    *)
(* Observed variables o... are built ONLY from what was logged - results    *)
(* returned to the caller, datagrams at the sinks, buffered lengths - and  *)
(* the property's invariants, instantiated over them (O!...), are          *)
(* evaluated after every call.                                             *)
(***************************************************************************)
EXTENDS UDPTransport, Json
VARIABLES l, obuf, oclosed, owire, ores, ocur, obad, oexpect, orefused, opre
ovars == <<obuf, oclosed, owire, ores, ocur, obad, oexpect, orefused, opre>>
TraceLog == ndJsonDeserialize("trace.ndjson")
Fail(c) == PrintT(<<"FAIL", l, c>>)

O == INSTANCE UDPTransport WITH buf <- obuf, closed <- oclosed, wire <- owire, res <- ores, cur <- ocur,
                                curBad <- obad, expect <- oexpect, refused <- orefused, pre <- opre

AsSeq(x) == [i \in 1..Len(x) |-> x[i]]
Dgram(d) == [k \in 1..Len(d) |-> <<d[k][1], d[k][2]>>]
Dgrams(ds) == [i \in 1..Len(ds) |-> Dgram(ds[i])]
OInit0 == /\ obuf = [c \in Children |-> <<>>] /\ oclosed = [c \in Children |-> FALSE] /\ owire = [c \in Children |-> <<>>]
          /\ ores = "ok" /\ ocur = <<>> /\ obad = FALSE /\ oexpect = <<>> /\ orefused = {}
          /\ opre = Pre0
TInit == l = 1 /\ Init /\ OInit0

Reset ==
  /\ buf' = [c \in Children |-> <<>>]
  /\ closed' = [c \in Children |-> FALSE] /\ dead' = [c \in Children |-> FALSE] /\ deaf' = [c \in Children |-> FALSE]
  /\ wire' = [c \in Children |-> <<>>]
  /\ nops' = 0 /\ lastOp' = "init" /\ res' = "ok"
  /\ cur' = <<>> /\ curBad' = FALSE /\ expect' = <<>> /\ refused' = {} /\ destFailed' = FALSE
  /\ pre' = Pre0
  /\ obuf' = [c \in Children |-> <<>>] /\ oclosed' = [c \in Children |-> FALSE] /\ owire' = [c \in Children |-> <<>>]
  /\ ores' = "ok" /\ ocur' = <<>> /\ obad' = FALSE /\ oexpect' = <<>> /\ orefused' = {}
  /\ opre' = Pre0

(* observed variables after the logged call r *)
Observe(r) ==
  /\ ores' = r.res
  /\ obuf' = [c \in Children |-> IF r.buflen[c] = 0 THEN <<>> ELSE << <<0, r.buflen[c]>> >>]
  /\ oclosed' = [c \in Children |-> ~r.open[c]]
  /\ owire' = [c \in Children |-> owire[c] \o Dgrams(r.got[c])]
  /\ opre' = [size |-> SumSizes(ocur), sz |-> IF r.op \in Writes THEN r.size ELSE 0, bad |-> obad, closeCalled |-> (opre.closeCalled \/ lastOp = "close")]
  /\ IF r.op \in Writes
     THEN /\ ocur' = IF r.res = "ok" THEN Append(ocur, <<r.id, r.size>>) ELSE ocur
          /\ obad' = (obad \/ r.res # "ok")
          /\ orefused' = IF r.res = "ok" THEN orefused ELSE orefused \cup {r.id}
          /\ oexpect' = oexpect
     ELSE IF r.op = "flush"
     THEN /\ oexpect' = IF r.res = "ok" THEN Append(oexpect, ocur) ELSE oexpect
          /\ ocur' = <<>> /\ obad' = FALSE /\ orefused' = orefused
     ELSE IF r.op = "discard"
     THEN /\ ocur' = <<>> /\ obad' = FALSE /\ UNCHANGED <<oexpect, orefused>>
     ELSE UNCHANGED <<ocur, obad, oexpect, orefused>>

Judge(r) ==
  /\ IF ~O!ExactDelivery' THEN Fail("ExactDelivery") ELSE TRUE
  /\ IF ~O!RefusedNeverSent' THEN Fail("RefusedNeverSent") ELSE TRUE
  /\ IF ~O!BufferEmptyAfterFlush' THEN Fail("BufferEmptyAfterFlush") ELSE TRUE
  /\ IF ~O!FanOutComplete' THEN Fail("FanOutComplete") ELSE TRUE
  /\ IF ~O!WithinLimit' THEN Fail("WithinLimit") ELSE TRUE
  /\ IF ~O!OversizeRefused' THEN Fail("OversizeRefused") ELSE TRUE
  /\ IF ~O!FittingAccepted' THEN Fail("FittingAccepted") ELSE TRUE
  /\ IF ~O!FlushOkWhenHealthy' THEN Fail("FlushOkWhenHealthy") ELSE TRUE
  /\ IF ~O!BufferEmptyAfterDiscard' THEN Fail("BufferEmptyAfterDiscard") ELSE TRUE
  /\ IF ~O!NotOpenAfterClose' THEN Fail("NotOpenAfterClose") ELSE TRUE
  /\ IF ~O!CloseIdempotent' THEN Fail("CloseIdempotent") ELSE TRUE
  /\ IF ~O!NeverPanics' THEN Fail("NeverPanics") ELSE TRUE
  /\ IF ~O!UseAfterCloseNotOpen' THEN Fail("UseAfterCloseNotOpen") ELSE TRUE
  /\ IF ~O!SecondCloseOk' THEN Fail("SecondCloseOk") ELSE TRUE
  (* conformance with the implementation-shaped model: not a verdict *)
  /\ IF res' # r.res THEN Fail("Drift:result") ELSE TRUE
  /\ IF \E c \in Children : SumSizes(buf'[c]) # r.buflen[c] THEN Fail("Drift:buffered-length") ELSE TRUE
  /\ IF \E c \in Children : closed'[c] = r.open[c] THEN Fail("Drift:open") ELSE TRUE
  /\ IF \E c \in Children : wire'[c] # owire'[c] THEN Fail("Drift:wire") ELSE TRUE

TNext ==
  /\ l <= Len(TraceLog)
  /\ LET r == TraceLog[l] IN
     CASE r.e = "new" -> Reset
       [] r.e = "op" ->
            /\ CASE r.op \in Writes -> Write(r.op, r.id, r.size)
                 [] r.op = "flush" -> Flush(IF r.res = "senderr" THEN "senderr" ELSE "ok")
                 [] r.op = "discard" -> Discard
                 [] r.op = "close" -> Close
                 [] r.op = "die" -> SocketDies(r.c)
                 [] r.op = "deafen" -> Deafen(r.c)
            /\ Observe(r)
            /\ Judge(r)
       [] r.e = "late" ->
            (* a datagram arrived that no Flush accounts for (the history has ended, the transport is closed) *)
            /\ UNCHANGED <<vars, ovars>> /\ Fail("ExactDelivery:datagram-no-flush-accounts-for")
       [] r.e = "phase" ->
            (* the real M3 reporter on top of the transport: a batch that outgrew the transport is dropped as a
               whole, every later batch arrives complete and alone at every destination *)
            /\ UNCHANGED <<vars, ovars>>
            /\ IF r.oversize THEN Fail("WithinLimit:reporter")
               ELSE IF \E d \in 1..Len(r.got) : AsSeq(r.got[d]) # AsSeq(r.exp)
                    THEN Fail(IF r.big THEN "RefusedNeverSent:reporter" ELSE "ReporterKeepsEmitting") ELSE TRUE
       [] OTHER -> UNCHANGED <<vars, ovars>>
  /\ l' = l + 1
TraceSpec == TInit /\ [][TNext]_<<vars, ovars, l>>
=============================================================================
