SPECIFICATION Spec
CONSTANTS
  NChild = 1
  Multi = FALSE
  MaxLen = 4
  Sizes = {1, 3, 5}
  MaxOps = 7
  DevWriterAbandonsWithoutDiscard = FALSE
  DevMultiFlushStopsAtFirstError = FALSE
  WeakNoResetOnFlushError = FALSE
  WeakCheckAfterAppend = FALSE
  WeakOffByOne = FALSE
  WeakCloseNotIdempotent = FALSE
  WeakDiscardKeepsBuffer = FALSE
INVARIANTS ExactDelivery RefusedNeverSent BufferEmptyAfterFlush FanOutComplete WithinLimit OversizeRefused FittingAccepted FlushOkWhenHealthy BufferEmptyAfterDiscard NotOpenAfterClose CloseIdempotent UseAfterCloseNotOpen SecondCloseOk NeverPanics
CHECK_DEADLOCK FALSE
