SPECIFICATION Spec
CONSTANTS
  Producers = {"p1", "p2"}
  NRep = 1
  Flushers = {"f1"}
  Closers = {"c1", "c2"}
  QCap = 1
  Free = 4
  SizeOf <- MCSizeOf
  NInternal = 1
  MaxClk = 2
  EmitFails = FALSE
  DevClockStartsAtZero = FALSE
  WeakPendingAfterDoneCheck = FALSE
  WeakCloseNoSpin = FALSE
  WeakFlushIgnoresDone = FALSE
  WeakNoFinalFlush = FALSE
  WeakCheckAfterAppend = FALSE
  WeakNoResetOfBytes = FALSE
  WeakSecondCloseOk = FALSE
  WeakLeakPendingOnDone = FALSE
INVARIANTS NoSendOnClosedQueue SecondCloseErrors AfterCloseNoop NoLeak PendingBalanced NoDeadlock AtMostOnce ReturnedBeforeCloseDelivered NothingPendingAfterClose TimestampBracket BatchWithinFree OpenBatchWithinFree OrderPreserved
CHECK_DEADLOCK FALSE
