------------------------- MODULE PromReporterTrace -------------------------
(***************************************************************************)
(* Replays first-use / record histories made on the real Prometheus        *)
(* reporter (directly, or underneath real tally scopes followed by a       *)
(* report pass) through PromReporter.tla.                                  *)
(*  new    {flavour, cbPanics, cbObs, via, specs:{name:[bound tokens]}}    *)
(*  alloc  {as, name, tm:[[k,v]..], h, res: live|noop|panic|unknown, cb}   *)
(*  register {as, name, keys, res}   RegisterCounter / Gauge / Timer         *)
(*  rep    {h, v, res}                                                     *)
(*  gather {pass, err, series:[{name, kind, tm, sum, last, count, cum}]}   *)
(*  cbtotal {n}   callbacks seen during a case of concurrent first uses    *)
(***************************************************************************)
EXTENDS PromReporter, Json
VARIABLES l, hmap, cbObs, cbSum
TraceLog == ndJsonDeserialize("trace.ndjson")
Fail(c) == PrintT(<<"FAIL", l, c>>)

TM(pairs) == [k \in {pairs[i][1] : i \in 1..Len(pairs)} |-> pairs[CHOOSE i \in 1..Len(pairs) : pairs[i][1] = k][2]]
SpecSet(q) == {q[i] : i \in 1..Len(q)}

TInit == l = 1 /\ hmap = <<>> /\ cbObs = FALSE /\ cbSum = 0
         /\ flavour = "summary" /\ cbPanics = FALSE /\ specOf = [n \in Names |-> {2}]
         /\ reg = {} /\ cache = {} /\ series = <<>> /\ handles = <<>>
         /\ out = [res |-> "init", cb |-> 0, rejected |-> FALSE] /\ truth = <<>> /\ nops = 0

(* what Gather showed, per series id of the model *)
ObsOf(r, sid) == LET S == {i \in 1..Len(r.series) : r.series[i].name = sid.name /\ r.series[i].kind = sid.kind /\ TM(r.series[i].tm) = sid.vals}
                 IN IF S = {} THEN <<>> ELSE r.series[CHOOSE i \in S : TRUE]
CumOf(o, b) == LET S == {i \in 1..Len(o.cum) : o.cum[i][1] = b} IN IF S = {} THEN -1 ELSE o.cum[CHOOSE i \in S : TRUE][2]
IsHistogramOfSpec(sid) == \E i \in 1..Len(handles) : handles[i].st = "live" /\ handles[i].sid = sid /\ handles[i].as = "histogram"

JudgeGather(r) ==
  IF r.pass # "ok" \/ r.err # "" THEN Fail("NeverPanicsWhenCallbackReturns:pass")
  ELSE IF \E i \in 1..Len(r.series) : r.series[i].kind = "other" THEN Fail("Exposed:unknown-family-type")
  ELSE IF {[name |-> r.series[i].name, kind |-> r.series[i].kind, keys |-> DOMAIN TM(r.series[i].tm), vals |-> TM(r.series[i].tm)] : i \in 1..Len(r.series)} # DOMAIN series
       THEN Fail("SeriesSeparate:series-set")
  ELSE IF \E sid \in DOMAIN series :
            /\ Cardinality(KindsOf(sid.name)) = 1
            /\ LET o == ObsOf(r, sid) s == series[sid] IN
               CASE sid.kind = "counter" -> o.sum # s.sum
                 [] sid.kind = "gauge" -> (s.last # 0 /\ o.last # s.last)
                 [] sid.kind = "summary" -> o.count # s.count
                 [] sid.kind = "histogram" ->
                      \/ o.count # s.count
                      \/ (IsHistogramOfSpec(sid) /\ \E b \in specOf[sid.name] : CumOf(o, b) # Cum(s, b))
                      \/ (IsHistogramOfSpec(sid) /\ \E i \in 1..Len(o.cum) : o.cum[i][1] \notin specOf[sid.name])
       THEN Fail("Exposed")
  ELSE TRUE

TNext ==
  /\ l <= Len(TraceLog)
  /\ LET r == TraceLog[l] IN
     CASE r.e = "new" ->
            /\ flavour' = r.flavour /\ cbPanics' = r.cbPanics /\ cbObs' = r.cbObs
            /\ specOf' = [n \in Names |-> SpecSet(r.specs[n])]
            /\ reg' = {} /\ cache' = {} /\ series' = <<>> /\ handles' = <<>> /\ hmap' = <<>> /\ cbSum' = 0
            /\ out' = [res |-> "init", cb |-> 0, rejected |-> FALSE] /\ truth' = <<>> /\ nops' = 0
       [] r.e = "alloc" ->
            /\ Alloc(r.as, r.name, TM(r.tm))
            /\ cbObs' = cbObs /\ cbSum' = cbSum + out'.cb
            (* harness handle number -> model handle number *)
            /\ hmap' = IF r.h # 0 /\ Len(handles') > Len(handles) THEN [x \in DOMAIN hmap \cup {r.h} |-> IF x = r.h THEN Len(handles') ELSE hmap[x]] ELSE hmap
            /\ IF r.res = "panic" /\ out'.res # "panic" THEN Fail("NeverPanicsWhenCallbackReturns")
               ELSE IF r.res # "panic" /\ out'.res = "panic" THEN Fail(IF out'.rejected THEN "RejectionReported:default-callback-did-not-panic" ELSE "Drift:expected-panic")
               ELSE IF r.res \in {"live", "noop"} /\ r.res # out'.res THEN Fail("UsableOrNoop:" \o r.res \o "-instead-of-" \o out'.res)
               ELSE IF cbObs /\ r.cb # out'.cb THEN Fail("RejectionReported")
               ELSE TRUE
       [] r.e = "register" ->
            /\ Register(r.as, r.name, {r.keys[i] : i \in 1..Len(r.keys)})
            /\ cbObs' = cbObs /\ hmap' = hmap /\ cbSum' = cbSum
            /\ IF r.res # out'.res THEN Fail("Drift:register-result") ELSE TRUE
       [] r.e = "rep" ->
            /\ cbObs' = cbObs /\ hmap' = hmap /\ cbSum' = cbSum
            /\ IF r.h \in DOMAIN hmap
               THEN /\ Report(hmap[r.h], r.v)
                    /\ IF r.res # "ok" THEN Fail("UsableOrNoop:report-panicked") ELSE TRUE
               ELSE /\ UNCHANGED vars
                    /\ Fail("Drift:report-on-unknown-handle")
       [] r.e = "bulk" ->
            (* a burst of samples for one bucket in one pass: the exposed count is the sum of the reported counts *)
            /\ UNCHANGED <<vars, hmap, cbObs, cbSum>>
            /\ IF r.exposed # r.reported THEN Fail("Exposed:burst-of-samples-in-one-pass") ELSE TRUE
       [] r.e = "cbtotal" ->
            (* callbacks counted over a whole (concurrent) case: as many as the model's rejected registrations *)
            /\ UNCHANGED <<vars, hmap, cbObs, cbSum>>
            /\ IF r.n # cbSum THEN Fail("RejectionReported:callbacks-in-total") ELSE TRUE
       [] r.e = "gather" ->
            /\ UNCHANGED <<vars, hmap, cbObs, cbSum>>
            /\ JudgeGather(r)
       [] OTHER -> UNCHANGED <<vars, hmap, cbObs, cbSum>>
  /\ l' = l + 1
TraceSpec == TInit /\ [][TNext]_<<vars, l, hmap, cbObs, cbSum>>
=============================================================================
