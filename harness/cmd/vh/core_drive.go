package main

import (
	"flag"
	"fmt"
	"math/rand"
	"os"
	"path/filepath"
	"runtime/pprof"
	"strings"
	"time"

	tally "github.com/uber-go/tally/v4"

	"verif/harness/sched"
)

type execResult struct {
	events   []M
	steps    []sched.Step
	deadlock bool
	stuck    string
	overrun  bool
	panics   []string
}

// execute runs one execution of sc under the chooser and returns its observable trace.
func execute(sc *Scenario, choose sched.Chooser) *execResult {
	r := newCoreRun(sc, true)
	r.s.Run(choose)
	res := &execResult{steps: r.s.Steps, deadlock: r.s.Deadlock, stuck: r.s.Stuck, overrun: r.s.Overrun}
	s := r.s
	s.Abandon()
	tally.VerifSetHook(nil, nil)
	tally.VerifSetTickerHook(nil)
	r.mu.Lock()
	r.s = nil
	r.mu.Unlock()
	if res.deadlock {
		r.log(M{"e": "deadlock"})
	}
	if res.stuck == "" && !res.deadlock && !res.overrun && r.rootCloseUsed {
		// the root was closed by the scenario: its Close ran the final pass
		r.log(M{"e": "quiesce"})
	} else if res.stuck == "" && !res.deadlock && !res.overrun && !sc.NoQuiesce {
		// activity has stopped: one more report pass, then an idle one.  Every scenario goroutine has finished, so a pass
		// that does not come back (a lock somebody left locked) is a hang of the code: reported as a deadlock
		finished := make(chan struct{})
		go func() {
			defer close(finished)
			r.log(M{"e": "passb", "p": "final#1", "t": "final"})
			tally.VerifReportOnce(r.root)
			r.log(M{"e": "passe", "p": "final#1", "t": "final"})
			r.log(M{"e": "quiesce"})
			r.log(M{"e": "passb", "p": "final#2", "t": "final"})
			tally.VerifReportOnce(r.root)
			r.log(M{"e": "passe", "p": "final#2", "t": "final"})
		}()
		select {
		case <-finished:
		case <-time.After(10 * time.Second):
			res.deadlock = true
			r.log(M{"e": "deadlock", "where": "a report pass started after all scenario goroutines had finished did not return within 10 s"})
		}
	}
	r.mu.Lock()
	res.events = r.ev
	res.panics = r.panics
	r.ev = nil
	r.mu.Unlock()
	// end the report loop goroutine (events from here on are discarded)
	done := make(chan struct{})
	go func() { r.closer.Close(); close(done) }()
	select {
	case <-done:
	case <-time.After(2 * time.Second):
	}
	return res
}

func schedString(steps []sched.Step) string {
	var b strings.Builder
	for i, st := range steps {
		if i > 0 {
			b.WriteByte(' ')
		}
		b.WriteString(st.Thread)
		b.WriteByte('@')
		b.WriteString(st.Point)
	}
	return b.String()
}

type driveStats struct {
	Execs      int
	Events     int
	Steps      int
	Deadlocks  int
	Stuck      int
	Overruns   int
	Exhausted  bool
	Distinct   map[string]bool
	StuckMsg   string
	MaxChoices int
}

var schedSide *Trace
var execSeq int

func emitExec(tr *Trace, sc *Scenario, n int, res *execResult, st *driveStats) {
	execSeq++
	tr.Emit(M{"e": "scn", "mod": sc.Mod, "x": execSeq})
	for _, e := range res.events {
		tr.Emit(e)
	}
	tr.Emit(M{"e": "end"})
	if schedSide != nil {
		schedSide.Emit(M{"x": execSeq, "scenario": sc.Name, "sched": schedString(res.steps), "stuck": res.stuck, "panics": res.panics})
	}
	if strings.HasPrefix(sc.Name, "st-") && stepOut != "" && res.stuck == "" && !res.deadlock && !res.overrun && len(res.panics) == 0 {
		emitSteps(sc, execSeq, res.steps)
	}
	st.Execs++
	st.Events += len(res.events) + 2
	st.Steps += len(res.steps)
	if res.deadlock {
		st.Deadlocks++
	}
	if res.stuck != "" {
		st.Stuck++
		st.StuckMsg = res.stuck
	}
	if res.overrun {
		st.Overruns++
	}
	st.Distinct[schedString(res.steps)] = true
}

// dfs enumerates all schedules of sc (thread choices at non-quiet points), up to maxExecs executions.
func dfs(sc *Scenario, tr *Trace, st *driveStats, maxExecs int) {
	dfsOrdered(sc, tr, st, maxExecs, false)
	if !st.Exhausted {
		// the budget cut the search off: the unexplored part is the one where the alphabetically later
		// threads move first; spend half the budget again from the other end
		st2 := &driveStats{Distinct: st.Distinct}
		dfsOrdered(sc, tr, st2, maxExecs/2, true)
		st.Execs += st2.Execs
		st.Events += st2.Events
		st.Steps += st2.Steps
		st.Deadlocks += st2.Deadlocks
		st.Stuck += st2.Stuck
		st.Overruns += st2.Overruns
		if st2.StuckMsg != "" {
			st.StuckMsg = st2.StuckMsg
		}
	}
}

func dfsOrdered(sc *Scenario, tr *Trace, st *driveStats, maxExecs int, descending bool) {
	type node struct {
		n   int // number of enabled threads at this choice
		idx int
	}
	var stack []node
	for {
		depth := 0
		diverged := false
		choose := func(enabled, points []string, cur int) int {
			if depth < len(stack) {
				nd := stack[depth]
				depth++
				k := nd.idx
				if nd.n != len(enabled) {
					diverged = true
					if k >= len(enabled) {
						k = 0
					}
				}
				if descending {
					return len(enabled) - 1 - k
				}
				return k
			}
			stack = append(stack, node{n: len(enabled), idx: 0})
			depth++
			if descending {
				return len(enabled) - 1
			}
			return 0
		}
		res := execute(sc, choose)
		_ = diverged
		if depth > st.MaxChoices {
			st.MaxChoices = depth
		}
		emitExec(tr, sc, st.Execs, res, st)
		// backtrack
		stack = stack[:min(depth, len(stack))]
		for len(stack) > 0 && stack[len(stack)-1].idx+1 >= stack[len(stack)-1].n {
			stack = stack[:len(stack)-1]
		}
		if len(stack) == 0 {
			st.Exhausted = true
			return
		}
		stack[len(stack)-1].idx++
		if st.Execs >= maxExecs || st.Deadlocks+st.Stuck >= coreMaxBroken {
			return
		}
	}
}

// random runs n executions with seeded random schedules; with probability stay (in percent) the running thread continues.
func randomRuns(sc *Scenario, tr *Trace, st *driveStats, n int, rng *rand.Rand) {
	for i := 0; i < n; i++ {
		stay := []int{0, 30, 60, 85}[rng.Intn(4)]
		choose := func(enabled, points []string, cur int) int {
			if cur >= 0 && rng.Intn(100) < stay {
				return cur
			}
			return rng.Intn(len(enabled))
		}
		res := execute(sc, choose)
		emitExec(tr, sc, st.Execs, res, st)
		if st.Deadlocks+st.Stuck >= coreMaxBroken {
			return
		}
	}
}

// a scenario is not explored further once this many of its executions ended in a deadlock (each costs seconds)
const coreMaxBroken = 20

func min(a, b int) int {
	if a < b {
		return a
	}
	return b
}

// ---------------------------------------------------------------------------

type scenarioSet struct {
	sc      *Scenario
	mode    string // dfs | random
	maxExec int
}

var scenarioFamilies = map[string]func(tier string, rng *rand.Rand) []scenarioSet{}

func init() {
	register("core", "scheduler-driven scenarios on the real scope/registry code (C01 C02 C07 C08 C09 C10)", func(args []string) {
		fs := flag.NewFlagSet("core", flag.ExitOnError)
		cm := commonFlags(fs)
		fam := fs.String("family", "c01", "scenario family")
		part := fs.String("part", "0/1", "run only scenario sets with index %% n == i (i/n)")
		prof := fs.String("cpuprofile", "", "write cpu profile")
		fs.Parse(args)
		var pi, pn int
		fmt.Sscanf(*part, "%d/%d", &pi, &pn)
		if pn < 1 {
			pn = 1
		}
		if *prof != "" {
			pf, _ := os.Create(*prof)
			pprof.StartCPUProfile(pf)
			defer pprof.StopCPUProfile()
		}
		f, ok := scenarioFamilies[*fam]
		if !ok {
			fatal("unknown scenario family %q", *fam)
		}
		rng := rand.New(rand.NewSource(cm.seed))
		tr := NewTrace(filepath.Join(cm.out, "trace.ndjson"))
		schedSide = NewTrace(filepath.Join(cm.out, "scheds.ndjson"))
		stepOut = cm.out
		total := &driveStats{Distinct: map[string]bool{}}
		var per []M
		var samples []interface{}
		t0 := time.Now()
		for si, set := range f(cm.tier, rng) {
			if si%pn != pi {
				continue
			}
			st := &driveStats{Distinct: map[string]bool{}}
			switch set.mode {
			case "dfs":
				dfs(set.sc, tr, st, set.maxExec)
			default:
				randomRuns(set.sc, tr, st, set.maxExec, rng)
			}
			per = append(per, M{"scenario": set.sc.Name, "mode": set.mode, "execs": st.Execs, "distinct_schedules": len(st.Distinct),
				"exhausted": st.Exhausted, "steps": st.Steps, "deadlocks": st.Deadlocks, "stuck": st.Stuck, "overruns": st.Overruns, "max_choices": st.MaxChoices})
			total.Execs += st.Execs
			total.Events += st.Events
			total.Steps += st.Steps
			total.Deadlocks += st.Deadlocks
			total.Stuck += st.Stuck
			total.Overruns += st.Overruns
			if st.StuckMsg != "" {
				total.StuckMsg = st.StuckMsg
			}
			for k := range st.Distinct {
				if len(samples) < 4 && len(k) > 40 {
					samples = append(samples, M{"scenario": set.sc.Name, "schedule": k})
				}
				total.Distinct[set.sc.Name+"|"+k] = true
				if len(total.Distinct) > 2000000 {
					break
				}
			}
		}
		tr.Close()
		schedSide.Close()
		stepFiles, stepEvents := closeStepSides()
		writeMeta(cm.out, M{"step_files": stepFiles, "step_events": stepEvents, "family": *fam, "execs": total.Execs, "events": tr.N, "steps": total.Steps, "distinct": len(total.Distinct),
			"deadlocks": total.Deadlocks, "stuck": total.Stuck, "stuck_msg": total.StuckMsg, "overruns": total.Overruns,
			"scenarios": per, "samples": samples, "wall_s": time.Since(t0).Seconds()})
		fmt.Printf("core %s: %d executions, %d events, %d steps in %.1fs\n", *fam, total.Execs, tr.N, total.Steps, time.Since(t0).Seconds())
	})
}
