package main

import "math/rand"

var c08Points = []string{"op_inc", "op_sub", "op_rootclose", "rl_select", "rl_tick", "rp_visit", "rp_counter", "rp_flush", "rp_rclose",
	"cl_mu", "cl_cas", "cl_done", "cl_wait", "cl_report", "pg_lock"}

func init() {
	scenarioFamilies["c08"] = func(tier string, rng *rand.Rand) []scenarioSet {
		var out []scenarioSet
		thorough := tier == "thorough"
		rec := []Op{{Op: "inc", H: "root", M: "r", V: 1}, {Op: "sub", H: "s", Name: "s"}, {Op: "inc", H: "s", M: "c", V: 1}, {Op: "inc", H: "root", M: "r", V: 1}}
		for _, rep := range []string{"plain", "cached"} {
			for _, closer := range []bool{true, false} {
				name := "c08-" + rep
				if closer {
					name += "-closer"
				}
				// micro: recorder || report loop (<= 2 ticks) || one Close caller: DFS over the loop / Close / pass points
				budget := 3000
				pts := []string{"op_inc", "op_rootclose", "rl_select", "rl_tick", "rp_visit", "rp_flush", "cl_cas", "cl_done", "cl_wait", "cl_report", "pg_lock"}
				if thorough {
					budget, pts = 600000, c08Points
				}
				out = append(out, scenarioSet{mode: "dfs", maxExec: budget, sc: &Scenario{
					Name: name + "-micro", Reporter: rep, Closer: closer, CloseErr: closer, Loop: true, MaxTicks: 2, Points: pts,
					Threads: []ThreadSpec{
						{Name: "a1", Ops: rec},
						{Name: "z1", Ops: []Op{{Op: "rootclose"}}},
					}}})
				// "while a periodic report pass is part-way through the registry": the pass has reported one metric of the root and
				// not yet the next when the application records on the first again and calls Close
				out = append(out, scenarioSet{mode: "dfs", maxExec: 8000, sc: &Scenario{
					Name: name + "-midpass", Reporter: rep, Closer: closer, CloseErr: closer, Loop: true, MaxTicks: 1,
					Points: []string{"op_inc", "op_rootclose", "rl_tick", "rp_counter", "cl_cas", "cl_report"},
					Threads: []ThreadSpec{
						{Name: "a1", Ops: []Op{{Op: "inc", H: "root", M: "r", V: 1}, {Op: "inc", H: "root", M: "q", V: 1}, {Op: "inc", H: "root", M: "r", V: 4}, {Op: "rootclose"}}},
					}}})
				// two concurrent Close callers, second Close afterwards, scopes obtained after Close, recording on old handles: random over all points
				n := 250
				if thorough {
					n = 20000
				}
				out = append(out, scenarioSet{mode: "random", maxExec: n, sc: &Scenario{
					Name: name + "-two", Reporter: rep, Closer: closer, CloseErr: closer, Loop: true, MaxTicks: 2, Shards: 2,
					Threads: []ThreadSpec{
						{Name: "a1", Ops: append(append([]Op{}, rec...), Op{Op: "inc", H: "s", M: "c", V: 2})},
						{Name: "a2", Ops: []Op{{Op: "sub", H: "t", Tags: map[string]string{"k": "v"}}, {Op: "inc", H: "t", M: "c", V: 3}, {Op: "upd", H: "t", M: "g", V: 1}}},
						// z1 holds a sub-scope from before Close: what it derives from that handle after Close is inert too
						{Name: "z1", Ops: []Op{{Op: "sub", H: "old", Name: "o"}, {Op: "rootclose"}, {Op: "rootclose"}, {Op: "sub", H: "late", Name: "late"}, {Op: "inc", H: "late", M: "c", V: 7},
							{Op: "sub", H: "late2", P: "old", Name: "x"}, {Op: "inc", H: "late2", M: "c", V: 7}, {Op: "sub", H: "late3", P: "old", Tags: map[string]string{"k": "w"}}, {Op: "rec", H: "late3", M: "t", V: 1},
							// "recording on old handles is harmless": metrics of every kind first requested on handles from before Close
							{Op: "rec", H: "old", M: "t2", V: 1}, {Op: "inc", H: "old", M: "c2", V: 1}, {Op: "upd", H: "old", M: "g2", V: 1}, {Op: "hrec", H: "old", M: "h2", V: 1}, {Op: "rec", H: "root", M: "t3", V: 1}}},
						{Name: "z2", Ops: []Op{{Op: "rootclose"}, {Op: "sub", H: "late", Name: "late2"}, {Op: "inc", H: "late", M: "c", V: 7}}},
					}}})
				// a root created without an interval behaves the same
				out = append(out, scenarioSet{mode: "random", maxExec: n / 2, sc: &Scenario{
					Name: name + "-nointerval", Reporter: rep, Closer: closer, CloseErr: false,
					Threads: []ThreadSpec{
						{Name: "a1", Ops: rec},
						{Name: "z1", Ops: []Op{{Op: "rootclose"}, {Op: "rootclose"}}},
						{Name: "z2", Ops: []Op{{Op: "rootclose"}}},
					}}})
			}
		}
		return out
	}

	scenarioFamilies["c09"] = func(tier string, rng *rand.Rand) []scenarioSet {
		var out []scenarioSet
		thorough := tier == "thorough"
		kinds := []struct{ k, probe, lock string }{{"counter", "gc_probe", "gc_lock"}, {"gauge", "gg_probe", "gg_lock"}, {"timer", "gt_probe", "gt_lock"},
			{"histogram", "gh_probe", "gh_lock"}, {"scope", "ss_rlock", "ss_lock"}}
		for _, rep := range []string{"plain", "cached"} {
			for _, kd := range kinds {
				use := func(v int64) []Op {
					ops := []Op{{Op: "get", H: "root", M: "x", K: kd.k}}
					switch kd.k {
					case "counter":
						ops = append(ops, Op{Op: "inc", H: "root", M: "x", V: v})
					case "gauge":
						// one updater per gauge: only the first thread updates
						if v == 1 {
							ops = append(ops, Op{Op: "upd", H: "root", M: "x", V: 1})
						}
					case "timer":
						ops = append(ops, Op{Op: "rec", H: "root", M: "x", V: v})
					case "histogram":
						ops = append(ops, Op{Op: "hrec", H: "root", M: "x", V: v})
					case "scope":
						ops = append(ops, Op{Op: "sub", H: "k", Name: "x"}, Op{Op: "inc", H: "k", M: "c", V: v})
					}
					return ops
				}
				pts := []string{"op_get", kd.probe, kd.lock, "rp_alloc", "op_inc", "op_sub", "op_upd", "op_rec", "op_hrec", "op_pass", "rp_visit", "bc_rlock", "bc_lock", "ss_found_check"}
				b9 := 1500
				if thorough {
					b9 = 200000
				}
				out = append(out, scenarioSet{mode: "dfs", maxExec: b9, sc: &Scenario{
					Name: "c09-" + kd.k + "-" + rep, Reporter: rep, Points: pts,
					Threads: []ThreadSpec{
						{Name: "a1", Ops: use(1)},
						{Name: "a2", Ops: use(2)},
						{Name: "p1", Ops: []Op{{Op: "pass"}}},
					}}})
			}
			// the same first-use races on a root whose sanitizer rewrites the name (the maps are keyed by the sanitized name)
			for _, kd := range kinds {
				if kd.k == "scope" {
					continue
				}
				first := []Op{{Op: "get", H: "root", M: "x-y", K: kd.k}}
				switch kd.k {
				case "counter":
					first = append(first, Op{Op: "inc", H: "root", M: "x-y", V: 1})
				case "timer":
					first = append(first, Op{Op: "rec", H: "root", M: "x-y", V: 1})
				case "histogram":
					first = append(first, Op{Op: "hrec", H: "root", M: "x-y", V: 1})
				}
				second := append([]Op{}, first...)
				if kd.k == "gauge" {
					first = append(first, Op{Op: "upd", H: "root", M: "x-y", V: 1})
				}
				out = append(out, scenarioSet{mode: "dfs", maxExec: 800, sc: &Scenario{
					Name: "c09-" + kd.k + "-sanitized-" + rep, Reporter: rep, Sanitize: true, Points: []string{"op_get", kd.probe, kd.lock, "rp_alloc", "op_inc", "op_upd", "op_rec", "op_hrec"},
					Threads: []ThreadSpec{{Name: "a1", Ops: first}, {Name: "a2", Ops: second}},
				}})
			}
			// a child scope that was used and closed is asked for again by two goroutines at the same moment: same scope for
			// both, everything recorded through either handle is delivered
			out = append(out, scenarioSet{mode: "dfs", maxExec: 2500, sc: &Scenario{
				Name: "c09-reacquire-closed-" + rep, Reporter: rep, Shards: 1, Points: []string{"op_sub", "op_close", "ss_rlock", "ss_lock", "ss_found_check", "op_inc", "op_pass"},
				Threads: []ThreadSpec{
					{Name: "a1", Ops: []Op{{Op: "sub", H: "k", Name: "x"}, {Op: "inc", H: "k", M: "c", V: 1}, {Op: "close", H: "k"}, {Op: "sub", H: "k", Name: "x"}, {Op: "inc", H: "k", M: "c", V: 2}}},
					{Name: "a2", Ops: []Op{{Op: "sub", H: "k", Name: "x"}, {Op: "inc", H: "k", M: "c", V: 4}}},
				}}})
			// three goroutines, two names, all kinds, sub-scope creation, recorder on an existing metric, loop: random over all points
			n := 300
			if thorough {
				n = 30000
			}
			var t1, t2, t3 []Op
			for _, kd := range []string{"counter", "histogram", "scope", "timer"} {
				t1 = append(t1, Op{Op: "get", H: "root", M: "x", K: kd})
				t2 = append(t2, Op{Op: "get", H: "root", M: "x", K: kd})
				t3 = append(t3, Op{Op: "get", H: "root", M: "y", K: kd}, Op{Op: "get", H: "root", M: "x", K: kd})
			}
			t1 = append(t1, Op{Op: "inc", H: "root", M: "x", V: 1}, Op{Op: "sub", H: "k", Name: "x"}, Op{Op: "inc", H: "k", M: "c", V: 1})
			t2 = append(t2, Op{Op: "inc", H: "root", M: "x", V: 2}, Op{Op: "sub", H: "k", Name: "x"}, Op{Op: "inc", H: "k", M: "c", V: 2})
			t3 = append(t3, Op{Op: "inc", H: "root", M: "y", V: 4}, Op{Op: "hrec", H: "root", M: "x", V: 1})
			for _, shards := range []int{1, 2, 16} {
				out = append(out, scenarioSet{mode: "random", maxExec: n, sc: &Scenario{
					Name: "c09-mixed-" + rep, Reporter: rep, Shards: shards, Loop: true, MaxTicks: 2, Internal: shards == 2,
					Threads: []ThreadSpec{{Name: "a1", Ops: t1}, {Name: "a2", Ops: t2}, {Name: "a3", Ops: t3},
						{Name: "w", Ops: []Op{{Op: "inc", H: "root", M: "old", V: 1}, {Op: "inc", H: "root", M: "old", V: 1}, {Op: "inc", H: "root", M: "old", V: 1}}}},
				}})
			}
		}
		return out
	}

	// the random (mixed) scenarios of c09 again, for the run under the Go race detector (observation channel of C09's race clause)
	scenarioFamilies["c09race"] = func(tier string, rng *rand.Rand) []scenarioSet {
		var out []scenarioSet
		for _, set := range scenarioFamilies["c09"]("quick", rng) {
			if set.mode == "random" {
				set.maxExec = 150
				out = append(out, set)
			}
		}
		return out
	}
	scenarioFamilies["c10"] = func(tier string, rng *rand.Rand) []scenarioSet {
		var out []scenarioSet
		thorough := tier == "thorough"
		for _, rep := range []string{"plain", "cached", "both"} {
			// records on two timers in two scopes interleaved with passes (and the loop): exactly one synchronous delivery per Record
			b10 := 3000
			if thorough {
				b10 = 300000
			}
			out = append(out, scenarioSet{mode: "dfs", maxExec: b10, sc: &Scenario{
				Name: "c10-timers-" + rep, Reporter: rep, Points: []string{"op_rec", "rp_timer", "op_pass", "rp_visit", "op_sub"},
				Threads: []ThreadSpec{
					{Name: "a1", Ops: []Op{{Op: "rec", H: "root", M: "t", V: 1}, {Op: "rec", H: "root", M: "t", V: 3}, {Op: "sub", H: "s", Name: "s"}, {Op: "rec", H: "s", M: "t", V: 2}}},
					{Name: "a2", Ops: []Op{{Op: "rec", H: "root", M: "t", V: 4}, {Op: "rec", H: "root", M: "u", V: 0}}},
					{Name: "p1", Ops: []Op{{Op: "pass"}, {Op: "pass"}}},
				}}})
			n := 200
			if thorough {
				n = 10000
			}
			out = append(out, scenarioSet{mode: "random", maxExec: n, sc: &Scenario{
				Name: "c10-timers-loop-" + rep, Reporter: rep, Loop: true, MaxTicks: 3, Shards: 2,
				Threads: []ThreadSpec{
					{Name: "a1", Ops: []Op{{Op: "rec", H: "root", M: "t", V: 1}, {Op: "rec", H: "root", M: "t", V: 3}, {Op: "sub", H: "s", Name: "s"}, {Op: "rec", H: "s", M: "t", V: 2}, {Op: "rec", H: "s", M: "t", V: 5}}},
					{Name: "a2", Ops: []Op{{Op: "rec", H: "root", M: "t", V: 4}, {Op: "rec", H: "root", M: "u", V: 6}, {Op: "rec", H: "root", M: "u", V: 2}}},
					{Name: "z", Ops: []Op{{Op: "pass"}, {Op: "rootclose"}}},
				}}})
		}
		return out
	}
}

func init() {
	// C20: histograms created concurrently, in different scopes of one root, from specifications whose cache identities collide
	scenarioFamilies["c20"] = func(tier string, rng *rand.Rand) []scenarioSet {
		var out []scenarioSet
		pts := []string{"op_hnew", "bc_rlock", "bc_lock", "bc_hit_check"}
		combos := [][2][]int64{{{0, 2}, {1, 3}}, {{2, 0}, {5, 4}}, {{3, 5}, {0, 6}}, {{7, 4}, {4, 2}}}
		n := 4000
		if tier == "thorough" {
			n = 200000
		}
		for _, cb := range combos {
			mk := func(h string, vs []int64) []Op {
				ops := []Op{{Op: "sub", H: h, Name: h}}
				for i, v := range vs {
					ops = append(ops, Op{Op: "hnew", H: h, M: []string{"x", "y", "z"}[i], V: v})
				}
				return ops
			}
			out = append(out, scenarioSet{mode: "dfs", maxExec: n, sc: &Scenario{
				Name: "c20-cache", Reporter: "cached", Points: pts, NoQuiesce: true,
				Threads: []ThreadSpec{{Name: "a1", Ops: mk("s1", cb[0])}, {Name: "a2", Ops: mk("s2", cb[1])}},
			}})
		}
		return out
	}
}
