package main

import (
	"flag"
	"fmt"
	"math/rand"
	"path/filepath"
	"strings"
	"time"

	"github.com/uber-go/tally/v4/m3"
	"github.com/uber-go/tally/v4/m3/thriftudp"
	"github.com/uber-go/tally/v4/thirdparty/github.com/apache/thrift/lib/go/thrift"
)

// C15: call histories on real TUDPTransport / TMultiUDPTransport objects against loopback sinks.
// Each written chunk carries a byte pattern that identifies (chunk id, offset), so every datagram a
// sink receives is segmented back into the chunks it consists of, byte for byte.

type udpOp struct {
	op   string // w ws wb flush discard close die abandon
	size int
	c    int // destination for die (1-based)
}

func (o udpOp) String() string {
	switch o.op {
	case "w", "ws":
		return fmt.Sprintf("%s(%d)", o.op, o.size)
	case "die":
		return fmt.Sprintf("die(%d)", o.c)
	}
	return o.op
}

func chunkByte(id, j int) byte { return byte(id*29 + j*7 + j/251) }

func chunkBytes(id, size int) []byte {
	b := make([]byte, size)
	for j := range b {
		b[j] = chunkByte(id, j)
	}
	return b
}

// segment splits a datagram into [id,size] pieces of the chunks written in this case (id 0 = unknown bytes)
func segment(d []byte, sizes map[int]int) [][2]int {
	var out [][2]int
	p := 0
	for p < len(d) {
		found := false
		for id, sz := range sizes {
			if byte(id*29) != d[p] || p+sz > len(d) {
				continue
			}
			match := true
			for j := 0; j < sz; j++ {
				if d[p+j] != chunkByte(id, j) {
					match = false
					break
				}
			}
			if match {
				out = append(out, [2]int{id, sz})
				p += sz
				found = true
				break
			}
		}
		if !found {
			// unknown bytes: one garbage segment up to the end
			out = append(out, [2]int{0, len(d) - p})
			break
		}
	}
	return out
}

func classifyErr(err error, op string) string {
	if err == nil {
		return "ok"
	}
	// n.b. thrift.INVALID_DATA (a protocol exception id the transport borrows for "does not fit") and
	// thrift.NOT_OPEN are both 1: the two are told apart by their text
	if te, ok := err.(thrift.TTransportException); ok && te.TypeId() == thrift.NOT_OPEN {
		if strings.Contains(te.Error(), "not open") {
			return "notopen"
		}
		if strings.Contains(te.Error(), "does not fit") {
			return "toobig"
		}
	}
	if op == "close" {
		return "closeerr"
	}
	if op == "flush" {
		return "senderr"
	}
	return "err:" + err.Error()
}

type udpCase struct {
	n        int
	multi    bool
	sinks    []*udpSink
	single   *thriftudp.TUDPTransport
	mt       *thriftudp.TMultiUDPTransport
	childs   []*thriftudp.TUDPTransport
	sizes    map[int]int
	nextID   int
	bad      bool // the writer saw an error since the last Flush / Discard
	buffered int  // the writer's own count of accepted bytes since the last boundary
	deaf     []bool
}

func newUDPCase(n int, multi bool, sinks []*udpSink) *udpCase {
	c := &udpCase{n: n, multi: multi, sinks: sinks[:n], sizes: map[int]int{}, deaf: make([]bool, n)}
	for _, s := range c.sinks {
		s.drain(0)
	}
	if !multi {
		t, err := thriftudp.NewTUDPClientTransport(sinks[0].addr(), "")
		if err != nil {
			fatal("dial: %v", err)
		}
		c.single = t
		c.childs = []*thriftudp.TUDPTransport{t}
	} else {
		var addrs []string
		for _, s := range c.sinks {
			addrs = append(addrs, s.addr())
		}
		t, err := thriftudp.NewTMultiUDPClientTransport(addrs, "")
		if err != nil {
			fatal("dial multi: %v", err)
		}
		c.mt = t
		for _, ch := range thriftudp.VerifTransports(t) {
			c.childs = append(c.childs, ch.(*thriftudp.TUDPTransport))
		}
	}
	return c
}

func (c *udpCase) finish() {
	for _, ch := range c.childs {
		ch.Close()
	}
}

// applicable says whether the op makes sense now (abandon needs a failed message; die needs a live socket)
func (c *udpCase) do(o udpOp, dead []bool) (rec M, ok bool) {
	if o.op == "abandon" && !c.bad {
		return nil, false
	}
	if o.op == "die" && (o.c > c.n || dead[o.c-1]) {
		return nil, false
	}
	if o.op == "deafen" && (o.c > c.n || c.deaf[o.c-1] || dead[o.c-1]) {
		return nil, false
	}
	if (o.op == "ws" || o.op == "wb") && c.multi {
		return nil, false
	}
	var tr0 thrift.TTransport = c.single
	if c.multi {
		tr0 = c.mt
	}
	discarder, canDiscard := tr0.(interface{ Discard() })
	if o.op == "discard" && !canDiscard {
		return nil, false // the transport under test has no Discard (the tree before the fix)
	}
	rec = M{"e": "op", "op": o.op, "id": 0, "size": 0, "c": 0}
	wasOpen := make([]bool, c.n)
	for i, ch := range c.childs {
		wasOpen[i] = ch.IsOpen()
	}
	res := "ok"
	func() {
		defer func() {
			if r := recover(); r != nil {
				res = "PANIC"
				rec["panic"] = fmt.Sprint(r)
			}
		}()
		var tr thrift.TTransport = c.single
		if c.multi {
			tr = c.mt
		}
		switch o.op {
		case "w", "ws", "wb":
			c.nextID++
			id := c.nextID
			size := o.size
			if o.op == "wb" {
				size = 1
			}
			c.sizes[id] = size
			rec["id"], rec["size"] = id, size
			data := chunkBytes(id, size)
			var err error
			switch o.op {
			case "w":
				_, err = tr.Write(data)
			case "ws":
				_, err = c.single.WriteString(string(data))
			case "wb":
				err = c.single.WriteByte(data[0])
			}
			res = classifyErr(err, o.op)
			if res != "ok" {
				c.bad = true
			}
		case "flush":
			res = classifyErr(tr.Flush(), "flush")
			c.bad = false
		case "discard":
			discarder.Discard()
			c.bad = false
		case "close":
			res = classifyErr(tr.Close(), "close")
		case "die":
			rec["c"] = o.c
			c.childs[o.c-1].Conn().Close()
			dead[o.c-1] = true
		case "deafen":
			// the collector goes away: nobody listens on the destination's port any more (sends are answered with
			// "port unreachable": the next send on the connected socket fails with ECONNREFUSED, the one after goes out)
			rec["c"] = o.c
			c.sinks[o.c-1].close()
			c.deaf[o.c-1] = true
		case "abandon":
			c.bad = false
		}
	}()
	rec["res"] = res
	bl := make([]int, c.n)
	op := make([]bool, c.n)
	got := make([][][][2]int, c.n)
	for i, ch := range c.childs {
		bl[i] = thriftudp.VerifBufLen(ch)
		op[i] = ch.IsOpen()
		got[i] = [][][2]int{}
		// a Flush that reported success has put one datagram on every destination's wire: wait for it; after any other
		// call only what is already queued is taken
		var dgrams [][]byte
		if c.deaf[i] {
			dgrams = nil
		} else if o.op == "flush" && wasOpen[i] && !dead[i] {
			// this destination was open and its socket alive: a Flush that reaches it puts one datagram on its wire
			dgrams = c.sinks[i].drainN(1, 300*time.Millisecond)
		} else {
			dgrams = c.sinks[i].drain(0)
		}
		for _, d := range dgrams {
			seg := segment(d, c.sizes)
			if seg == nil {
				seg = [][2]int{}
			}
			got[i] = append(got[i], seg)
		}
	}
	rec["buflen"], rec["open"], rec["got"] = bl, op, got
	return rec, true
}

func init() {
	register("c15", "call histories on real UDP transports against loopback sinks (C15)", func(args []string) {
		fs := flag.NewFlagSet("c15", flag.ExitOnError)
		cm := commonFlags(fs)
		n := fs.Int("n", 1, "destinations")
		multi := fs.Bool("multi", false, "TMultiUDPTransport")
		part := fs.String("part", "0/1", "i/k: this process runs the exhaustive cases with index = i mod k")
		fs.Parse(args)
		var pi, pk int
		fmt.Sscanf(*part, "%d/%d", &pi, &pk)
		rng := rand.New(rand.NewSource(cm.seed + int64(*n)*7919 + int64(pi)*104729))
		thorough := cm.tier == "thorough"
		tr := NewTrace(filepath.Join(cm.out, "trace.ndjson"))
		sinks := []*udpSink{newUDPSink(), newUDPSink(), newUDPSink()}
		const U = 13000 // 5 units = MaxLength exactly
		var alpha []udpOp
		if !*multi {
			alpha = []udpOp{{op: "w", size: U}, {op: "w", size: 3 * U}, {op: "w", size: 5 * U}, {op: "ws", size: 3 * U}, {op: "w", size: 6 * U},
				{op: "wb"}, {op: "flush"}, {op: "discard"}, {op: "close"}, {op: "die", c: 1}, {op: "deafen", c: 1}}
		} else {
			alpha = []udpOp{{op: "w", size: U}, {op: "w", size: 3 * U}, {op: "w", size: 5 * U}, {op: "flush"}, {op: "discard"}, {op: "close"}}
			for c := 1; c <= *n; c++ {
				alpha = append(alpha, udpOp{op: "die", c: c})
			}
			alpha = append(alpha, udpOp{op: "deafen", c: 1})
		}
		maxLen := 4
		if thorough {
			maxLen = 5
		}
		if *multi && *n >= 3 && !thorough {
			maxLen = 3
		}
		cases, events, evals := 0, 0, 0
		distinct := map[string]bool{}
		var samples []interface{}
		runCase := func(ops []udpOp, kind string) {
			// fresh sinks per case: a datagram of an earlier case that is delivered late ends up at a closed socket
			for i := range sinks {
				sinks[i].close()
				sinks[i] = newUDPSink()
			}
			c := newUDPCase(*n, *multi, sinks)
			dead := make([]bool, *n)
			tr.Emit(M{"e": "new", "kind": kind})
			var done []string
			for _, o := range ops {
				rec, ok := c.do(o, dead)
				if !ok {
					continue
				}
				tr.Emit(rec)
				events++
				done = append(done, o.String()+"="+rec["res"].(string))
			}
			c.finish()
			// anything arriving late would be a datagram no call accounted for
			for i := 0; i < *n; i++ {
				if c.deaf[i] {
					continue
				}
				if late := sinks[i].drainN(0, 2*time.Millisecond); len(late) > 0 {
					// every datagram of a Flush was waited for when the Flush returned: this one was put on the wire by no Flush
					// (e.g. by Close)
					tr.Emit(M{"e": "late", "sink": i + 1, "n": len(late), "len": len(late[0])})
					events++
				}
			}
			cases++
			evals += len(done)
			key := strings.Join(done, " ")
			distinct[key] = true
			if len(samples) < 4 && len(done) >= 3 && rng.Intn(50) == 0 {
				samples = append(samples, M{"destinations": *n, "multi": *multi, "history": key})
			}
		}
		// (a) every history up to maxLen over the alphabet (ops that do not apply in the state reached are skipped,
		//     so some enumerated histories coincide; distinct counts the executed ones)
		idx := 0
		var rec func(prefix []udpOp)
		rec = func(prefix []udpOp) {
			if len(prefix) > 0 {
				if idx%pk == pi {
					runCase(prefix, "exhaustive")
				}
				idx++
			}
			if len(prefix) == maxLen {
				return
			}
			for _, o := range alpha {
				rec(append(append([]udpOp{}, prefix...), o))
			}
		}
		rec(nil)
		// (b) boundary histories: totals landing on MaxLength-1, MaxLength, MaxLength+1, WriteByte at the limit
		nb := 300
		if thorough {
			nb = 3000
		}
		nb = nb / pk
		for i := 0; i < nb; i++ {
			var ops []udpOp
			total := 0
			hl := 4 + rng.Intn(9)
			for k := 0; k < hl; k++ {
				switch r := rng.Intn(20); {
				case r < 9:
					var sz int
					switch rng.Intn(6) {
					case 0:
						sz = 1 + rng.Intn(3)
					case 1:
						sz = 1 + rng.Intn(thriftudp.MaxLength)
					case 2:
						sz = thriftudp.MaxLength - total - 1 + rng.Intn(3) // lands on limit-1, limit, limit+1
					case 3:
						sz = thriftudp.MaxLength + rng.Intn(2)
					case 4:
						sz = thriftudp.MaxLength/2 + rng.Intn(2)
					default:
						sz = 1000 + rng.Intn(30000)
					}
					if sz < 1 {
						sz = 1
					}
					kind := "w"
					if !*multi && rng.Intn(3) == 0 {
						kind = "ws"
					}
					ops = append(ops, udpOp{op: kind, size: sz})
					if total+sz <= thriftudp.MaxLength {
						total += sz
					}
				case r < 11:
					ops = append(ops, udpOp{op: "wb"})
					if total+1 <= thriftudp.MaxLength {
						total++
					}
				case r < 16:
					ops = append(ops, udpOp{op: "flush"})
					total = 0
				case r < 17:
					ops = append(ops, udpOp{op: "discard"})
					total = 0
				case r < 18:
					ops = append(ops, udpOp{op: "discard"})
				case r < 19:
					if rng.Intn(4) == 0 {
						ops = append(ops, udpOp{op: "die", c: 1 + rng.Intn(*n)})
					}
				default:
					if rng.Intn(4) == 0 {
						ops = append(ops, udpOp{op: "close"})
					}
				}
			}
			ops = append(ops, udpOp{op: "flush"}, udpOp{op: "w", size: 100 + rng.Intn(100)}, udpOp{op: "flush"})
			runCase(ops, "boundary")
		}
		tr.Close()
		for _, s := range sinks {
			s.close()
		}
		writeMeta(cm.out, M{"cases": cases, "events": tr.N, "evals": evals, "distinct": len(distinct), "samples": samples, "n": *n, "multi": *multi, "maxLen": maxLen})
	})

	register("c15rep", "the real M3 reporter over a transport that refuses an oversized batch keeps emitting later batches (C15)", func(args []string) {
		fs := flag.NewFlagSet("c15rep", flag.ExitOnError)
		cm := commonFlags(fs)
		fs.Parse(args)
		rng := rand.New(rand.NewSource(cm.seed))
		tr := NewTrace(filepath.Join(cm.out, "trace.ndjson"))
		rounds := 6
		if cm.tier == "thorough" {
			rounds = 40
		}
		var samples []interface{}
		for round := 0; round < rounds; round++ {
			compact := round%2 == 0
			ndest := 1 + (round/2)%2*2 // 1 or 3 destinations
			var sinks []*udpSink
			var addrs []string
			for i := 0; i < ndest; i++ {
				s := newUDPSink()
				sinks = append(sinks, s)
				addrs = append(addrs, s.addr())
			}
			proto := m3.Compact
			if !compact {
				proto = m3.Binary
			}
			r, err := m3.NewReporter(m3.Options{HostPorts: addrs, Service: "svc", Env: "test", Protocol: proto,
				MaxPacketSizeBytes: 200000, MaxQueueSize: 4096})
			if err != nil {
				fatal("m3.NewReporter: %v", err)
			}
			// script: phases of (k metrics with long names => one batch beyond 65000 bytes | a few small metrics), each ended by Flush
			type phase struct {
				big   bool
				names []string
			}
			var phases []phase
			np := 3 + rng.Intn(4)
			for p := 0; p < np; p++ {
				big := p > 0 && rng.Intn(2) == 0 || p == 1
				var names []string
				if big {
					k := 120 + rng.Intn(60)
					for i := 0; i < k; i++ {
						names = append(names, fmt.Sprintf("big_%d_%d_%s", p, i, strings.Repeat("x", 580)))
					}
				} else {
					k := 1 + rng.Intn(4)
					for i := 0; i < k; i++ {
						names = append(names, fmt.Sprintf("small_%d_%d", p, i))
					}
				}
				phases = append(phases, phase{big, names})
			}
			tr.Emit(M{"e": "new", "compact": compact, "dest": ndest})
			for pi, ph := range phases {
				for _, nm := range ph.names {
					r.AllocateCounter(nm, nil).ReportCount(int64(pi + 1))
				}
				r.Flush()
				// wait until the batching goroutine has processed the flush marker: the datagrams (if any) arrive
				got := make([][]string, ndest)
				oversize := false
				deadline := time.Now().Add(3 * time.Second)
				want := len(ph.names)
				for d := 0; d < ndest; d++ {
					seen := 0
					got[d] = []string{}
					for time.Now().Before(deadline) && seen < want {
						dgs := sinks[d].drain(20 * time.Millisecond)
						if len(dgs) == 0 && ph.big {
							break // an oversized batch is expected to be dropped as a whole
						}
						for _, dg := range dgs {
							b, _, ok, why := decodeBatch(dg, compact)
							if !ok {
								got[d] = append(got[d], "UNDECODABLE:"+why)
								seen = want
								continue
							}
							if len(dg) > thriftudp.MaxLength {
								oversize = true
							}
							for _, m := range b.Metrics {
								if strings.HasPrefix(m.Name, "tally.internal") {
									continue
								}
								nm := m.Name
								if len(nm) > 24 {
									nm = nm[:24]
								}
								got[d] = append(got[d], fmt.Sprintf("%s=%d", nm, m.Value.Count))
								seen++
							}
						}
					}
				}
				exp := []string{}
				if !ph.big {
					for _, nm := range ph.names {
						exp = append(exp, fmt.Sprintf("%s=%d", nm, pi+1))
					}
				}
				tr.Emit(M{"e": "phase", "big": ph.big, "nmetrics": len(ph.names), "got": got, "exp": exp, "oversize": oversize})
				if len(samples) < 3 && !ph.big && pi > 1 {
					samples = append(samples, M{"after_oversized_batch": true, "compact": compact, "destinations": ndest, "received": got[0]})
				}
			}
			r.Close()
			for _, s := range sinks {
				s.close()
			}
		}
		tr.Close()
		writeMeta(cm.out, M{"cases": rounds, "events": tr.N, "evals": tr.N, "distinct": rounds, "samples": samples})
	})
}
