package main

import (
	"fmt"
	"path/filepath"
	"strings"

	"verif/harness/sched"
)

// Step-level conformance of the core with TallyCore.tla (scenarios whose name starts with "st-").
// Every granted step of an execution - (thread, hook label) - is written to steps-<scenario>.ndjson in the
// vocabulary of the model: the model's process for the harness thread, the model's label for the hook, and "nx",
// the label at which the same process takes its next step (the code runs from one hook to the next; the model
// runs the process from the label's action through its unhooked labels up to nx).  Hooks the model has no label
// for are written as stutters.  The first line describes the model constants of the scenario.

// hooks that are labels of TallyCore.tla
var coreModelLabels = map[string]bool{
	"sr_c": true, "cv_load_prev": true, "cv_load_curr": true, "cv_cas": true, "rp_counter": true, "gr_swap": true, "gr_load": true, "rp_gauge": true,
	"rm_runlock": true, "rm_lock": true, "rm_relock": true, "cm_c": true,
	"rr_begin": true, "rp_rlock": true, "rp_visit": true, "rp_flush": true, "rr_end": true, "pg_lock": true,
	"ss_closed_check": true, "ss_rlock": true, "ss_found_check": true, "ss_lock": true,
	"gc_probe": true, "gc_lock": true, "sc_mu": true, "sc_cas": true, "sc_done": true,
	"gu_store_val": true, "gu_store_flag": true,
	"rl_select": true, "rl_tick": true, "rl_exit": true,
	"cl_mu": true, "cl_cas": true, "cl_done": true, "cl_wait": true, "cl_report": true,
}

var stepSides = map[string]*Trace{}
var stepOut string

func threadKind(ts ThreadSpec) string {
	allPass, hasClose := len(ts.Ops) > 0, false
	for _, op := range ts.Ops {
		if op.Op != "pass" {
			allPass = false
		}
		if op.Op == "rootclose" {
			hasClose = true
		}
	}
	switch {
	case allPass:
		return "passer"
	case hasClose:
		return "closer"
	}
	return "app"
}

// modelScript renders an app thread's ops in the model's script alphabet
func modelScript(ts ThreadSpec) []string {
	out := []string{}
	for _, op := range ts.Ops {
		switch {
		case op.Op == "sub":
			out = append(out, "sub")
		case op.Op == "inc" && op.H == "root":
			out = append(out, "rinc")
		case op.Op == "inc":
			out = append(out, "inc")
		case op.Op == "close":
			out = append(out, "close")
		case op.Op == "upd":
			out = append(out, fmt.Sprintf("upd%d", op.V))
		default:
			fatal("scenario op %q has no counterpart in the model's scripts", op.Op)
		}
	}
	return out
}

func emitSteps(sc *Scenario, x int, steps []sched.Step) {
	tr := stepSides[sc.Name]
	kinds := map[string]string{}
	if tr == nil {
		tr = NewTrace(filepath.Join(stepOut, "steps-"+sc.Name+".ndjson"))
		stepSides[sc.Name] = tr
		apps, closers, passers := []string{}, []string{}, []string{}
		scripts := map[string][]string{}
		for _, ts := range sc.Threads {
			switch threadKind(ts) {
			case "app":
				apps = append(apps, ts.Name)
				scripts[ts.Name] = modelScript(ts)
			case "closer":
				closers = append(closers, ts.Name)
			case "passer":
				for k := range ts.Ops {
					passers = append(passers, fmt.Sprintf("%s#%d", ts.Name, k+1))
				}
			}
		}
		tr.Emit(M{"e": "cfg", "scenario": sc.Name, "apps": apps, "scripts": scripts, "closers": closers, "passers": passers, "loop": sc.Loop, "max_ticks": sc.MaxTicks})
	}
	for _, ts := range sc.Threads {
		kinds[ts.Name] = threadKind(ts)
	}
	kinds["loop"] = "ticker"
	type line struct {
		mt, p string
		st    bool
		a     int64
	}
	lines := make([]line, len(steps))
	passNo := map[string]int{}
	for i, s := range steps {
		k := kinds[s.Thread]
		mt, p := s.Thread, s.Point
		switch k {
		case "passer":
			if p == "rr_begin" {
				passNo[s.Thread]++
			}
			mt = fmt.Sprintf("%s#%d", s.Thread, passNo[s.Thread])
		case "ticker":
			mt = "ticker"
		case "app":
			// a sub-scope's Close goes through the same hooks as the root's
			if strings.HasPrefix(p, "cl_") {
				p = "sc_" + strings.TrimPrefix(p, "cl_")
			}
		}
		st := !coreModelLabels[p] || (k == "passer" && passNo[s.Thread] == 0)
		lines[i] = line{mt, p, st, s.A}
	}
	tr.Emit(M{"e": "scn", "x": x})
	for i, ln := range lines {
		if ln.st {
			tr.Emit(M{"e": "step", "t": ln.mt, "p": ln.p, "st": true, "nx": "", "a": 0})
			continue
		}
		nx := "Done"
		if ln.mt == "ticker" {
			nx = "rl_select" // the loop goroutine ends an execution parked at its select
			if ln.p == "rl_exit" {
				nx = "Done"
			}
		}
		for j := i + 1; j < len(lines); j++ {
			if lines[j].mt == ln.mt && !lines[j].st {
				nx = lines[j].p
				break
			}
		}
		tr.Emit(M{"e": "step", "t": ln.mt, "p": ln.p, "st": false, "nx": nx, "a": ln.a})
	}
	tr.Emit(M{"e": "endx", "x": x})
}

func closeStepSides() (files []string, events int) {
	for name, tr := range stepSides {
		tr.Close()
		files = append(files, "steps-"+name+".ndjson")
		events += tr.N
	}
	stepSides = map[string]*Trace{}
	return
}
