// Command vh is the Go side of the model-based verification of uber-go/tally:
// it drives the real code (built from /repo's working tree) through inputs,
// call histories and schedules, and records what the code did as ndjson traces
// that TLC then validates against the TLA+ specifications under /verif/specs.
package main

import (
	"bufio"
	"bytes"
	"encoding/json"
	"flag"
	"fmt"
	"os"
	"path/filepath"
	"sort"
)

// Trace is an ndjson trace file being written.
type Trace struct {
	f *os.File
	w *bufio.Writer
	N int
}

func NewTrace(path string) *Trace {
	f, err := os.Create(path)
	if err != nil {
		fatal("create %s: %v", path, err)
	}
	return &Trace{f: f, w: bufio.NewWriterSize(f, 1<<20)}
}

func (t *Trace) Emit(rec interface{}) {
	b, err := json.Marshal(rec)
	if err != nil {
		fatal("marshal: %v", err)
	}
	// TLC's Json module cannot read null: a nil slice is an empty sequence (maps are always initialised by the callers)
	b = bytes.ReplaceAll(b, []byte(":null"), []byte(":[]"))
	t.w.Write(b)
	t.w.WriteByte('\n')
	t.N++
}

func (t *Trace) Close() {
	t.w.Flush()
	t.f.Close()
}

// M is a JSON object.
type M map[string]interface{}

func fatal(format string, a ...interface{}) {
	fmt.Fprintf(os.Stderr, "vh: "+format+"\n", a...)
	os.Exit(2) // infrastructure failure, never a violation
}

func writeMeta(dir string, meta M) {
	b, _ := json.MarshalIndent(meta, "", " ")
	if err := os.WriteFile(filepath.Join(dir, "meta.json"), b, 0o644); err != nil {
		fatal("meta: %v", err)
	}
}

type command struct {
	run  func(args []string)
	help string
}

var commands = map[string]command{}

func register(name, help string, run func(args []string)) {
	commands[name] = command{run: run, help: help}
}

// common flags
type common struct {
	out  string
	seed int64
	tier string
}

func commonFlags(fs *flag.FlagSet) *common {
	c := &common{}
	fs.StringVar(&c.out, "out", ".", "output directory")
	fs.Int64Var(&c.seed, "seed", 1, "seed for random choices")
	fs.StringVar(&c.tier, "tier", "quick", "quick|thorough")
	return c
}

func main() {
	if len(os.Args) < 2 {
		names := make([]string, 0)
		for n := range commands {
			names = append(names, n)
		}
		sort.Strings(names)
		for _, n := range names {
			fmt.Printf("%-12s %s\n", n, commands[n].help)
		}
		os.Exit(2)
	}
	c, ok := commands[os.Args[1]]
	if !ok {
		fatal("unknown command %q", os.Args[1])
	}
	c.run(os.Args[2:])
}
