package main

import (
	"flag"
	"fmt"
	"math/rand"
	"path/filepath"
	"sort"
	"sync"
	"sync/atomic"
	"time"

	tally "github.com/uber-go/tally/v4"
)

// c10conc: several goroutines call Record on ONE shared timer (and on a timer of their own) at the same time, on a
// reporter-less test scope, a plain reporter and a cached reporter, while another goroutine runs report passes /
// snapshots.  Every recorded duration is distinct (goroutine number * 1e6 + index), so what the snapshot or the
// recording reporter holds afterwards can be compared with what was recorded as multisets (TimerSinkTrace.tla).
func init() {
	register("c10conc", "concurrent Timer.Record on one timer: test scope, plain and cached reporter (C10)", func(args []string) {
		fs := flag.NewFlagSet("c10conc", flag.ExitOnError)
		cm := commonFlags(fs)
		fs.Parse(args)
		rng := rand.New(rand.NewSource(cm.seed))
		rounds, per := 30, 600
		if cm.tier == "thorough" {
			rounds, per = 60, 6000
		}
		tr := NewTrace(filepath.Join(cm.out, "trace.ndjson"))
		evals := 0
		var samples []interface{}
		for round := 0; round < rounds; round++ {
			for _, mode := range []string{"test", "plain", "cached"} {
				G := 2 + rng.Intn(5)
				per := per
				if round == 0 {
					// one long history per mode: several thousand values on one timer (a bounded or recycled buffer of
					// kept values loses the oldest ones only beyond a few thousand)
					G, per = 4+rng.Intn(3), 4000
				}
				var root tally.Scope
				var ts tally.TestScope
				plain := &recReporter{}
				cached := &recCached{}
				switch mode {
				case "test":
					ts = tally.VerifNewTestScope("", nil, uint(1+round%3))
					root = ts
				case "plain":
					root, _ = tally.VerifNewRootScope(tally.ScopeOptions{Reporter: plain}, 0, uint(1+round%3))
				case "cached":
					root, _ = tally.VerifNewRootScope(tally.ScopeOptions{CachedReporter: cached}, 0, uint(1+round%3))
				}
				sub := root.Tagged(map[string]string{"k": "v"})
				tr.Emit(M{"e": "reset", "mode": mode, "goroutines": G, "per": per})
				recs := map[string][]int64{}
				var rmu sync.Mutex
				var wg sync.WaitGroup
				var arrived atomic.Int32
				start := make(chan struct{})
				stop := make(chan struct{})
				for g := 0; g < G; g++ {
					g := g
					wg.Add(1)
					go func() {
						defer wg.Done()
						// first use of the shared timers by all goroutines at the same moment
						arrived.Add(1)
						for int(arrived.Load()) < G {
						}
						shared := root.Timer("shared")
						subShared := sub.Timer("shared")
						own := root.Timer(fmt.Sprintf("own%d", g))
						mine := map[string][]int64{}
						<-start
						for i := 0; i < per; i++ {
							d := int64(g+1)*1000000 + int64(i)
							switch i % 4 {
							case 0, 1:
								shared.Record(time.Duration(d))
								mine["shared"] = append(mine["shared"], d)
							case 2:
								subShared.Record(time.Duration(d))
								mine["shared{k=v}"] = append(mine["shared{k=v}"], d)
							default:
								own.Record(time.Duration(d))
								k := fmt.Sprintf("own%d", g)
								mine[k] = append(mine[k], d)
							}
						}
						rmu.Lock()
						for k, v := range mine {
							recs[k] = append(recs[k], v...)
						}
						rmu.Unlock()
					}()
				}
				// report passes (and snapshots of the test scope, which do not remove anything) run at the same time:
				// "report passes neither repeat nor buffer timer values"
				pdone := make(chan struct{})
				go func() {
					defer close(pdone)
					for {
						select {
						case <-stop:
							return
						default:
						}
						if ts != nil {
							ts.Snapshot()
						} else {
							tally.VerifReportOnce(root)
						}
						time.Sleep(50 * time.Microsecond)
					}
				}()
				close(start)
				wg.Wait()
				close(stop)
				<-pdone
				seen := map[string][]int64{}
				switch mode {
				case "test":
					for _, t := range ts.Snapshot().Timers() {
						id := renderID(t.Name(), t.Tags())
						for _, d := range t.Values() {
							seen[id] = append(seen[id], int64(d))
						}
					}
				case "plain":
					tally.VerifReportOnce(root)
					for _, c := range plain.take() {
						if c.Kind == "timer" {
							seen[renderID(c.Name, c.Tags)] = append(seen[renderID(c.Name, c.Tags)], int64(c.D))
						}
					}
				case "cached":
					tally.VerifReportOnce(root)
					for _, c := range cached.take() {
						if c.Kind == "timer" && !c.Alloc {
							seen[renderID(c.Name, c.Tags)] = append(seen[renderID(c.Name, c.Tags)], int64(c.D))
						}
					}
				}
				ids := map[string]bool{}
				sorted := func(a []int64) []int64 {
					b := append([]int64{}, a...)
					sort.Slice(b, func(i, j int) bool { return b[i] < b[j] })
					return b
				}
				for id, ds := range recs {
					ids[id] = true
					tr.Emit(M{"e": "recs", "id": id, "ds": sorted(ds)})
					evals += len(ds)
				}
				for id := range seen {
					ids[id] = true
				}
				for id := range ids {
					// missing / extra: how many recorded values are not held, how many held values were not recorded or are
					// held more often than recorded (diagnostic counts; the lists themselves are compared by the trace spec)
					cnt := map[int64]int{}
					for _, d := range recs[id] {
						cnt[d]++
					}
					extra := 0
					for _, d := range seen[id] {
						if cnt[d] > 0 {
							cnt[d]--
						} else {
							extra++
						}
					}
					missing := 0
					for _, n := range cnt {
						missing += n
					}
					tr.Emit(M{"e": "seen", "id": id, "ds": sorted(seen[id]), "missing": missing, "extra": extra})
				}
				if len(samples) < 3 {
					samples = append(samples, M{"mode": mode, "goroutines": G, "records_per_goroutine": per, "timers": len(ids)})
				}
			}
		}
		tr.Close()
		writeMeta(cm.out, M{"cases": rounds * 3, "events": tr.N, "evals": evals, "distinct": rounds * 3, "samples": samples})
	})
}
