package main

import (
	"flag"
	"fmt"
	"io"
	"math"
	"math/rand"
	"path/filepath"
	"time"

	tally "github.com/uber-go/tally/v4"
)

// c11: record / snapshot histories on a real test scope (C11).
func init() {
	register("c11", "record/snapshot histories on test scopes (C11)", func(args []string) {
		fs := flag.NewFlagSet("c11", flag.ExitOnError)
		cm := commonFlags(fs)
		fs.Parse(args)
		rng := rand.New(rand.NewSource(cm.seed))
		nHist, nOps := 150, 25
		if cm.tier == "thorough" {
			nHist, nOps = 3000, 40
		}
		tr := NewTrace(filepath.Join(cm.out, "trace.ndjson"))
		gtab := []float64{0, 1.5, -2.25, math.Inf(1), 5e-324, math.MaxFloat64}
		gtok := func(f float64) int {
			for i, x := range gtab {
				if math.Float64bits(x) == math.Float64bits(f) {
					return i
				}
			}
			return -99
		}
		evals := 0
		distinct := map[string]bool{}
		var samples []interface{}
		for h := 0; h < nHist; h++ {
			prefix := []string{"", "p", "a.b"}[h%3]
			var rootTags map[string]string
			if h%2 == 1 {
				rootTags = map[string]string{"env": "t"}
			}
			ts := tally.VerifNewTestScope(prefix, rootTags, uint(1+h%3))
			tr.Emit(M{"e": "new", "prefix": prefix})
			// a small scope tree
			type sc struct {
				s      tally.Scope
				prefix string
				tags   map[string]string
				mids   map[string]bool
			}
			scopes := []*sc{{s: ts, prefix: prefix, tags: rootTags, mids: map[string]bool{}}}
			for i := 0; i < 3; i++ {
				p := scopes[rng.Intn(len(scopes))]
				if rng.Intn(2) == 0 {
					n := []string{"s", "t", "s.u"}[rng.Intn(3)]
					scopes = append(scopes, &sc{s: p.s.SubScope(n), prefix: qualify(p.prefix, n), tags: p.tags, mids: map[string]bool{}})
				} else {
					// incl. derivations that lead back to the parent's own identity (no tags; a tag the root already carries)
					tg := []map[string]string{{"k": "v"}, {"k": "w"}, {"env": "x", "z": ""}, {}, {"env": "t"}}[rng.Intn(5)]
					scopes = append(scopes, &sc{s: p.s.Tagged(tg), prefix: p.prefix, tags: mergeTags(p.tags, tg), mids: map[string]bool{}})
				}
			}
			type snapRec struct {
				snap tally.Snapshot
			}
			var snaps []tally.Snapshot
			hspecs := map[string]tally.Buckets{}
			abstract := func(sn tally.Snapshot) M {
				c, g, t, hh := M{}, M{}, M{}, M{}
				keysOK := true
				for k, e := range sn.Counters() {
					c[c11ID(e.Name(), e.Tags())] = e.Value()
					keysOK = keysOK && k == tally.KeyForPrefixedStringMap(e.Name(), e.Tags())
				}
				for k, e := range sn.Gauges() {
					g[c11ID(e.Name(), e.Tags())] = gtok(e.Value())
					keysOK = keysOK && k == tally.KeyForPrefixedStringMap(e.Name(), e.Tags())
				}
				for k, e := range sn.Timers() {
					vs := []int{}
					for _, d := range e.Values() {
						vs = append(vs, durTok(d))
					}
					t[c11ID(e.Name(), e.Tags())] = vs
					keysOK = keysOK && k == tally.KeyForPrefixedStringMap(e.Name(), e.Tags())
				}
				for k, e := range sn.Histograms() {
					m := M{}
					for up, n := range e.Values() {
						m[upTok(up)] = n
					}
					for up, n := range e.Durations() {
						m[dupTok(up)] = n
					}
					hh[c11ID(e.Name(), e.Tags())] = m
					keysOK = keysOK && k == tally.KeyForPrefixedStringMap(e.Name(), e.Tags())
				}
				return M{"c": c, "g": g, "t": t, "h": hh, "keys_ok": keysOK}
			}
			desc := ""
			for i := 0; i < nOps; i++ {
				s := scopes[rng.Intn(len(scopes))]
				// metric names incl. the empty one ("keyed by its full name and tags" also when the full name is empty)
				m := []string{"m", "n", "", "m"}[rng.Intn(4)]
				switch k := rng.Intn(10); {
				case k < 2:
					v := int64(rng.Intn(5) - 1)
					id := c11ID(qualify(s.prefix, m), s.tags)
					s.s.Counter(m).Inc(v)
					s.mids[id] = true
					tr.Emit(M{"e": "inc", "id": id, "v": v})
					desc += "c"
				case k < 4:
					v := rng.Intn(len(gtab))
					id := c11ID(qualify(s.prefix, c11Name(m, "g")), s.tags)
					s.s.Gauge(c11Name(m, "g")).Update(gtab[v])
					s.mids[id] = true
					tr.Emit(M{"e": "upd", "id": id, "v": v})
					desc += "g"
				case k < 6:
					d := c11Durs[rng.Intn(len(c11Durs))]
					id := c11ID(qualify(s.prefix, c11Name(m, "t")), s.tags)
					s.s.Timer(c11Name(m, "t")).Record(d)
					s.mids[id] = true
					tr.Emit(M{"e": "rec", "id": id, "v": durTok(d)})
					desc += "t"
				case k < 8:
					id := c11ID(qualify(s.prefix, c11Name(m, "h")), s.tags)
					var bk tally.Buckets
					dur := rng.Intn(2) == 0
					if b, ok := hspecs[id]; ok {
						bk = b
						_, dur = b.(tally.DurationBuckets)
					} else if dur {
						// several histograms of one scope tree with different lists of the same length (the tree shares one
						// cache of bucket storage: lists with the same length and the same sum of bounds are neighbours there)
						bk = []tally.DurationBuckets{
							{time.Second, time.Millisecond, time.Second},
							{}, // an explicitly empty list: one catch-all bucket
							{10 * time.Millisecond, 40 * time.Millisecond},
							{20 * time.Millisecond, 30 * time.Millisecond},
							{time.Millisecond, 49 * time.Millisecond},
							{time.Second, time.Minute, time.Millisecond},
						}[rng.Intn(6)]
					} else {
						bk = []tally.ValueBuckets{
							{2, 1, 2, -1},
							{},
							{1, 8},
							{2, 4},
							{2, 7},
							{4, 5},
							{0, 9},
						}[rng.Intn(7)]
					}
					hg := s.s.Histogram(c11Name(m, "h"), bk)
					if _, ok := hspecs[id]; !ok {
						hspecs[id] = bk
						ups := []string{}
						seen := map[string]bool{}
						for _, p := range tally.BucketPairs(bk) {
							u := upTok(p.UpperBoundValue())
							if dur {
								u = dupTok(p.UpperBoundDuration())
							}
							if !seen[u] {
								seen[u] = true
								ups = append(ups, u)
							}
						}
						tr.Emit(M{"e": "hnew", "id": id, "ups": ups})
					}
					s.mids[id] = true
					if dur {
						d := []time.Duration{0, time.Millisecond, time.Millisecond + 1, time.Second, time.Hour}[rng.Intn(5)]
						hg.RecordDuration(d)
						up := time.Duration(math.MaxInt64)
						for _, pr := range tally.BucketPairs(hspecs[id]) { // the bucket whose upper bound is the first >= the sample
							if pr.UpperBoundDuration() >= d {
								up = pr.UpperBoundDuration()
								break
							}
						}
						tr.Emit(M{"e": "hrec", "id": id, "up": dupTok(up)})
					} else {
						v := []float64{-5, -1, 0, 1, 1.5, 2, 9}[rng.Intn(7)]
						hg.RecordValue(v)
						up := math.MaxFloat64
						for _, pr := range tally.BucketPairs(hspecs[id]) {
							if pr.UpperBoundValue() >= v {
								up = pr.UpperBoundValue()
								break
							}
						}
						tr.Emit(M{"e": "hrec", "id": id, "up": upTok(up)})
					}
					desc += "h"
				case k == 8 && len(scopes) > 1:
					j := 1 + rng.Intn(len(scopes)-1)
					if scopes[j].s == tally.Scope(ts) {
						break // a derivation that led back to the root itself: closing it would close the root, not a sub-scope
					}
					if c, ok := scopes[j].s.(io.Closer); ok {
						c.Close()
					}
					ids := []string{}
					for id := range scopes[j].mids {
						ids = append(ids, id)
					}
					tr.Emit(M{"e": "closesub", "ids": ids})
					desc += "x"
				default:
					sn := ts.Snapshot()
					a := abstract(sn)
					a["e"] = "snap"
					tr.Emit(a)
					snaps = append(snaps, sn)
					evals++
					desc += "S"
					// every earlier snapshot must still read the same
					if j := rng.Intn(len(snaps)); len(snaps) > 1 && j < len(snaps)-1 && snaps[j] != nil {
						b := abstract(snaps[j])
						b["e"] = "resnap"
						b["i"] = j + 1
						tr.Emit(b)
						evals++
					}
					// write into the maps of the snapshot just taken, then snapshot again: the scope must be unaffected
					if rng.Intn(2) == 0 {
						for k := range sn.Counters() {
							delete(sn.Counters(), k)
						}
						for _, e := range sn.Gauges() {
							for k := range e.Tags() {
								e.Tags()[k] = "mutated"
							}
							e.Tags()["added"] = "x"
						}
						for _, e := range sn.Histograms() {
							for k := range e.Values() {
								e.Values()[k] = 99
							}
						}
						for _, e := range sn.Timers() {
							vs := e.Values()
							for i := range vs {
								vs[i] = 424242
							}
						}
						sn2 := ts.Snapshot()
						a2 := abstract(sn2)
						a2["e"] = "snap"
						a2["after_mutation"] = true
						tr.Emit(a2)
						// the snapshot the harness wrote into cannot be re-read later; the fresh one can
						snaps[len(snaps)-1] = nil
						snaps = append(snaps, sn2)
						tr.Emit(M{"e": "note", "text": "mutated snapshot replaced"})
						evals++
					}
				}
			}
			distinct[desc] = true
			if len(samples) < 4 {
				samples = append(samples, M{"prefix": prefix, "root_tags": rootTags, "history": desc})
			}
		}
		tr.Close()
		writeMeta(cm.out, M{"cases": nHist, "events": tr.N, "evals": evals, "distinct": len(distinct), "samples": samples})
	})
}

var c11Durs = []time.Duration{0, 1, -7, time.Second, math.MaxInt64, math.MinInt64}

func durTok(d time.Duration) int {
	for i, x := range c11Durs {
		if x == d {
			return i
		}
	}
	return -99
}

// c11Name: the empty metric name stays empty for every kind
func c11Name(m, suffix string) string {
	if m == "" {
		return ""
	}
	return m + suffix
}

// c11ID renders a metric identity for the trace; an empty full name is written as a token (ids are record fields in TLC)
func c11ID(name string, tags map[string]string) string {
	if name == "" {
		name = "<empty>"
	}
	return renderID(name, tags)
}

func upTok(f float64) string {
	switch {
	case f == math.MaxFloat64:
		return "MAX"
	case f == -math.MaxFloat64:
		return "MIN"
	}
	return fmt.Sprint(f)
}

func dupTok(d time.Duration) string {
	switch {
	case d == math.MaxInt64:
		return "MAX"
	case d == math.MinInt64:
		return "MIN"
	}
	return d.String()
}
