package main

import (
	"flag"
	"path/filepath"
	"runtime"
	"strings"
	"sync"
	"time"

	tally "github.com/uber-go/tally/v4"
)

// c08free: a root with an interval is created, recorded on and closed right away, without waiting for its reporting
// goroutine to get going (the controlled scheduler always lets that goroutine reach its first hook before anything
// else happens).  "After Close has returned ... the reporting goroutine has ended": a goroutine dump taken when
// Close returns must not show the report loop.  Events in the vocabulary of TallyObsTrace.
func init() {
	register("c08free", "create with an interval, record, Close at once: the loop goroutine has ended (C08)", func(args []string) {
		fs := flag.NewFlagSet("c08free", flag.ExitOnError)
		cm := commonFlags(fs)
		fs.Parse(args)
		rounds := 2000
		if cm.tier == "thorough" {
			rounds = 40000
		}
		tr := NewTrace(filepath.Join(cm.out, "trace.ndjson"))
		buf := make([]byte, 1<<20)
		alive := 0
		for round := 0; round < rounds; round++ {
			rep := &recReporter{}
			root, closer := tally.VerifNewRootScope(tally.ScopeOptions{Reporter: rep, OmitCardinalityMetrics: true}, time.Hour, 1)
			tr.Emit(M{"e": "scn", "mod": 0, "x": round + 1})
			root.Counter("c").Inc(1)
			tr.Emit(M{"e": "inc", "t": "main", "id": "c", "o": 1, "v": 1, "inert": false})
			tr.Emit(M{"e": "rootclosecall", "t": "main"})
			err := closer.Close()
			n := runtime.Stack(buf, true)
			ended := !strings.Contains(string(buf[:n]), "tally/v4.(*scope).reportLoop")
			if !ended {
				alive++
			}
			for _, c := range rep.take() {
				switch c.Kind {
				case "counter":
					tr.Emit(M{"e": "dlv", "k": "counter", "t": "main", "id": renderID(c.Name, c.Tags), "v": c.I, "own": true})
				case "flush":
					tr.Emit(M{"e": "flush", "t": "main", "own": true})
				}
			}
			tr.Emit(M{"e": "rootcloseret", "t": "main", "err": err != nil, "experr": false, "loopended": ended})
			tr.Emit(M{"e": "end"})
		}
		// a periodic pass is stuck inside the reporter's Flush (no registry lock is held there) for longer than any
		// reasonable patience when Close is called: Close still waits for it
		for k := 0; k < 2; k++ {
			sr := &slowFlushReporter{entered: make(chan struct{}), release: make(chan struct{})}
			root, closer := tally.VerifNewRootScope(tally.ScopeOptions{Reporter: sr, OmitCardinalityMetrics: true}, 2*time.Millisecond, 1)
			tr.Emit(M{"e": "scn", "mod": 0, "x": rounds + k + 1})
			root.Counter("c").Inc(1)
			<-sr.entered // the report loop is inside Flush
			tr.Emit(M{"e": "rootclosecall", "t": "main"})
			returned := make(chan error, 1)
			go func() { returned <- closer.Close() }()
			early := false
			select {
			case <-returned:
				early = true // Close came back although the periodic pass is still inside the reporter
			case <-time.After(1500 * time.Millisecond):
			}
			close(sr.release)
			if !early {
				<-returned
			}
			tr.Emit(M{"e": "rootcloseret", "t": "main", "err": false, "experr": false, "loopended": !early})
			tr.Emit(M{"e": "end"})
		}
		tr.Close()
		writeMeta(cm.out, M{"cases": rounds, "execs": rounds, "events": tr.N, "evals": rounds, "distinct": 1, "loop_alive_after_close": alive, "samples": []interface{}{M{"rounds": rounds}}})
	})
}

// slowFlushReporter: the first Flush of the report loop blocks until released
type slowFlushReporter struct {
	recReporter
	once    sync.Once
	entered chan struct{}
	release chan struct{}
}

func (r *slowFlushReporter) Flush() {
	first := false
	r.once.Do(func() { first = true })
	if first {
		close(r.entered)
		<-r.release
	}
}
