package main

import (
	"flag"
	"fmt"
	"math"
	"math/rand"
	"path/filepath"
	"sync"
	"time"

	tally "github.com/uber-go/tally/v4"
	"github.com/uber-go/tally/v4/multi"
)

// children of the multi reporter: every call is logged with a global sequence number
type multiSeq struct {
	mu  sync.Mutex
	seq int
}

type childLog struct {
	g     *multiSeq
	idx   int
	caps  [2]bool
	calls []string
	seqs  []int
}

func (c *childLog) add(d string) {
	c.g.mu.Lock()
	c.g.seq++
	c.calls = append(c.calls, d)
	c.seqs = append(c.seqs, c.g.seq)
	c.g.mu.Unlock()
}

type childCaps [2]bool

func (c childCaps) Reporting() bool { return c[0] }
func (c childCaps) Tagging() bool   { return c[1] }

func fbits(f float64) string { return fmt.Sprintf("%016x", math.Float64bits(f)) }

// plain child
type plainChild struct{ *childLog }

func (c plainChild) ReportCounter(name string, tags map[string]string, v int64) {
	c.add(fmt.Sprint("counter|", renderID(name, tags), "|", v))
}
func (c plainChild) ReportGauge(name string, tags map[string]string, v float64) {
	c.add(fmt.Sprint("gauge|", renderID(name, tags), "|", fbits(v)))
}
func (c plainChild) ReportTimer(name string, tags map[string]string, d time.Duration) {
	c.add(fmt.Sprint("timer|", renderID(name, tags), "|", int64(d)))
}
func (c plainChild) ReportHistogramValueSamples(name string, tags map[string]string, b tally.Buckets, lo, hi float64, n int64) {
	c.add(fmt.Sprint("hv|", renderID(name, tags), "|", fmt.Sprint(b), "|", fbits(lo), "|", fbits(hi), "|", n))
}
func (c plainChild) ReportHistogramDurationSamples(name string, tags map[string]string, b tally.Buckets, lo, hi time.Duration, n int64) {
	c.add(fmt.Sprint("hd|", renderID(name, tags), "|", fmt.Sprint(b), "|", int64(lo), "|", int64(hi), "|", n))
}
func (c plainChild) Capabilities() tally.Capabilities { return childCaps(c.caps) }
func (c plainChild) Flush()                           { c.add("flush") }

// cached child
type cachedChild struct{ *childLog }

type cachedChildHandle struct {
	c    *childLog
	desc string
}

func (h cachedChildHandle) ReportCount(v int64) { h.c.add(fmt.Sprint("h-count|", h.desc, "|", v)) }
func (h cachedChildHandle) ReportGauge(v float64) {
	h.c.add(fmt.Sprint("h-gauge|", h.desc, "|", fbits(v)))
}
func (h cachedChildHandle) ReportTimer(d time.Duration) {
	h.c.add(fmt.Sprint("h-timer|", h.desc, "|", int64(d)))
}
func (h cachedChildHandle) ReportSamples(v int64) { h.c.add(fmt.Sprint("h-samples|", h.desc, "|", v)) }
func (h cachedChildHandle) ValueBucket(lo, hi float64) tally.CachedHistogramBucket {
	d := fmt.Sprint("vbucket|", h.desc, "|", fbits(lo), "|", fbits(hi))
	h.c.add(d)
	return cachedChildHandle{h.c, d}
}
func (h cachedChildHandle) DurationBucket(lo, hi time.Duration) tally.CachedHistogramBucket {
	d := fmt.Sprint("dbucket|", h.desc, "|", int64(lo), "|", int64(hi))
	h.c.add(d)
	return cachedChildHandle{h.c, d}
}
func (c cachedChild) alloc(kind, name string, tags map[string]string, extra string) cachedChildHandle {
	d := fmt.Sprint("alloc-", kind, "|", renderID(name, tags), extra)
	c.add(d)
	return cachedChildHandle{c.childLog, d}
}
func (c cachedChild) AllocateCounter(name string, tags map[string]string) tally.CachedCount {
	return c.alloc("counter", name, tags, "")
}
func (c cachedChild) AllocateGauge(name string, tags map[string]string) tally.CachedGauge {
	return c.alloc("gauge", name, tags, "")
}
func (c cachedChild) AllocateTimer(name string, tags map[string]string) tally.CachedTimer {
	return c.alloc("timer", name, tags, "")
}
func (c cachedChild) AllocateHistogram(name string, tags map[string]string, b tally.Buckets) tally.CachedHistogram {
	return c.alloc("histogram", name, tags, "|"+fmt.Sprint(b))
}
func (c cachedChild) Capabilities() tally.Capabilities { return childCaps(c.caps) }
func (c cachedChild) Flush()                           { c.add("flush") }

func init() {
	register("c19", "call histories on real multi reporters over recording children (C19)", func(args []string) {
		fs := flag.NewFlagSet("c19", flag.ExitOnError)
		cm := commonFlags(fs)
		fs.Parse(args)
		rng := rand.New(rand.NewSource(cm.seed))
		thorough := cm.tier == "thorough"
		tr := NewTrace(filepath.Join(cm.out, "trace.ndjson"))
		evals, cases := 0, 0
		distinct := map[string]bool{}
		var samples []interface{}
		maxN := 3
		hlen := 12
		if thorough {
			maxN, hlen = 5, 30
		}
		names := []string{"a", "b.c", ""}
		tagsets := []map[string]string{nil, {}, {"k": "v"}, {"k": "v", "": "x"}}
		vals := []int64{0, 1, -1, math.MaxInt64, math.MinInt64}
		fvals := []float64{0, 1.5, math.Inf(-1), math.NaN(), math.Copysign(0, -1), 5e-324}
		for n := 0; n <= maxN; n++ {
			// all capability combinations of the children
			for capBits := 0; capBits < 1<<(2*uint(n)); capBits++ {
				if !thorough && n == 3 && capBits%5 != int(cm.seed%5) {
					continue
				}
				if thorough && n >= 4 && capBits%(1<<(2*uint(n)-6)) != int(cm.seed)%(1<<(2*uint(n)-6)) {
					continue
				}
				for _, flavour := range []string{"plain", "cached"} {
					g := &multiSeq{}
					children := make([]*childLog, n)
					capsJ := [][]bool{}
					for i := range children {
						c := [2]bool{capBits>>(2*uint(i))&1 == 1, capBits>>(2*uint(i)+1)&1 == 1}
						children[i] = &childLog{g: g, idx: i, caps: c}
						capsJ = append(capsJ, []bool{c[0], c[1]})
					}
					var plain tally.StatsReporter
					var cached tally.CachedStatsReporter
					var gotCaps tally.Capabilities
					if flavour == "plain" {
						rs := make([]tally.StatsReporter, n)
						for i := range rs {
							rs[i] = plainChild{children[i]}
						}
						if nest := (capBits + n) % 2; n >= 2 && nest == 1 {
							// a multi reporter among the children (not in last position when there is room): the leaves
							// are still called once each, in the order given
							k := 0
							if n >= 4 {
								k = 1
							}
							grouped := append([]tally.StatsReporter{}, rs[:k]...)
							grouped = append(grouped, multi.NewMultiReporter(append([]tally.StatsReporter{}, rs[k:k+2]...)...))
							grouped = append(grouped, rs[k+2:]...)
							rs = grouped
						}
						plain = multi.NewMultiReporter(rs...)
						gotCaps = plain.Capabilities()
					} else {
						rs := make([]tally.CachedStatsReporter, n)
						for i := range rs {
							rs[i] = cachedChild{children[i]}
						}
						if nest := (capBits + n) % 2; n >= 2 && nest == 1 {
							k := 0
							if n >= 4 {
								k = 1
							}
							grouped := append([]tally.CachedStatsReporter{}, rs[:k]...)
							grouped = append(grouped, multi.NewMultiCachedReporter(append([]tally.CachedStatsReporter{}, rs[k:k+2]...)...))
							grouped = append(grouped, rs[k+2:]...)
							rs = grouped
						}
						cached = multi.NewMultiCachedReporter(rs...)
						gotCaps = cached.Capabilities()
					}
					tr.Emit(M{"e": "new", "flavour": flavour, "n": n, "caps": capsJ, "got_caps": []bool{gotCaps.Reporting(), gotCaps.Tagging()}})
					// a call on the parent, then what each child received
					after := func(d string) {
						got := make([][]string, n)
						type ent struct{ seq, child int }
						var ents []ent
						for i, c := range children {
							got[i] = append([]string{}, c.calls...)
							for _, s := range c.seqs {
								ents = append(ents, ent{s, i + 1})
							}
							c.calls, c.seqs = nil, nil
						}
						for i := 0; i < len(ents); i++ {
							for j := i + 1; j < len(ents); j++ {
								if ents[j].seq < ents[i].seq {
									ents[i], ents[j] = ents[j], ents[i]
								}
							}
						}
						order := []int{}
						for _, e := range ents {
							order = append(order, e.child)
						}
						tr.Emit(M{"e": "call", "d": d, "got": got, "order": order})
						evals++
					}
					var hCount []tally.CachedCount
					var hGauge []tally.CachedGauge
					var hTimer []tally.CachedTimer
					var hHist []tally.CachedHistogram
					var hBucket []tally.CachedHistogramBucket
					var dCount, dGauge, dTimer, dHist, dBucket []string
					desc := ""
					for i := 0; i < hlen; i++ {
						name, tags := names[rng.Intn(len(names))], tagsets[rng.Intn(len(tagsets))]
						id := renderID(name, tags)
						vb := tally.ValueBuckets{1, 2}
						db := tally.DurationBuckets{time.Second}
						if flavour == "plain" {
							switch k := rng.Intn(6); k {
							case 0:
								v := vals[rng.Intn(len(vals))]
								plain.ReportCounter(name, tags, v)
								after(fmt.Sprint("counter|", id, "|", v))
							case 1:
								v := fvals[rng.Intn(len(fvals))]
								plain.ReportGauge(name, tags, v)
								after(fmt.Sprint("gauge|", id, "|", fbits(v)))
							case 2:
								v := time.Duration(vals[rng.Intn(len(vals))])
								plain.ReportTimer(name, tags, v)
								after(fmt.Sprint("timer|", id, "|", int64(v)))
							case 3:
								lo, hi, c := fvals[rng.Intn(len(fvals))], fvals[rng.Intn(len(fvals))], vals[rng.Intn(len(vals))]
								plain.ReportHistogramValueSamples(name, tags, vb, lo, hi, c)
								after(fmt.Sprint("hv|", id, "|", fmt.Sprint(vb), "|", fbits(lo), "|", fbits(hi), "|", c))
							case 4:
								lo, hi, c := time.Duration(vals[rng.Intn(len(vals))]), time.Duration(vals[rng.Intn(len(vals))]), vals[rng.Intn(len(vals))]
								plain.ReportHistogramDurationSamples(name, tags, db, lo, hi, c)
								after(fmt.Sprint("hd|", id, "|", fmt.Sprint(db), "|", int64(lo), "|", int64(hi), "|", c))
							default:
								plain.Flush()
								after("flush")
							}
							desc += "p"
							continue
						}
						switch k := rng.Intn(11); {
						case k == 0:
							hCount = append(hCount, cached.AllocateCounter(name, tags))
							dCount = append(dCount, fmt.Sprint("alloc-counter|", id))
							after(dCount[len(dCount)-1])
						case k == 1:
							hGauge = append(hGauge, cached.AllocateGauge(name, tags))
							dGauge = append(dGauge, fmt.Sprint("alloc-gauge|", id))
							after(dGauge[len(dGauge)-1])
						case k == 2:
							hTimer = append(hTimer, cached.AllocateTimer(name, tags))
							dTimer = append(dTimer, fmt.Sprint("alloc-timer|", id))
							after(dTimer[len(dTimer)-1])
						case k == 3:
							var b tally.Buckets = vb
							if rng.Intn(2) == 0 {
								b = db
							}
							hHist = append(hHist, cached.AllocateHistogram(name, tags, b))
							dHist = append(dHist, fmt.Sprint("alloc-histogram|", id, "|", fmt.Sprint(b)))
							after(dHist[len(dHist)-1])
						case k == 4 && len(hHist) > 0:
							j := rng.Intn(len(hHist))
							if rng.Intn(2) == 0 {
								lo, hi := fvals[rng.Intn(len(fvals))], fvals[rng.Intn(len(fvals))]
								hBucket = append(hBucket, hHist[j].ValueBucket(lo, hi))
								dBucket = append(dBucket, fmt.Sprint("vbucket|", dHist[j], "|", fbits(lo), "|", fbits(hi)))
							} else {
								lo, hi := time.Duration(vals[rng.Intn(len(vals))]), time.Duration(vals[rng.Intn(len(vals))])
								hBucket = append(hBucket, hHist[j].DurationBucket(lo, hi))
								dBucket = append(dBucket, fmt.Sprint("dbucket|", dHist[j], "|", int64(lo), "|", int64(hi)))
							}
							after(dBucket[len(dBucket)-1])
						case k == 5 && len(hCount) > 0:
							j, v := rng.Intn(len(hCount)), vals[rng.Intn(len(vals))]
							hCount[j].ReportCount(v)
							after(fmt.Sprint("h-count|", dCount[j], "|", v))
						case k == 6 && len(hGauge) > 0:
							j, v := rng.Intn(len(hGauge)), fvals[rng.Intn(len(fvals))]
							hGauge[j].ReportGauge(v)
							after(fmt.Sprint("h-gauge|", dGauge[j], "|", fbits(v)))
						case k == 7 && len(hTimer) > 0:
							j, v := rng.Intn(len(hTimer)), time.Duration(vals[rng.Intn(len(vals))])
							hTimer[j].ReportTimer(v)
							after(fmt.Sprint("h-timer|", dTimer[j], "|", int64(v)))
						case (k == 8 || k == 9) && len(hBucket) > 0:
							j, v := rng.Intn(len(hBucket)), vals[rng.Intn(len(vals))]
							hBucket[j].ReportSamples(v)
							after(fmt.Sprint("h-samples|", dBucket[j], "|", v))
						default:
							cached.Flush()
							after("flush")
						}
						desc += "c"
					}
					if flavour == "cached" {
						// several buckets of one histogram handle, each reported through after all were resolved
						for _, dur := range []bool{false, true} {
							var b tally.Buckets = tally.ValueBuckets{1, 2}
							if dur {
								b = tally.DurationBuckets{time.Second, time.Minute}
							}
							hh := cached.AllocateHistogram("epi", map[string]string{"d": fmt.Sprint(dur)}, b)
							dh := fmt.Sprint("alloc-histogram|", renderID("epi", map[string]string{"d": fmt.Sprint(dur)}), "|", fmt.Sprint(b))
							after(dh)
							var bs []tally.CachedHistogramBucket
							var ds []string
							for k := 0; k < 3; k++ {
								if dur {
									lo, hi := time.Duration(k)*time.Second, time.Duration(k+1)*time.Second
									bs = append(bs, hh.DurationBucket(lo, hi))
									ds = append(ds, fmt.Sprint("dbucket|", dh, "|", int64(lo), "|", int64(hi)))
								} else {
									lo, hi := float64(k), float64(k+1)
									bs = append(bs, hh.ValueBucket(lo, hi))
									ds = append(ds, fmt.Sprint("vbucket|", dh, "|", fbits(lo), "|", fbits(hi)))
								}
								after(ds[k])
							}
							for _, k := range []int{0, 1, 2, 1, 0} {
								bs[k].ReportSamples(int64(k + 1))
								after(fmt.Sprint("h-samples|", ds[k], "|", k+1))
							}
						}
					}
					cases++
					distinct[fmt.Sprint(flavour, n, capBits)] = true
					if len(samples) < 4 && n > 1 {
						samples = append(samples, M{"flavour": flavour, "children": n, "caps": capsJ, "calls": hlen})
					}
				}
			}
		}
		// calls made from several goroutines at once: still exactly one call per child for every call on the parent
		for flavour := 0; flavour < 2; flavour++ {
			const G, N = 8, 150
			g := &multiSeq{}
			logs := []*childLog{{g: g, idx: 0, caps: [2]bool{true, true}}, {g: g, idx: 1, caps: [2]bool{true, false}}, {g: g, idx: 2, caps: [2]bool{true, true}}}
			var flush func()
			var report func(v int64)
			if flavour == 0 {
				m := multi.NewMultiReporter(plainChild{logs[0]}, plainChild{logs[1]}, plainChild{logs[2]})
				flush = m.Flush
				report = func(v int64) { m.ReportCounter("c", nil, v) }
			} else {
				m := multi.NewMultiCachedReporter(cachedChild{logs[0]}, cachedChild{logs[1]}, cachedChild{logs[2]})
				h := m.AllocateCounter("c", nil)
				for _, l := range logs {
					l.calls, l.seqs = nil, nil
				}
				flush = m.Flush
				report = h.ReportCount
			}
			var wg sync.WaitGroup
			for i := 0; i < G; i++ {
				wg.Add(1)
				go func() {
					defer wg.Done()
					for k := 0; k < N; k++ {
						report(1)
						flush()
					}
				}()
			}
			wg.Wait()
			got := [][2]int{}
			for _, l := range logs {
				nf, nr := 0, 0
				for _, c := range l.calls {
					if c == "flush" {
						nf++
					} else {
						nr++
					}
				}
				got = append(got, [2]int{nr, nf})
			}
			tr.Emit(M{"e": "conc", "flavour": flavour, "want": G * N, "got": got})
			evals++
		}
		tr.Close()
		writeMeta(cm.out, M{"cases": cases, "events": tr.N, "evals": evals, "distinct": len(distinct), "samples": samples})
	})
}
