package main

import (
	"flag"
	"fmt"
	"math"
	"math/rand"
	"path/filepath"
	"sync"
	"time"

	tally "github.com/uber-go/tally/v4"
)

// ---------------------------------------------------------------------------
// Concretisation tables: bound tokens 1..K <-> concrete float64 / durations.

type valueTable struct {
	name  string
	b     []float64 // b[0] = -MaxFloat64, b[1..K], b[K+1] = MaxFloat64
	above bool      // "between" samples sit one ulp above the lower bound (else one ulp below the upper)
}

func (t *valueTable) K() int { return len(t.b) - 2 }

// sample maps a sample token of the Histogram module to a float64.
func (t *valueTable) sample(tok int) float64 {
	k := t.K()
	switch {
	case tok == -1:
		return math.Inf(-1)
	case tok == 2*(k+1)+1:
		return math.Inf(1)
	case tok == 2*(k+1)+3:
		return math.NaN()
	case tok%2 == 0:
		return t.b[tok/2]
	default:
		i := tok / 2
		if t.above {
			return math.Nextafter(t.b[i], math.Inf(1))
		}
		return math.Nextafter(t.b[i+1], math.Inf(-1))
	}
}

func (t *valueTable) boundTok(v float64) int {
	for i, x := range t.b {
		if math.Float64bits(x) == math.Float64bits(v) {
			return i
		}
	}
	return -99
}

type durTable struct {
	name  string
	b     []time.Duration // b[0] = MinInt64, b[K+1] = MaxInt64
	above bool
}

func (t *durTable) K() int { return len(t.b) - 2 }

func (t *durTable) sample(tok int) time.Duration {
	if tok%2 == 0 {
		return t.b[tok/2]
	}
	i := tok / 2
	if t.above {
		return t.b[i] + 1
	}
	return t.b[i+1] - 1
}

func (t *durTable) boundTok(v time.Duration) int {
	for i, x := range t.b {
		if x == v {
			return i
		}
	}
	return -99
}

func valueTables(k int, rng *rand.Rand, thorough bool) []*valueTable {
	mk := func(name string, above bool, inner []float64) *valueTable {
		b := append([]float64{-math.MaxFloat64}, inner[:k]...)
		b = append(b, math.MaxFloat64)
		t := &valueTable{name: name, b: b, above: above}
		for tok := 1; tok < 2*(k+1); tok += 2 { // every "between" sample must be strictly between its neighbours
			if v := t.sample(tok); !(t.b[tok/2] < v && v < t.b[tok/2+1]) {
				fatal("value table %s: no room between bounds %v and %v", name, t.b[tok/2], t.b[tok/2+1])
			}
		}
		return t
	}
	var out []*valueTable
	if k > 6 {
		// long specifications: k integer bounds and k bounds spread over the float range
		ints, spread := make([]float64, k), make([]float64, k)
		for i := range ints {
			ints[i] = float64(3*i + 1)
			spread[i] = (float64(i) - float64(k)/2 + 0.25) * 1e12
		}
		return []*valueTable{mk("longint/above", true, ints), mk("longspread/below", false, spread)}
	}
	base := map[string][]float64{
		"int":  {1, 2, 3, 4, 5, 6},
		"neg":  {-3.5, -1, 0, 2.25, 7, 1e6},
		"tiny": {-1e-300, -5e-324, 5e-324, 1e-300, 1, 1e300},
		"huge": {-1.7e308, -1e308, -1, 1, 1e308, 1.7e308},
	}
	for _, n := range []string{"int", "neg", "tiny", "huge"} {
		out = append(out, mk(n+"/above", true, base[n]), mk(n+"/below", false, base[n]))
	}
	nr := 1
	if thorough {
		nr = 6
	}
	for r := 0; r < nr; r++ {
		inner := make([]float64, 6)
		x := (rng.Float64() - 0.5) * math.Pow(10, float64(rng.Intn(20)-10))
		for i := range inner {
			inner[i] = x
			x += math.Abs(x)*rng.Float64() + math.Pow(10, float64(rng.Intn(12)-6))
		}
		out = append(out, mk(fmt.Sprintf("rand%d/above", r), true, inner), mk(fmt.Sprintf("rand%d/below", r), false, inner))
	}
	return out
}

func durTables(k int, rng *rand.Rand, thorough bool) []*durTable {
	mk := func(name string, above bool, inner []time.Duration) *durTable {
		b := append([]time.Duration{time.Duration(math.MinInt64)}, inner[:k]...)
		b = append(b, time.Duration(math.MaxInt64))
		t := &durTable{name: name, b: b, above: above}
		for tok := 1; tok < 2*(k+1); tok += 2 {
			if v := t.sample(tok); !(t.b[tok/2] < v && v < t.b[tok/2+1]) {
				fatal("duration table %s: no room between bounds %v and %v", name, t.b[tok/2], t.b[tok/2+1])
			}
		}
		return t
	}
	var out []*durTable
	if k > 6 {
		ms, spread := make([]time.Duration, k), make([]time.Duration, k)
		for i := range ms {
			ms[i] = time.Duration(3*i+1) * time.Millisecond
			spread[i] = time.Duration(i-k/2)*time.Hour + 7
		}
		return []*durTable{mk("longms/above", true, ms), mk("longspread/below", false, spread)}
	}
	base := map[string][]time.Duration{
		"ms": {time.Millisecond, 2 * time.Millisecond, 5 * time.Millisecond, time.Second, time.Minute, time.Hour},
		// bounds of a minute and more (Go duration syntax switches to 1m0s / 1h0m0s)
		"min":  {30 * time.Second, time.Minute, 90 * time.Second, time.Hour, 6 * time.Hour, 24 * time.Hour},
		"neg":  {-5 * time.Second, -2, 0, 2, 4, time.Second},
		"huge": {math.MinInt64 + 2, -4, 4, math.MaxInt64 - 6, math.MaxInt64 - 4, math.MaxInt64 - 2},
		// bounds whose value in seconds is not exactly representable / where d.Seconds() and float64(d)/1e9 differ by an ulp,
		// and one beyond 2^53 ns where a float64 of nanoseconds loses the last unit
		"fsec": {1128 * time.Millisecond, 1140 * time.Millisecond, 1265 * time.Millisecond, 1386 * time.Millisecond, 365 * 24 * time.Hour, 365*24*time.Hour + 2},
	}
	for _, n := range []string{"ms", "neg", "huge", "fsec", "min"} {
		out = append(out, mk(n+"/above", true, base[n]), mk(n+"/below", false, base[n]))
	}
	nr := 1
	if thorough {
		nr = 4
	}
	for r := 0; r < nr; r++ {
		inner := make([]time.Duration, 6)
		x := time.Duration(rng.Int63n(1<<40) - 1<<39)
		for i := range inner {
			inner[i] = x
			x += time.Duration(2 + rng.Int63n(1<<uint(10+rng.Intn(40))))
		}
		out = append(out, mk(fmt.Sprintf("rand%d/above", r), true, inner), mk(fmt.Sprintf("rand%d/below", r), false, inner))
	}
	return out
}

// ---------------------------------------------------------------------------
// Recording reporters (shared by several properties).

type histTuple struct {
	Name   string
	Tags   map[string]string
	Dur    bool
	LoV    float64
	HiV    float64
	LoD    time.Duration
	HiD    time.Duration
	Count  int64
	Bucket tally.Buckets
}

type recCall struct {
	Kind  string // counter gauge timer hv hd flush close
	Name  string
	Tags  map[string]string
	I     int64
	F     float64
	D     time.Duration
	Hist  *histTuple
	Alloc bool // cached reporter: this is an Allocate* call
}

// recReporter is a plain StatsReporter recording every call.
type recReporter struct {
	mu     sync.Mutex
	calls  []recCall
	onCall func(c *recCall) // optional, called before recording (outside mu)
}

func copyTags(m map[string]string) map[string]string {
	if m == nil {
		return nil
	}
	c := make(map[string]string, len(m))
	for k, v := range m {
		c[k] = v
	}
	return c
}

func (r *recReporter) add(c recCall) {
	if r.onCall != nil {
		r.onCall(&c)
	}
	r.mu.Lock()
	r.calls = append(r.calls, c)
	r.mu.Unlock()
}

func (r *recReporter) take() []recCall {
	r.mu.Lock()
	c := r.calls
	r.calls = nil
	r.mu.Unlock()
	return c
}

func (r *recReporter) ReportCounter(name string, tags map[string]string, value int64) {
	r.add(recCall{Kind: "counter", Name: name, Tags: copyTags(tags), I: value})
}
func (r *recReporter) ReportGauge(name string, tags map[string]string, value float64) {
	r.add(recCall{Kind: "gauge", Name: name, Tags: copyTags(tags), F: value})
}
func (r *recReporter) ReportTimer(name string, tags map[string]string, interval time.Duration) {
	r.add(recCall{Kind: "timer", Name: name, Tags: copyTags(tags), D: interval})
}
func (r *recReporter) ReportHistogramValueSamples(name string, tags map[string]string, buckets tally.Buckets, lo, hi float64, samples int64) {
	r.add(recCall{Kind: "hv", Name: name, Tags: copyTags(tags), Hist: &histTuple{Name: name, LoV: lo, HiV: hi, Count: samples, Bucket: buckets}})
}
func (r *recReporter) ReportHistogramDurationSamples(name string, tags map[string]string, buckets tally.Buckets, lo, hi time.Duration, samples int64) {
	r.add(recCall{Kind: "hd", Name: name, Tags: copyTags(tags), Hist: &histTuple{Name: name, Dur: true, LoD: lo, HiD: hi, Count: samples, Bucket: buckets}})
}
func (r *recReporter) Capabilities() tally.Capabilities { return capsRT{} }
func (r *recReporter) Flush()                           { r.add(recCall{Kind: "flush"}) }

type capsRT struct{}

func (capsRT) Reporting() bool { return true }
func (capsRT) Tagging() bool   { return true }

// recCached is a CachedStatsReporter recording allocations and reports.
type recCached struct {
	recReporter
}

type cachedHandle struct {
	r    *recCached
	kind string
	name string
	tags map[string]string
	hist *histTuple
}

func (h *cachedHandle) ReportCount(v int64) {
	h.r.add(recCall{Kind: "counter", Name: h.name, Tags: h.tags, I: v})
}
func (h *cachedHandle) ReportGauge(v float64) {
	h.r.add(recCall{Kind: "gauge", Name: h.name, Tags: h.tags, F: v})
}
func (h *cachedHandle) ReportTimer(d time.Duration) {
	h.r.add(recCall{Kind: "timer", Name: h.name, Tags: h.tags, D: d})
}
func (h *cachedHandle) ReportSamples(v int64) {
	t := *h.hist
	t.Count = v
	k := "hv"
	if t.Dur {
		k = "hd"
	}
	h.r.add(recCall{Kind: k, Name: h.name, Tags: h.tags, Hist: &t})
}

type cachedHist struct {
	r       *recCached
	name    string
	tags    map[string]string
	buckets tally.Buckets
}

func (h *cachedHist) ValueBucket(lo, hi float64) tally.CachedHistogramBucket {
	t := &histTuple{Name: h.name, LoV: lo, HiV: hi, Bucket: h.buckets}
	h.r.add(recCall{Kind: "hv", Name: h.name, Tags: h.tags, Hist: t, Alloc: true})
	return &cachedHandle{r: h.r, kind: "hv", name: h.name, tags: h.tags, hist: t}
}
func (h *cachedHist) DurationBucket(lo, hi time.Duration) tally.CachedHistogramBucket {
	t := &histTuple{Name: h.name, Dur: true, LoD: lo, HiD: hi, Bucket: h.buckets}
	h.r.add(recCall{Kind: "hd", Name: h.name, Tags: h.tags, Hist: t, Alloc: true})
	return &cachedHandle{r: h.r, kind: "hd", name: h.name, tags: h.tags, hist: t}
}

func (r *recCached) AllocateCounter(name string, tags map[string]string) tally.CachedCount {
	t := copyTags(tags)
	r.add(recCall{Kind: "counter", Name: name, Tags: t, Alloc: true})
	return &cachedHandle{r: r, kind: "counter", name: name, tags: t}
}
func (r *recCached) AllocateGauge(name string, tags map[string]string) tally.CachedGauge {
	t := copyTags(tags)
	r.add(recCall{Kind: "gauge", Name: name, Tags: t, Alloc: true})
	return &cachedHandle{r: r, kind: "gauge", name: name, tags: t}
}
func (r *recCached) AllocateTimer(name string, tags map[string]string) tally.CachedTimer {
	t := copyTags(tags)
	r.add(recCall{Kind: "timer", Name: name, Tags: t, Alloc: true})
	return &cachedHandle{r: r, kind: "timer", name: name, tags: t}
}
func (r *recCached) AllocateHistogram(name string, tags map[string]string, buckets tally.Buckets) tally.CachedHistogram {
	t := copyTags(tags)
	r.add(recCall{Kind: "histogram", Name: name, Tags: t, Alloc: true, Hist: &histTuple{Bucket: buckets}})
	return &cachedHist{r: r, name: name, tags: t, buckets: buckets}
}

// ---------------------------------------------------------------------------

type histCase struct {
	kind string // value|duration
	path string // plain|cached|snap
	spec []int
	vt   *valueTable
	dt   *durTable
}

func (c *histCase) buckets() tally.Buckets {
	if c.kind == "value" {
		b := make(tally.ValueBuckets, len(c.spec))
		for i, t := range c.spec {
			b[i] = c.vt.b[t]
		}
		return b
	}
	b := make(tally.DurationBuckets, len(c.spec))
	for i, t := range c.spec {
		b[i] = c.dt.b[t]
	}
	return b
}

// histRun drives one histogram through a sample script; every sample is
// followed by a report when perSample, else one report at the end.
type histRun struct {
	c     *histCase
	scope tally.Scope
	ts    tally.TestScope
	plain *recReporter
	cach  *recCached
	h     tally.Histogram
	prev  map[[2]int]int64 // snapshot path: previous cumulative counts per (hi,hi)
}

func (c *histCase) tok2(lo, hi int) []int { return []int{lo, hi} }

func newHistRun(c *histCase, tr *Trace) *histRun {
	r := &histRun{c: c}
	opts := tally.ScopeOptions{OmitCardinalityMetrics: true}
	switch c.path {
	case "plain":
		r.plain = &recReporter{}
		opts.Reporter = r.plain
		r.scope, _ = tally.VerifNewRootScope(opts, 0, 1)
	case "cached":
		r.cach = &recCached{}
		opts.CachedReporter = r.cach
		r.scope, _ = tally.VerifNewRootScope(opts, 0, 1)
	case "snap":
		r.ts = tally.VerifNewTestScope("", nil, 1)
		r.scope = r.ts
		r.prev = map[[2]int]int64{}
	}
	bk := c.buckets()
	// public BucketPairs
	pairs := [][]int{}
	for _, p := range tally.BucketPairs(bk) {
		if c.kind == "value" {
			pairs = append(pairs, []int{c.vt.boundTok(p.LowerBoundValue()), c.vt.boundTok(p.UpperBoundValue())})
		} else {
			pairs = append(pairs, []int{c.dt.boundTok(p.LowerBoundDuration()), c.dt.boundTok(p.UpperBoundDuration())})
		}
	}
	var bkArg tally.Buckets = bk
	// a decoy histogram under the same root whose specification has the same kind, the same length and the same
	// (commutative) bucket-cache identity but different bounds: the histogram under test must still get its own
	if decoy := collidingDecoy(bk); decoy != nil {
		r.scope.Histogram("decoy", decoy)
		if r.cach != nil {
			r.cach.take()
		}
	}
	r.h = r.scope.Histogram("h", bkArg)
	alloc := [][]int{}
	if r.cach != nil {
		for _, cl := range r.cach.take() {
			if cl.Alloc && cl.Hist != nil && (cl.Kind == "hv" || cl.Kind == "hd") {
				alloc = append(alloc, r.tupleToks(cl.Hist)[:2])
			}
		}
	}
	tab := ""
	if c.kind == "value" {
		tab = c.vt.name
	} else {
		tab = c.dt.name
	}
	tr.Emit(M{"e": "new", "kind": c.kind, "spec": c.spec, "path": c.path, "table": tab, "pairs": pairs, "alloc": alloc})
	return r
}

func (r *histRun) tupleToks(t *histTuple) []int {
	if t.Dur {
		if r.c.kind != "duration" {
			return []int{-98, -98, int(t.Count)}
		}
		return []int{r.c.dt.boundTok(t.LoD), r.c.dt.boundTok(t.HiD), int(t.Count)}
	}
	if r.c.kind != "value" {
		return []int{-98, -98, int(t.Count)}
	}
	return []int{r.c.vt.boundTok(t.LoV), r.c.vt.boundTok(t.HiV), int(t.Count)}
}

// rec records one sample of the given kind; returns whether it panicked.
func (r *histRun) rec(k string, tok int, tr *Trace) {
	panicked := false
	func() {
		defer func() {
			if e := recover(); e != nil {
				panicked = true
			}
		}()
		if k == "value" {
			var v float64
			if r.c.kind == "value" {
				v = r.c.vt.sample(tok)
			} else {
				v = float64(tok) // wrong-kind record: any value
			}
			r.h.RecordValue(v)
		} else {
			var d time.Duration
			if r.c.kind == "duration" {
				d = r.c.dt.sample(tok)
			} else {
				d = time.Duration(tok)
				if tok%2 != 0 {
					// the other way a duration reaches a histogram: a stopwatch started from it
					// ("a value histogram ignores durations" holds for that path too)
					r.h.Start().Stop()
					return
				}
			}
			r.h.RecordDuration(d)
		}
	}()
	tr.Emit(M{"e": "rec", "k": k, "v": tok, "panic": panicked})
}

func (r *histRun) rep(tr *Trace) {
	out := [][]int{}
	switch r.c.path {
	case "plain":
		tally.VerifReportOnce(r.scope)
		for _, cl := range r.plain.take() {
			if cl.Hist != nil && cl.Name == "h" {
				out = append(out, r.tupleToks(cl.Hist))
			}
		}
	case "cached":
		tally.VerifReportOnce(r.scope)
		for _, cl := range r.cach.take() {
			if cl.Hist != nil && !cl.Alloc {
				out = append(out, r.tupleToks(cl.Hist))
			}
		}
	case "snap":
		// the snapshot is cumulative and keyed by upper bound: deliver the
		// increase per upper bound as (lower = the model's lower of the first
		// bucket with that upper is unknown here) -> the spec for this path
		// compares per upper bound only, see TRepSnap.
		snap := r.ts.Snapshot()
		for _, h := range snap.Histograms() {
			if h.Name() != "h" {
				continue // the decoy
			}
			if r.c.kind == "value" {
				for up, n := range h.Values() {
					u := r.c.vt.boundTok(up)
					key := [2]int{u, u}
					if d := n - r.prev[key]; d != 0 {
						out = append(out, []int{u, u, int(d)})
					}
					r.prev[key] = n
				}
				if h.Durations() != nil {
					out = append(out, []int{-97, -97, 1})
				}
			} else {
				for up, n := range h.Durations() {
					u := r.c.dt.boundTok(up)
					key := [2]int{u, u}
					if d := n - r.prev[key]; d != 0 {
						out = append(out, []int{u, u, int(d)})
					}
					r.prev[key] = n
				}
				if h.Values() != nil {
					out = append(out, []int{-97, -97, 1})
				}
			}
		}
	}
	tr.Emit(M{"e": "rep", "path": r.c.path, "out": out})
}

func enumSpecs(k, maxLen int) [][]int {
	out := [][]int{{}}
	var rec func(prefix []int)
	rec = func(prefix []int) {
		if len(prefix) == maxLen {
			return
		}
		for t := 1; t <= k; t++ {
			s := append(append([]int{}, prefix...), t)
			out = append(out, s)
			rec(s)
		}
	}
	rec(nil)
	return out
}

func init() {
	register("c03", "histogram placement / tiling / conservation cases (C03)", func(args []string) {
		fs := flag.NewFlagSet("c03", flag.ExitOnError)
		cm := commonFlags(fs)
		k := fs.Int("K", 3, "bound tokens")
		maxLen := fs.Int("L", 3, "max spec length")
		long := fs.Bool("long", false, "long specifications only: 31..K-1 bounds, sorted and shuffled (the top of the 1..64 range and beyond)")
		fs.Parse(args)
		rng := rand.New(rand.NewSource(cm.seed))
		thorough := cm.tier == "thorough"
		tr := NewTrace(filepath.Join(cm.out, "trace.ndjson"))
		var specs [][]int
		if !*long {
			specs = enumSpecs(*k, *maxLen)
		} else {
			for _, n := range []int{32, 63, 64, 65} {
				if n > *k {
					continue
				}
				sorted := make([]int, n)
				for i := range sorted {
					sorted[i] = i + 1
				}
				shuffled := append([]int{}, sorted...)
				rng.Shuffle(n, func(i, j int) { shuffled[i], shuffled[j] = shuffled[j], shuffled[i] })
				specs = append(specs, sorted, shuffled)
			}
		}
		vts := valueTables(*k, rng, thorough)
		dts := durTables(*k, rng, thorough)
		cases, recs := 0, 0
		distinct := map[string]bool{}
		var samples []interface{}
		maxTok := 2 * (*k + 1)
		for si, sp := range specs {
			for _, path := range []string{"plain", "cached", "snap"} {
				// value kind: each spec under a rotating pair of tables (all tables in thorough)
				var vsel []*valueTable
				var dsel []*durTable
				if thorough {
					vsel, dsel = vts, dts
				} else {
					vsel = []*valueTable{vts[(2*si)%len(vts)], vts[(2*si+3)%len(vts)]}
					dsel = []*durTable{dts[(2*si)%len(dts)], dts[(2*si+3)%len(dts)]}
				}
				for _, vt := range vsel {
					c := &histCase{kind: "value", path: path, spec: sp, vt: vt}
					r := newHistRun(c, tr)
					// every sample on its own, each followed by a report
					for tok := -1; tok <= maxTok+3; tok++ {
						if tok == maxTok+2 || (*long && !(tok <= 2 || tok >= 2*len(sp)-6 || tok%16 == 0)) {
							continue
						}
						r.rec("value", tok, tr)
						r.rep(tr)
						recs++
					}
					// wrong-kind record is ignored
					r.rec("duration", 5, tr)
					r.rep(tr)
					// a batch, one report
					n := 3 + rng.Intn(6)
					for i := 0; i < n; i++ {
						r.rec("value", rng.Intn(maxTok+1), tr)
					}
					r.rep(tr)
					r.rep(tr) // idle cycle
					cases++
					distinct[fmt.Sprint("v", sp, path, vt.name)] = true
					if len(samples) < 3 {
						samples = append(samples, M{"kind": "value", "path": path, "spec": sp, "table": vt.name, "bounds": fmt.Sprint(c.buckets())})
					}
				}
				for _, dt := range dsel {
					c := &histCase{kind: "duration", path: path, spec: sp, dt: dt}
					r := newHistRun(c, tr)
					for tok := 0; tok <= maxTok; tok++ {
						if *long && !(tok <= 2 || tok >= 2*len(sp)-6 || tok%16 == 0) {
							continue
						}
						r.rec("duration", tok, tr)
						r.rep(tr)
						recs++
					}
					r.rec("value", 5, tr)
					r.rep(tr)
					n := 3 + rng.Intn(6)
					for i := 0; i < n; i++ {
						r.rec("duration", rng.Intn(maxTok+1), tr)
					}
					r.rep(tr)
					r.rep(tr)
					cases++
					distinct[fmt.Sprint("d", sp, path, dt.name)] = true
					if len(samples) < 6 && len(sp) > 1 {
						samples = append(samples, M{"kind": "duration", "path": path, "spec": sp, "table": dt.name, "bounds": fmt.Sprint(c.buckets())})
					}
				}
			}
		}
		// one unsorted specification handed to several roots that create their histograms at the same time
		nshared := 40
		if thorough {
			nshared = 600
		}
		if *long {
			nshared = 0
		}
		for it := 0; it < nshared; it++ {
			spec := make(tally.ValueBuckets, 48)
			for i := range spec {
				spec[i] = float64(i*3 + 1)
			}
			rng.Shuffle(len(spec), func(i, j int) { spec[i], spec[j] = spec[j], spec[i] })
			orig := append(tally.ValueBuckets{}, spec...)
			var dspec tally.DurationBuckets
			for _, v := range spec {
				dspec = append(dspec, time.Duration(v)*time.Millisecond)
			}
			dorig := append(tally.DurationBuckets{}, dspec...)
			const G = 4
			roots := make([]tally.TestScope, G)
			for g := range roots {
				roots[g] = tally.VerifNewTestScope("", nil, 1)
			}
			var wg sync.WaitGroup
			start := make(chan struct{})
			for g := 0; g < G; g++ {
				g := g
				wg.Add(1)
				go func() {
					defer wg.Done()
					<-start
					hv := roots[g].Histogram("hv", spec)
					hd := roots[g].Histogram("hd", dspec)
					for _, b := range orig {
						hv.RecordValue(b) // exactly on every bound
					}
					for _, b := range dorig {
						hd.RecordDuration(b)
					}
				}()
			}
			close(start)
			wg.Wait()
			boundsOK, countsOK := true, true
			for i := range orig {
				if spec[i] != orig[i] || dspec[i] != dorig[i] {
					boundsOK = false // the caller's slices were modified
				}
			}
			for g := 0; g < G; g++ {
				sn := roots[g].Snapshot()
				for _, h := range sn.Histograms() {
					if h.Name() == "hv" {
						vals := h.Values()
						for _, b := range orig {
							if n, ok := vals[b]; !ok {
								boundsOK = false
							} else if n != 1 {
								countsOK = false
							}
						}
						if len(vals) != len(orig)+1 {
							boundsOK = false
						}
					} else {
						vals := h.Durations()
						for _, b := range dorig {
							if n, ok := vals[b]; !ok {
								boundsOK = false
							} else if n != 1 {
								countsOK = false
							}
						}
						if len(vals) != len(dorig)+1 {
							boundsOK = false
						}
					}
				}
			}
			tr.Emit(M{"e": "shared", "bounds_ok": boundsOK, "counts_ok": countsOK})
			recs += 2 * G * len(orig)
		}
		tr.Close()
		writeMeta(cm.out, M{"cases": cases, "events": tr.N, "records": recs, "distinct": len(distinct), "samples": samples,
			"K": *k, "L": *maxLen, "specs": len(specs), "value_tables": len(vts), "duration_tables": len(dts)})
	})
}

// collidingDecoy returns buckets of the same kind and length as bk with the same bucket-cache identity but
// different bounds (nil when there is none of that simple form): the identity is a sum over the elements, so
// moving one unit from one element to another keeps it.
func collidingDecoy(bk tally.Buckets) tally.Buckets {
	switch b := bk.(type) {
	case tally.DurationBuckets:
		if len(b) < 2 || b[0] == math.MaxInt64 || b[1] == math.MinInt64 {
			return nil
		}
		d := append(tally.DurationBuckets{}, b...)
		d[0], d[1] = d[0]+1, d[1]-1
		if tally.VerifBucketsIdentity(d) != tally.VerifBucketsIdentity(b) || (d[0] == b[1] && d[1] == b[0]) {
			return nil
		}
		return d
	case tally.ValueBuckets:
		if len(b) < 2 {
			return nil
		}
		d := append(tally.ValueBuckets{}, b...)
		d[0], d[1] = math.Float64frombits(math.Float64bits(d[0])+1), math.Float64frombits(math.Float64bits(d[1])-1)
		for _, v := range d[:2] {
			if math.IsNaN(v) || math.IsInf(v, 0) {
				return nil
			}
		}
		if tally.VerifBucketsIdentity(d) != tally.VerifBucketsIdentity(b) || (d[0] == b[1] && d[1] == b[0]) {
			return nil
		}
		return d
	}
	return nil
}
