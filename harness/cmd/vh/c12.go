package main

import (
	"flag"
	"fmt"
	"math"
	"math/rand"
	"path/filepath"
	"strings"
	"sync"
	"time"

	tally "github.com/uber-go/tally/v4"
	"github.com/uber-go/tally/v4/m3"
	m3thrift "github.com/uber-go/tally/v4/m3/thrift/v2"
	"github.com/uber-go/tally/v4/thirdparty/github.com/apache/thrift/lib/go/thrift"
)

// C12: sequences of reported metrics of model-enumerated shapes on the real M3 reporter.  The observation
// hooks of the batching loop give, in order, the CHARGED size of every dequeued item and the moment of
// every emit; the datagrams collected by a loopback sink give the ACTUAL sizes (each decoded metric is
// re-encoded on its own with the real protocol; what is left of the datagram is the envelope).

func encodedMetricLen(m m3thrift.Metric, compact bool) int {
	mb := thrift.NewTMemoryBuffer()
	var p thrift.TProtocol
	if compact {
		p = thrift.NewTCompactProtocol(mb)
	} else {
		p = thrift.NewTBinaryProtocolTransport(mb)
	}
	if err := m.Write(p); err != nil {
		fatal("encode metric: %v", err)
	}
	p.Flush()
	return mb.Len()
}

type c12Shape struct {
	kind    string // counter gauge timer histv histd
	nameLen int
	ntags   int
	tagLen  int
}

func init() {
	register("c12", "metric sequences of enumerated shapes on the real M3 reporter: charged vs actual sizes, datagram lengths (C12)", func(args []string) {
		fs := flag.NewFlagSet("c12", flag.ExitOnError)
		cm := commonFlags(fs)
		fs.Parse(args)
		rng := rand.New(rand.NewSource(cm.seed))
		thorough := cm.tier == "thorough"
		tr := NewTrace(filepath.Join(cm.out, "trace.ndjson"))
		ncases := 60
		if thorough {
			ncases = 600
		}
		evals := 0
		distinct := map[string]bool{}
		var samples []interface{}
		kinds := []string{"counter", "gauge", "timer", "histv", "histd"}
		nameLens := []int{1, 30, 600}
		tagCounts := []int{0, 1, 8}
		for ci := 0; ci < ncases; ci++ {
			compact := ci%2 == 0
			ncommon := []int{0, 3, 8}[(ci/2)%3]
			seq := []int32{0, 126, 16382, 2097150, math.MaxInt32 - 100000}[(ci/6)%5]
			// packet size from just above the overhead + the largest single metric up to the UDP maximum
			maxPacket := []int{1440, 0, 900, 32768, 65000, 4000}[rng.Intn(6)]
			histOnly := ci%7 == 3
			var mu sync.Mutex
			type obs struct {
				point string
				a, b  int64
			}
			var hooklog []obs
			tally.VerifSetHook(nil, func(point string, a, b int64, s string) {
				if point == "m3p_got" || point == "m3p_emit" {
					mu.Lock()
					hooklog = append(hooklog, obs{point, a, b})
					mu.Unlock()
				}
			})
			col := newCollector()
			common := map[string]string{}
			for i := 0; i < ncommon; i++ {
				common[fmt.Sprintf("ck%d", i)] = strings.Repeat("v", 1+rng.Intn(20))
			}
			proto := m3.Compact
			if !compact {
				proto = m3.Binary
			}
			// shapes of this case
			nshapes := 1 + rng.Intn(5)
			var shapes []c12Shape
			largest := 0
			for i := 0; i < nshapes; i++ {
				sh := c12Shape{kind: kinds[rng.Intn(len(kinds))], nameLen: nameLens[rng.Intn(3)], ntags: tagCounts[rng.Intn(3)], tagLen: 1 + rng.Intn(12)}
				if histOnly {
					sh.kind = []string{"histv", "histd"}[rng.Intn(2)]
				}
				if sh.nameLen == 600 && rng.Intn(2) == 0 {
					sh.nameLen = 1 + rng.Intn(600)
				}
				shapes = append(shapes, sh)
				est := sh.nameLen + sh.ntags*(2*sh.tagLen+20) + 120
				if est > largest {
					largest = est
				}
			}
			if maxPacket == 0 {
				maxPacket = largest + 150 + ncommon*40 + rng.Intn(200) // just above overhead + largest metric
			}
			if maxPacket < largest+150+ncommon*40 {
				maxPacket = largest + 150 + ncommon*40
			}
			hostPorts := []string{col.s.addr()}
			if ci%5 == 2 {
				// a first destination nobody listens on (its sends fail with ECONNREFUSED every other time): the second one
				// still gets every batch, one datagram per emit
				hostPorts = []string{deadUDPAddr(), col.s.addr()}
			}
			opts := m3.Options{HostPorts: hostPorts, Service: "s", Env: "e", CommonTags: common,
				Protocol: proto, MaxQueueSize: 1 + rng.Intn(64), MaxPacketSizeBytes: int32(maxPacket)}
			// rarely set options that add to what every packet or every bucket metric carries
			opts.IncludeHost = ci%4 == 3
			if ci%5 == 4 {
				opts.HistogramBucketIDName, opts.HistogramBucketName = "histogram_bucket_id", "histogram_bucket_bounds"
			}
			rep, err := m3.NewReporter(opts)
			if err != nil {
				// the common tags alone exceed the packet: outside the property's proviso
				col.close()
				tally.VerifSetHook(nil, nil)
				continue
			}
			m3.VerifSetSeqID(rep, seq)
			st := m3.VerifStateOf(rep)
			tr.Emit(M{"e": "cfg", "x": ci + 1, "compact": compact, "max": maxPacket, "free": int(st.FreeBytes), "overhead": int(st.Overhead), "seq": int(seq), "ncommon": ncommon})
			var nrep int
			finished := make(chan struct{})
			go func() {
				defer close(finished)
				type handle struct {
					kind string
					h    interface{}
					bks  []tally.CachedHistogramBucket
				}
				var hs []handle
				for si, sh := range shapes {
					name := strings.Repeat("n", sh.nameLen)
					if sh.nameLen > 4 {
						name = fmt.Sprintf("%02d", si) + name[2:]
					}
					tags := map[string]string{}
					for t := 0; t < sh.ntags; t++ {
						tags[fmt.Sprintf("k%d%s", t, strings.Repeat("k", sh.tagLen))] = strings.Repeat("v", sh.tagLen)
					}
					switch sh.kind {
					case "counter":
						hs = append(hs, handle{kind: "counter", h: rep.AllocateCounter(name, tags)})
					case "gauge":
						hs = append(hs, handle{kind: "gauge", h: rep.AllocateGauge(name, tags)})
					case "timer":
						hs = append(hs, handle{kind: "timer", h: rep.AllocateTimer(name, tags)})
					case "histv":
						bs := tally.ValueBuckets{-1e9, 0, 0.000001, 1e15}
						h := rep.AllocateHistogram(name, tags, bs)
						var bks []tally.CachedHistogramBucket
						for _, p := range tally.BucketPairs(bs) {
							bks = append(bks, h.ValueBucket(p.LowerBoundValue(), p.UpperBoundValue()))
						}
						hs = append(hs, handle{kind: "bucket", bks: bks})
					case "histd":
						bs := tally.DurationBuckets{time.Nanosecond, 1500 * time.Millisecond, 277*time.Hour + 46*time.Minute + 39*time.Second + 999999999}
						h := rep.AllocateHistogram(name, tags, bs)
						var bks []tally.CachedHistogramBucket
						for _, p := range tally.BucketPairs(bs) {
							bks = append(bks, h.DurationBucket(p.LowerBoundDuration(), p.UpperBoundDuration()))
						}
						hs = append(hs, handle{kind: "bucket", bks: bks})
					}
				}
				// concurrent allocation: the size measurement of Allocate* goes through one shared counting transport
				if ci%3 == 1 {
					const G, per = 8, 60
					extra := make([][]handle, G)
					var wg sync.WaitGroup
					start := make(chan struct{})
					for g := 0; g < G; g++ {
						g := g
						wg.Add(1)
						go func() {
							defer wg.Done()
							<-start
							for i := 0; i < per; i++ {
								name := fmt.Sprintf("c%d_%d_%s", g, i, strings.Repeat("x", (g*7+i*13)%90))
								tags := map[string]string{}
								for t := 0; t < (g+i)%4; t++ {
									tags[fmt.Sprintf("t%d", t)] = strings.Repeat("v", 1+(i*3+t)%17)
								}
								switch (g + i) % 3 {
								case 0:
									extra[g] = append(extra[g], handle{kind: "counter", h: rep.AllocateCounter(name, tags)})
								case 1:
									extra[g] = append(extra[g], handle{kind: "gauge", h: rep.AllocateGauge(name, tags)})
								default:
									extra[g] = append(extra[g], handle{kind: "timer", h: rep.AllocateTimer(name, tags)})
								}
							}
						}()
					}
					close(start)
					wg.Wait()
					for g := 0; g < G; g++ {
						for _, h := range extra[g] {
							switch h.kind {
							case "counter":
								h.h.(tally.CachedCount).ReportCount(math.MaxInt64)
							case "gauge":
								h.h.(tally.CachedGauge).ReportGauge(-math.MaxFloat64)
							case "timer":
								h.h.(tally.CachedTimer).ReportTimer(time.Duration(math.MinInt64))
							}
						}
					}
				}
				// metrics around the exact fit: counters whose names run through a range of lengths, so that one of them is
				// charged exactly what a packet has room for ("the metric that does not fit starts the next packet" - one
				// that fits exactly is sent, alone), reported between small ones
				if free := int(st.FreeBytes); free <= 1600 && ci%2 == 1 {
					small := rep.AllocateCounter("s", nil)
					for n := free - 115; n <= free-4; n++ {
						if n < 1 {
							continue
						}
						small.ReportCount(1)
						rep.AllocateCounter(strings.Repeat("e", n), nil).ReportCount(math.MaxInt64)
					}
				}
				nrep = 40 + rng.Intn(160)
				if thorough && ci%40 == 39 {
					nrep = 5000
				}
				ints := []int64{math.MaxInt64, math.MinInt64, 0, 1, -1, 1 << 62, math.MaxInt64 - 1}
				floats := []float64{math.MaxFloat64, -math.MaxFloat64, 0, 1, math.NaN(), math.Inf(1)}
				for i := 0; i < nrep; i++ {
					h := hs[rng.Intn(len(hs))]
					switch h.kind {
					case "counter":
						h.h.(tally.CachedCount).ReportCount(ints[rng.Intn(len(ints))])
					case "gauge":
						h.h.(tally.CachedGauge).ReportGauge(floats[rng.Intn(len(floats))])
					case "timer":
						h.h.(tally.CachedTimer).ReportTimer(time.Duration(ints[rng.Intn(len(ints))]))
					case "bucket":
						h.bks[rng.Intn(len(h.bks))].ReportSamples(ints[rng.Intn(len(ints))])
					}
					if rng.Intn(25) == 0 {
						rep.Flush() // flushes at arbitrary positions
					}
				}
				rep.Close()
			}()
			if where := hangWatch(finished); where != "" {
				// the reporter hangs (its goroutines and the caller have not moved for seconds): the run ends with the last complete case
				tr.Close()
				writeMeta(cm.out, M{"cases": ci, "events": tr.N, "evals": evals, "distinct": len(distinct), "samples": samples, "hung": true, "where": where})
				return
			}
			nemit := 0
			mu.Lock()
			for _, o := range hooklog {
				if o.point == "m3p_emit" {
					nemit++
				}
			}
			mu.Unlock()
			// the datagrams the sender is known to have emitted (loopback delivery may lag on a busy machine)
			waitDatagrams([]*sinkCollector{col}, nemit, time.Second)
			dgs := col.take()
			col.close()
			tally.VerifSetHook(nil, nil)
			mu.Lock()
			hl := hooklog
			mu.Unlock()
			di := 0
			for _, o := range hl {
				if o.point == "m3p_got" {
					tr.Emit(M{"e": "got", "c": int(o.a), "set": o.b == 1})
					continue
				}
				// m3p_emit: the next datagram
				if di >= len(dgs) {
					tr.Emit(M{"e": "emit", "len": 0, "ok": false, "n": int(o.a), "a": []int{}, "env": 0, "internal": 0})
					continue
				}
				d := dgs[di]
				di++
				b, _, ok, _ := decodeBatch(d, compact)
				ev := M{"e": "emit", "len": len(d), "ok": ok, "n": len(b.Metrics), "a": []int{}, "env": 0}
				if ok {
					as := make([]int, 0, len(b.Metrics))
					sum := 0
					for _, m := range b.Metrics {
						n := encodedMetricLen(m, compact)
						as = append(as, n)
						sum += n
					}
					ev["a"] = as
					ev["env"] = len(d) - sum
				}
				tr.Emit(ev)
			}
			tr.Emit(M{"e": "endc", "datagrams": len(dgs), "emits_seen": di})
			evals += nrep
			distinct[fmt.Sprint(compact, ncommon, seq, maxPacket, shapes)] = true
			if len(samples) < 4 {
				samples = append(samples, M{"compact": compact, "common_tags": ncommon, "seq_id": seq, "max_packet": maxPacket, "free": st.FreeBytes, "shapes": fmt.Sprint(shapes), "reports": nrep, "datagrams": len(dgs)})
			}
		}
		tr.Close()
		writeMeta(cm.out, M{"cases": ncases, "events": tr.N, "evals": evals, "distinct": len(distinct), "samples": samples})
	})
}
