package main

import (
	"flag"
	"fmt"
	"io"
	"math/rand"
	"path/filepath"
	"sync"
	"sync/atomic"
	"time"

	tally "github.com/uber-go/tally/v4"
)

// c11conc: snapshots of a real test scope taken while other goroutines record (C11, "also concurrently
// with recording").  Counters are incremented by 1 (possibly by several goroutines), each gauge and each
// timer has one writer which writes 1, 2, 3, ...  Events are logged under one mutex, "call" before and
// "ret" after the operation.
func init() {
	register("c11conc", "snapshots of a test scope concurrent with recording (C11)", func(args []string) {
		fs := flag.NewFlagSet("c11conc", flag.ExitOnError)
		cm := commonFlags(fs)
		fs.Parse(args)
		rng := rand.New(rand.NewSource(cm.seed))
		rounds, nops, nsnaps := 30, 300, 12
		if cm.tier == "thorough" {
			rounds, nops, nsnaps = 200, 2000, 60
		}
		tr := NewTrace(filepath.Join(cm.out, "trace.ndjson"))
		evals := 0
		var samples []interface{}
		for round := 0; round < rounds; round++ {
			ts := tally.VerifNewTestScope("", nil, uint(1+round%3))
			sub := ts.Tagged(map[string]string{"k": "v"})
			var mu sync.Mutex
			var ev []M
			log := func(m M) { mu.Lock(); ev = append(ev, m); mu.Unlock() }
			log(M{"e": "new"})
			var wg sync.WaitGroup
			startAll := make(chan struct{})
			const hammer = 3000
			nrec := 2 + rng.Intn(3)
			// first use of fresh counter names by all recorders at the same moment (a spin barrier per name): every
			// goroutine increments through the handle it got
			const nfresh = 40
			arrive := make([]atomic.Int32, nfresh)
			for g := 0; g < nrec; g++ {
				g := g
				scope := ts
				if g%2 == 1 {
					scope = sub.(tally.TestScope)
				}
				wg.Add(1)
				go func() {
					defer wg.Done()
					shared := ts.Counter("shared")
					sharedTimer := ts.Timer("tshared") // several writers: only the number of retained values is judged
					own := scope.Counter(fmt.Sprintf("own%d", g))
					gauge := scope.Gauge(fmt.Sprintf("g%d", g))
					timer := scope.Timer(fmt.Sprintf("t%d", g))
					hist := scope.Histogram(fmt.Sprintf("h%d", g), tally.ValueBuckets{1, 2})
					ng, nt := 0, 0
					// all recorders hit the shared timer at the same time (logged as one batch of calls)
					<-startAll
					log(M{"e": "call", "m": "tshared", "n": hammer})
					for i := 0; i < hammer; i++ {
						sharedTimer.Record(time.Duration(1))
					}
					log(M{"e": "ret", "m": "tshared", "n": hammer})
					for j := 0; j < nfresh; j++ {
						name := fmt.Sprintf("f%d", j)
						arrive[j].Add(1)
						for int(arrive[j].Load()) < nrec {
						}
						log(M{"e": "call", "m": name, "n": 1})
						ts.Counter(name).Inc(1)
						log(M{"e": "ret", "m": name, "n": 1})
					}
					for i := 0; i < nops; i++ {
						switch i % 5 {
						case 0:
							log(M{"e": "call", "m": "shared", "n": 1})
							shared.Inc(1)
							log(M{"e": "ret", "m": "shared", "n": 1})
						case 1:
							m := fmt.Sprintf("own%d", g)
							log(M{"e": "call", "m": m, "n": 1})
							own.Inc(1)
							log(M{"e": "ret", "m": m, "n": 1})
						case 2:
							ng++
							m := fmt.Sprintf("g%d", g)
							log(M{"e": "call", "m": m, "n": 1})
							gauge.Update(float64(ng))
							log(M{"e": "ret", "m": m, "n": 1})
						case 3:
							nt++
							m := fmt.Sprintf("t%d", g)
							log(M{"e": "call", "m": m, "n": 1})
							timer.Record(time.Duration(nt))
							log(M{"e": "ret", "m": m, "n": 1})
						case 4:
							if i%10 == 9 {
								log(M{"e": "call", "m": "tshared", "n": 1})
								sharedTimer.Record(time.Duration(1))
								log(M{"e": "ret", "m": "tshared", "n": 1})
								continue
							}
							m := fmt.Sprintf("h%d", g)
							log(M{"e": "call", "m": m, "n": 1})
							hist.RecordValue(1.5)
							log(M{"e": "ret", "m": m, "n": 1})
						}
					}
				}()
			}
			takeSnap := func(id int) {
				log(M{"e": "snapcall", "s": id})
				s := ts.Snapshot()
				vals := [][]interface{}{}
				short := func(n string) string {
					// snapshot keys are name+tags: the metric names of this harness are unique without the tags
					for i := 0; i < len(n); i++ {
						if n[i] == '+' {
							return n[:i]
						}
					}
					return n
				}
				for _, c := range s.Counters() {
					vals = append(vals, []interface{}{short(c.Name()), "counter", int(c.Value()), true})
				}
				for _, g := range s.Gauges() {
					vals = append(vals, []interface{}{short(g.Name()), "gauge", int(g.Value()), g.Value() == float64(int(g.Value()))})
				}
				for _, t := range s.Timers() {
					ok := true
					for i, d := range t.Values() {
						if d != time.Duration(i+1) && short(t.Name()) != "tshared" {
							ok = false
						}
					}
					vals = append(vals, []interface{}{short(t.Name()), "timer", len(t.Values()), ok})
				}
				for _, h := range s.Histograms() {
					total := int64(0)
					for _, n := range h.Values() {
						total += n
					}
					vals = append(vals, []interface{}{short(h.Name()), "histogram", int(total), h.Values()[2] == total})
				}
				log(M{"e": "snapret", "s": id, "vals": vals})
			}
			for sn := 0; sn < 2; sn++ {
				sn := sn
				wg.Add(1)
				go func() {
					defer wg.Done()
					for k := 0; k < nsnaps; k++ {
						takeSnap(sn*100000 + k)
						evals++
					}
				}()
			}
			close(startAll)
			// a sub-scope that is created, recorded on and closed while other goroutines ask for the same sub-scope:
			// "test scopes and their metrics survive Close of a subscope and remain visible in later snapshots"
			for trial := 0; trial < 40; trial++ {
				name := fmt.Sprintf("c%d", trial)
				var rw sync.WaitGroup
				gate := make(chan struct{})
				for k := 0; k < 4; k++ {
					rw.Add(1)
					go func() {
						defer rw.Done()
						<-gate
						ts.SubScope(name)
					}()
				}
				m := name + ".k"
				log(M{"e": "call", "m": m, "n": 1})
				close(gate)
				child := ts.SubScope(name)
				child.Counter("k").Inc(1)
				if cl, ok := child.(io.Closer); ok {
					cl.Close()
				}
				log(M{"e": "ret", "m": m, "n": 1})
				rw.Wait()
			}
			wg.Wait()
			takeSnap(999999) // everything has returned: what was called = what had returned
			for _, e := range ev {
				tr.Emit(e)
			}
			if len(samples) < 2 {
				samples = append(samples, M{"recorders": nrec, "snapshotters": 2, "operations_per_recorder": nops, "snapshots": 2 * nsnaps, "events": len(ev)})
			}
		}
		tr.Close()
		writeMeta(cm.out, M{"cases": rounds, "events": tr.N, "evals": evals, "distinct": rounds, "samples": samples})
	})
}
