package main

import "math/rand"

var cvPoints = []string{"cv_load_prev", "cv_load_curr", "cv_cas", "rp_counter", "op_inc"}

func incOps(h, m string, vs ...int64) []Op {
	var ops []Op
	for _, v := range vs {
		ops = append(ops, Op{Op: "inc", H: h, M: m, V: v})
	}
	return ops
}

func init() {
	scenarioFamilies["c01"] = func(tier string, rng *rand.Rand) []scenarioSet {
		var out []scenarioSet
		thorough := tier == "thorough"
		for _, rep := range []string{"plain", "cached"} {
			// micro: one incrementer (2 increments) against two concurrent passes, every interleaving of the atomic steps
			for _, v := range []struct {
				mod  int
				incs []int64
			}{{0, []int64{1, 2}}, {8, []int64{-4, 3}}, {8, []int64{3, 3}}, {0, []int64{0, 5}}} {
				out = append(out, scenarioSet{mode: "dfs", maxExec: 20000, sc: &Scenario{
					Name: "c01-micro-" + rep, Reporter: rep, Mod: v.mod, Points: cvPoints,
					Threads: []ThreadSpec{
						{Name: "a1", Ops: incOps("root", "c", v.incs...)},
						{Name: "p1", Ops: []Op{{Op: "pass"}}},
						{Name: "p2", Ops: []Op{{Op: "pass"}}},
					}}})
			}
			// histogram bucket counters use the same mechanism
			hmode, hmax := "random", 1500
			if thorough {
				hmode, hmax = "dfs", 400000
			}
			out = append(out, scenarioSet{mode: hmode, maxExec: hmax, sc: &Scenario{
				Name: "c01-hist-" + rep, Reporter: rep, Points: append([]string{"op_hrec"}, cvPoints...),
				Threads: []ThreadSpec{
					{Name: "a1", Ops: []Op{{Op: "hrec", H: "root", M: "h", V: 1}, {Op: "hrec", H: "root", M: "h", V: 1}}},
					{Name: "p1", Ops: []Op{{Op: "pass"}}},
					{Name: "p2", Ops: []Op{{Op: "pass"}}},
				}}})
			// larger: two incrementers on two counters in two scopes, ticker loop, explicit passes, root close: random schedules over all points
			n := 300
			if thorough {
				n = 20000
			}
			out = append(out, scenarioSet{mode: "random", maxExec: n, sc: &Scenario{
				Name: "c01-mixed-" + rep, Reporter: rep, Loop: true, MaxTicks: 2, Shards: 2,
				Threads: []ThreadSpec{
					{Name: "a1", Ops: append([]Op{{Op: "sub", H: "s", Name: "s"}}, append(incOps("s", "c", 1, 2), incOps("root", "r", 1)...)...)},
					{Name: "a2", Ops: append(incOps("root", "r", 2, 1), Op{Op: "sub", H: "s", Name: "s"}, Op{Op: "inc", H: "s", M: "c", V: 4})},
					{Name: "p1", Ops: []Op{{Op: "pass"}, {Op: "pass"}}},
					{Name: "z", Ops: []Op{{Op: "rootclose"}}},
				}}})
			// "a report triggered by re-requesting a closed scope": increments around Close and re-request of a sub-scope
			// while passes run; every choice at the operations, the pass's visit of a scope and its closed-flag read
			out = append(out, scenarioSet{mode: "dfs", maxExec: 6000, sc: &Scenario{
				Name: "c01-close-in-pass-" + rep, Reporter: rep, Points: []string{"op_inc", "op_close", "rp_visit", "cv_cas", "sr_g", "sr_h", "rm_runlock"},
				Threads: []ThreadSpec{
					{Name: "a1", Ops: []Op{{Op: "sub", H: "s", Name: "s"}, {Op: "inc", H: "s", M: "c", V: 1}, {Op: "inc", H: "s", M: "c", V: 2}, {Op: "close", H: "s"}}},
					{Name: "p1", Ops: []Op{{Op: "pass"}}},
				}}})
			out = append(out, scenarioSet{mode: "random", maxExec: 400, sc: &Scenario{
				Name: "c01-reacquire-" + rep, Reporter: rep, Shards: 1,
				Threads: []ThreadSpec{
					{Name: "a1", Ops: []Op{{Op: "sub", H: "s", Name: "s"}, {Op: "inc", H: "s", M: "c", V: 1}, {Op: "inc", H: "s", M: "c", V: 2}, {Op: "close", H: "s"},
						{Op: "sub", H: "s", Name: "s"}, {Op: "inc", H: "s", M: "c", V: 4}}},
					{Name: "p1", Ops: []Op{{Op: "pass"}, {Op: "pass"}}},
				}}})
			// "any number of goroutines": two goroutines use a counter of a scope for the first time at the same moment and
			// increment through the handles they got; every interleaving of probe / lock / allocate / increment with a pass
			out = append(out, scenarioSet{mode: "dfs", maxExec: 1500, sc: &Scenario{
				Name: "c01-firstuse-" + rep, Reporter: rep, Points: []string{"op_get", "gc_probe", "gc_lock", "rp_alloc", "op_inc", "op_pass"},
				Threads: []ThreadSpec{
					{Name: "a1", Ops: []Op{{Op: "get", H: "root", M: "x", K: "counter"}, {Op: "inc", H: "root", M: "x", V: 1}}},
					{Name: "a2", Ops: []Op{{Op: "get", H: "root", M: "x", K: "counter"}, {Op: "inc", H: "root", M: "x", V: 2}}},
					{Name: "p1", Ops: []Op{{Op: "pass"}}},
				}}})
			// the closed scope is re-requested on a root whose sanitizer rewrites the tags (the registry then knows the
			// scope under two keys): what was recorded before Close is reported when the scope is requested again
			raw := map[string]string{"data-center": "x y"}
			out = append(out, scenarioSet{mode: "dfs", maxExec: 3000, sc: &Scenario{
				Name: "c01-reacquire-sanitized-" + rep, Reporter: rep, Sanitize: true, Points: []string{"op_sub", "op_inc", "op_close", "op_pass"},
				Threads: []ThreadSpec{
					{Name: "a1", Ops: []Op{{Op: "sub", H: "h", Tags: raw}, {Op: "inc", H: "h", M: "c", V: 1}, {Op: "close", H: "h"},
						{Op: "sub", H: "h", Tags: raw}, {Op: "inc", H: "h", M: "c", V: 2}, {Op: "inc", H: "h", M: "c", V: 3}}},
					{Name: "p1", Ops: []Op{{Op: "pass"}, {Op: "pass"}}},
				}}})
			// ... and with two goroutines doing so while the report loop and a pass run (all hook points, random schedules):
			// a pass may have removed the closed scope under one of its two keys only when it is requested again
			sanOps := []Op{{Op: "sub", H: "h", Tags: raw}, {Op: "inc", H: "h", M: "c", V: 1}, {Op: "close", H: "h"},
				{Op: "sub", H: "h", Tags: raw}, {Op: "inc", H: "h", M: "c", V: 2}}
			nsan := 150
			if thorough {
				nsan = 10000
			}
			out = append(out, scenarioSet{mode: "random", maxExec: nsan, sc: &Scenario{
				Name: "c01-reacquire-sanitized-two-" + rep, Reporter: rep, Sanitize: true, Shards: 2, Loop: true, MaxTicks: 2,
				Threads: []ThreadSpec{
					{Name: "a1", Ops: append(append([]Op{}, sanOps...), Op{Op: "close", H: "h"}, Op{Op: "sub", H: "h", Tags: raw}, Op{Op: "inc", H: "h", M: "c", V: 1})},
					{Name: "a2", Ops: []Op{{Op: "sub", H: "g", Tags: raw}, {Op: "inc", H: "g", M: "c", V: 1}, {Op: "close", H: "g"}, {Op: "sub", H: "g", Tags: raw}, {Op: "inc", H: "g", M: "c", V: 2}}},
					{Name: "p1", Ops: []Op{{Op: "pass"}}},
				}}})
		}
		return out
	}
}
