package main

import (
	"encoding/hex"
	"flag"
	"fmt"
	"math"
	"math/rand"
	"path/filepath"
	"runtime"
	"sort"
	"strconv"
	"strings"
	"sync"
	"sync/atomic"
	"time"

	tally "github.com/uber-go/tally/v4"
	"github.com/uber-go/tally/v4/m3"
	m3thrift "github.com/uber-go/tally/v4/m3/thrift/v2"
)

// C13 (free-running part): Allocate*/Report*/Flush histories from several goroutines on the real M3
// reporter, then Close; every datagram collected by loopback sinks is decoded and compared, by TLC
// (M3ObsTrace.tla), with what was reported.  Names and tags are arbitrary byte strings (hex in the trace).

type sinkCollector struct {
	s     *udpSink
	mu    sync.Mutex
	got   [][]byte
	total int // datagrams seen since creation
	stop  chan struct{}
	sync  chan chan struct{}
	done  chan struct{}
}

// newCollector starts a goroutine that keeps emptying the sink's socket queue (so that it cannot overflow).
func newCollector() *sinkCollector {
	c := &sinkCollector{s: newUDPSink(), stop: make(chan struct{}), sync: make(chan chan struct{}), done: make(chan struct{})}
	go func() {
		defer close(c.done)
		for {
			select {
			case <-c.stop:
				c.got = append(c.got, c.s.drain(0)...)
				return
			case ack := <-c.sync:
				c.mu.Lock()
				more := c.s.drain(0)
				c.got = append(c.got, more...)
				c.total += len(more)
				c.mu.Unlock()
				close(ack)
				continue
			default:
			}
			ds := c.s.drain(500 * time.Microsecond)
			if len(ds) > 0 {
				c.mu.Lock()
				c.got = append(c.got, ds...)
				c.total += len(ds)
				c.mu.Unlock()
			}
		}
	}()
	return c
}

// take returns everything that has reached the sink's socket queue by now (loopback sends are synchronous:
// what a call sent before it returned is in that queue).
func (c *sinkCollector) take() [][]byte {
	ack := make(chan struct{})
	select {
	case c.sync <- ack:
		<-ack
	case <-c.done:
	}
	c.mu.Lock()
	defer c.mu.Unlock()
	g := c.got
	c.got = nil
	return g
}

func (c *sinkCollector) close() {
	close(c.stop)
	<-c.done
	c.s.close()
}

func hx(s string) string { return hex.EncodeToString([]byte(s)) }

func hexPairsMap(tags map[string]string) [][2]string {
	out := make([][2]string, 0, len(tags))
	for k, v := range tags {
		out = append(out, [2]string{hx(k), hx(v)})
	}
	sort.Slice(out, func(i, j int) bool { return out[i][0] < out[j][0] || out[i][0] == out[j][0] && out[i][1] < out[j][1] })
	return out
}

func hexPairsTags(tags []m3thrift.MetricTag) [][2]string {
	out := make([][2]string, 0, len(tags))
	for _, t := range tags {
		out = append(out, [2]string{hx(t.Name), hx(t.Value)})
	}
	sort.Slice(out, func(i, j int) bool { return out[i][0] < out[j][0] || out[i][0] == out[j][0] && out[i][1] < out[j][1] })
	return out
}

// tag maps designed so that their "k=v" renderings collide pairwise, plus ordinary ones
var c13TagPool = []map[string]string{
	nil,
	{"a": "b=c"}, {"a=b": "c"},
	{"x": "1", "y": "2"}, {"x": "2", "y": "1"}, {"x": "1"}, {"y": "2", "x": "1", "z": ""},
	{"k": "v=", "=": "w"}, {"k=v": "", "": "=w"},
	{"bin": "\x00\xff\xfe", "sp ace": "tab\t"},
	{"dc": "sjc1", "env": "prod", "svc": "api", "ver": "1.2.3", "host": "h-17", "az": "b", "tier": "web", "cell": "c9"},
	{"bucket": "mine", "bucketid": "x"},
}

var c13Names = []string{"requests", "latency.p99", "a", "", "name with spaces", "bin\x00\xffname", "ünïcode", "requests=total", strings.Repeat("long", 40)}

var c13Ints = []int64{0, 1, -1, 127, 128, -128, 16383, 16384, math.MaxInt32, math.MinInt32, math.MaxInt64, math.MinInt64, math.MaxInt64 - 1, 1 << 53}
var c13Floats = []float64{0, math.Copysign(0, -1), 1.5, -1.5, math.MaxFloat64, -math.MaxFloat64, math.SmallestNonzeroFloat64, math.Inf(1), math.Inf(-1), math.Float64frombits(0x7ff8000000000001), 1e-300}

func init() {
	register("c13", "free-running Allocate/Report/Flush/Close histories on the real M3 reporter, decoded at loopback sinks (C13)", func(args []string) {
		fs := flag.NewFlagSet("c13", flag.ExitOnError)
		cm := commonFlags(fs)
		fs.Parse(args)
		rng := rand.New(rand.NewSource(cm.seed))
		thorough := cm.tier == "thorough"
		tr := NewTrace(filepath.Join(cm.out, "trace.ndjson"))
		ncases := 40
		if thorough {
			ncases = 300
		}
		evals := 0
		distinct := map[string]bool{}
		var samples []interface{}
		for ci := 0; ci < ncases; ci++ {
			compact := ci%2 == 0
			dests := 1
			if ci%5 == 4 {
				dests = 3
			}
			qcap := []int{1, 2, 4096, 7}[ci%4]
			maxPacket := []int{32768, 1440, 700, 65000}[(ci/2)%4]
			ngo := 1 + rng.Intn(4)
			nrep := 5 + rng.Intn(40)
			if thorough && ci%50 == 49 {
				nrep = 1500 // the long history
				ngo = 4
			}
			closeConcurrently := ci%7 == 3
			var cols []*sinkCollector
			var addrs []string
			dead := 0
			if ci%10 == 9 {
				// two destinations, nobody listens on the first: its sends fail every other time, the second gets everything
				dests, dead = 2, 1
			}
			for i := 0; i < dests; i++ {
				c := newCollector()
				cols = append(cols, c)
				if i < dead {
					addrs = append(addrs, deadUDPAddr())
				} else {
					addrs = append(addrs, c.s.addr())
				}
			}
			proto := m3.Compact
			if !compact {
				proto = m3.Binary
			}
			common := map[string]string{"service": "svc\x00x", "env": "t=e", "region": "r"}
			var mu sync.Mutex
			var ev []M
			log := func(m M) { mu.Lock(); ev = append(ev, m); mu.Unlock() }
			var emitted atomic.Int64
			tally.VerifSetHook(nil, func(point string, a, b int64, str string) {
				if point == "m3p_emit" {
					// sender side: the batching goroutine has handed a batch to the transport
					emitted.Add(1)
					log(M{"e": "emitted", "n": int(a)})
				}
			})
			callHi := map[string]int64{}
			cids := map[string]int{}
			tns := map[string]int{}
			constructedLo := time.Now().UnixNano()
			rep, err := m3.NewReporter(m3.Options{HostPorts: addrs, Service: "svc\x00x", Env: "t=e", CommonTags: map[string]string{"region": "r"},
				Protocol: proto, MaxQueueSize: qcap, MaxPacketSizeBytes: int32(maxPacket), HistogramBucketTagPrecision: uint(1 + ci%9)})
			if err != nil {
				fatal("m3.NewReporter: %v", err)
			}
			prec := 1 + ci%9
			usedKey := map[string]bool{}
			var ukmu sync.Mutex
			// report one value through handle h; name/tags are what the metric was allocated with (+ bucket tags)
			report := func(t string, kind string, h interface{}, name string, tags map[string]string, iv int64, fv float64) bool {
				var vs string
				k := kind
				switch kind {
				case "counter", "bucket":
					vs = fmt.Sprint(iv)
					k = "counter"
				case "gauge":
					vs = fbits(fv)
				case "timer":
					vs = fmt.Sprint(iv)
				}
				key := hx(name) + "#" + vs
				ukmu.Lock()
				if usedKey[key] {
					ukmu.Unlock()
					return false
				}
				usedKey[key] = true
				ukmu.Unlock()
				mu.Lock()
				tns[t]++
				cids[key] = len(cids) + 1
				myCid := cids[key]
				ev = append(ev, M{"e": "call", "t": t, "op": "report", "cid": myCid, "tn": tns[t], "name": hx(name), "kind": k, "v": vs, "tags": hexPairsMap(tags), "bucket": kind == "bucket"})
				mu.Unlock()
				switch kind {
				case "counter":
					h.(tally.CachedCount).ReportCount(iv)
				case "gauge":
					h.(tally.CachedGauge).ReportGauge(fv)
				case "timer":
					h.(tally.CachedTimer).ReportTimer(time.Duration(iv))
				case "bucket":
					h.(tally.CachedHistogramBucket).ReportSamples(iv)
				}
				hi := time.Now().UnixNano()
				mu.Lock()
				callHi[key] = hi
				mu.Unlock()
				log(M{"e": "ret", "t": t, "op": "report", "cid": myCid, "name": hx(name), "v": vs})
				return true
			}
			// the very first report, immediately after construction
			first := rep.AllocateCounter("first", map[string]string{"p": "q"})
			log(M{"e": "scn", "x": ci + 1, "scenario": fmt.Sprintf("free-%d", ci), "producers": ngo, "nrep": nrep, "closers": 1, "flushers": 1, "qcap": qcap, "max_packet": maxPacket, "dests": dests, "alive": aliveList(dests, dead)})
			report("main", "counter", first, "first", map[string]string{"p": "q"}, 424242, 0)
			var wg sync.WaitGroup
			// one histogram bucket handle shared by all goroutines (what concurrent report passes over one histogram do)
			sharedTags := map[string]string{"who": "all"}
			sharedBucket := rep.AllocateHistogram("shared.hist", sharedTags, tally.ValueBuckets{1, 2}).ValueBucket(1, 2)
			sharedWant := map[string]string{"who": "all", "bucketid": "0001", "bucket": renderValueBound(1, prec) + "-" + renderValueBound(2, prec)}
			sharedDBucket := rep.AllocateHistogram("shared.dhist", sharedTags, tally.DurationBuckets{time.Second, 2 * time.Second}).DurationBucket(time.Second, 2*time.Second)
			sharedDWant := map[string]string{"who": "all", "bucketid": "0001", "bucket": "1s-2s"}
			// plain handles shared by all goroutines: every goroutine's value must arrive once, with that value
			sharedCounter := rep.AllocateCounter("shared.counter", sharedTags)
			sharedGauge := rep.AllocateGauge("shared.gauge", sharedTags)
			sharedTimer := rep.AllocateTimer("shared.timer", sharedTags)
			// tag sets larger than the reporter's pooled tag slices (10)
			for _, nt := range []int{10, 11, 12, 25} {
				big := map[string]string{}
				for i := 0; i < nt; i++ {
					big[fmt.Sprintf("k%02d", i)] = fmt.Sprintf("v%d", i*i)
				}
				bn := fmt.Sprintf("bigtags.%d", nt)
				report("main", "counter", rep.AllocateCounter(bn, big), bn, big, int64(7000+nt), 0)
				report("main", "gauge", rep.AllocateGauge(bn+".g", big), bn+".g", big, 0, float64(nt)+0.5)
			}
			// more distinct tag sets than the reporter's pool of tag slices holds (4096): the handles allocated first still
			// report with their own tags afterwards
			if ci == 3 {
				type early struct {
					h    tally.CachedCount
					name string
					tags map[string]string
				}
				var firsts []early
				for i := 0; i < 4400; i++ {
					tg := map[string]string{"shard": fmt.Sprintf("s%d", i)}
					nm := fmt.Sprintf("many.%d", i)
					h := rep.AllocateCounter(nm, tg)
					if i < 40 {
						firsts = append(firsts, early{h, nm, tg})
					}
				}
				for i, f := range firsts {
					report("main", "counter", f.h, f.name, f.tags, int64(9000+i), 0)
				}
			}
			var bucketSeqs []M
			var bsmu sync.Mutex
			startAll := make(chan struct{})
			for g := 0; g < ngo; g++ {
				g := g
				grng := rand.New(rand.NewSource(cm.seed*1000 + int64(ci)*10 + int64(g)))
				wg.Add(1)
				go func() {
					defer wg.Done()
					t := fmt.Sprintf("g%d", g+1)
					left := nrep
					<-startAll // all goroutines hit the shared handle at the same time
					for i := 0; i < 150; i++ {
						report(t, "bucket", sharedBucket, "shared.hist", sharedWant, int64(1000000*(g+1)+i), 0)
						report(t, "bucket", sharedDBucket, "shared.dhist", sharedDWant, int64(1000000*(g+1)+i), 0)
						if i%10 == 0 {
							report(t, "counter", sharedCounter, "shared.counter", sharedTags, int64(1000000*(g+1)+i), 0)
							report(t, "gauge", sharedGauge, "shared.gauge", sharedTags, 0, float64(1000000*(g+1)+i))
							report(t, "timer", sharedTimer, "shared.timer", sharedTags, int64(1000000*(g+1)+i), 0)
						}
					}
					for left > 0 {
						name := c13Names[grng.Intn(len(c13Names))] + fmt.Sprintf(".%d", g) // a name belongs to one goroutine
						if grng.Intn(3) == 0 {
							name = c13Names[grng.Intn(len(c13Names))] + ".shared"
						}
						tags := c13TagPool[grng.Intn(len(c13TagPool))]
						kind := []string{"counter", "gauge", "timer", "histv", "histd"}[grng.Intn(5)]
						k := 1 + grng.Intn(6)
						switch kind {
						case "counter":
							h := rep.AllocateCounter(name, tags)
							for i := 0; i < k; i++ {
								v := c13Ints[grng.Intn(len(c13Ints))]
								if grng.Intn(2) == 0 {
									v = grng.Int63() - grng.Int63()
								}
								report(t, "counter", h, name, tags, v, 0)
							}
						case "gauge":
							h := rep.AllocateGauge(name, tags)
							for i := 0; i < k; i++ {
								v := c13Floats[grng.Intn(len(c13Floats))]
								if grng.Intn(2) == 0 {
									v = grng.NormFloat64() * 1e6
								}
								report(t, "gauge", h, name, tags, 0, v)
							}
						case "timer":
							h := rep.AllocateTimer(name, tags)
							for i := 0; i < k; i++ {
								v := c13Ints[grng.Intn(len(c13Ints))]
								if grng.Intn(2) == 0 {
									v = grng.Int63n(int64(time.Hour))
								}
								report(t, "timer", h, name, tags, v, 0)
							}
						case "histv", "histd":
							// one sample count per bucket, unique per bucket: the emitted bucket tags identify the bucket
							nb := 1 + grng.Intn(4)
							var bs tally.Buckets
							var his []string // rendered upper bounds in order, "infinity" last
							if kind == "histv" {
								start := []float64{-2.5, 0, 0.001, 1e6}[grng.Intn(4)]
								vb := tally.MustMakeLinearValueBuckets(start, []float64{0.5, 1, 1000}[grng.Intn(3)], nb)
								bs = vb
							} else {
								db := tally.MustMakeLinearDurationBuckets([]time.Duration{0, time.Millisecond, time.Second}[grng.Intn(3)], []time.Duration{time.Microsecond, 250 * time.Millisecond, time.Minute}[grng.Intn(3)], nb)
								bs = db
							}
							h := rep.AllocateHistogram(name, tags, bs)
							pairs := tally.BucketPairs(bs)
							width := 4
							if n := len(strconv.Itoa(len(pairs))); n > width {
								width = n
							}
							seq := []int{}
							base := grng.Int63n(1 << 40)
							for bi, p := range pairs {
								var b tally.CachedHistogramBucket
								var lo, hi string
								if kind == "histv" {
									b = h.ValueBucket(p.LowerBoundValue(), p.UpperBoundValue())
									lo, hi = renderValueBound(p.LowerBoundValue(), prec), renderValueBound(p.UpperBoundValue(), prec)
								} else {
									b = h.DurationBucket(p.LowerBoundDuration(), p.UpperBoundDuration())
									lo, hi = renderDurationBound(p.LowerBoundDuration()), renderDurationBound(p.UpperBoundDuration())
								}
								btags := map[string]string{}
								for k2, v2 := range tags {
									btags[k2] = v2
								}
								if _, clash := btags["bucket"]; clash {
									continue // a user tag named like the bucket tags: which of the two wins is not stated by the property
								}
								btags["bucketid"] = fmt.Sprintf("%0*d", width, bi)
								btags["bucket"] = lo + "-" + hi
								his = append(his, hi)
								if report(t, "bucket", b, name, btags, base+int64(bi), 0) {
									seq = append(seq, bi)
								}
							}
							_ = his
							bsmu.Lock()
							bucketSeqs = append(bucketSeqs, M{"name": hx(name), "nb": len(pairs), "reported": seq})
							bsmu.Unlock()
						}
						left -= k
						if grng.Intn(6) == 0 {
							log(M{"e": "call", "t": t, "op": "flush"})
							rep.Flush()
							log(M{"e": "ret", "t": t, "op": "flush"})
						}
					}
				}()
			}
			// hammer: in two histories several goroutines push many distinct values through ONE plain counter handle; the
			// values are not logged one by one - what arrives is counted per value (a value that arrives twice was
			// delivered twice: loss on the way could only make one go missing)
			hammerSent := 0
			if ci == 1 || ci == 2 {
				hh := rep.AllocateCounter("hammer.counter", sharedTags)
				const HG, HN = 4, 30000
				var hw sync.WaitGroup
				for g := 0; g < HG; g++ {
					g := g
					hw.Add(1)
					go func() {
						defer hw.Done()
						for i := 0; i < HN; i++ {
							hh.ReportCount(int64(g)*10000000 + int64(i) + 1)
						}
					}()
				}
				hw.Wait()
				hammerSent = HG * HN
			}
			close(startAll)
			closeIt := func() {
				log(M{"e": "call", "t": "main", "op": "close"})
				cerr := rep.Close()
				// wait for the datagrams the sender is known to have emitted (loopback delivery may lag on a busy machine)
				waitDatagrams(cols[dead:], int(emitted.Load()), 2*time.Second)
				logEmits(cols, compact, maxPacket, common, constructedLo, callHi, cids, &mu, log)
				alive := reporterGoroutinesAlive()
				log(M{"e": "ret", "t": "main", "op": "close", "err": cerr != nil, "alive": alive && false})
			}
			closeDelay := time.Duration(rng.Intn(300)) * time.Microsecond
			finished := make(chan struct{})
			go func() {
				defer close(finished)
				if closeConcurrently {
					time.Sleep(closeDelay)
					closeIt()
					wg.Wait()
				} else {
					wg.Wait()
					closeIt()
				}
				// a second Close, and anything that still arrives afterwards
				err2 := rep.Close()
				log(M{"e": "call", "t": "main2", "op": "close"})
				log(M{"e": "ret", "t": "main2", "op": "close", "err": err2 != nil, "alive": false})
			}()
			if where := hangWatch(finished); where != "" {
				// producers, Close and the reporter's goroutines have not moved for seconds: the history ends here
				// (the goroutines stay behind, so does this run)
				log(M{"e": "deadlock", "where": where})
				mu.Lock()
				for _, e := range ev {
					tr.Emit(e)
				}
				mu.Unlock()
				tr.Emit(M{"e": "endx"})
				tr.Close()
				writeMeta(cm.out, M{"cases": ci + 1, "execs": ci + 1, "events": tr.N, "evals": evals, "distinct": len(distinct), "samples": samples, "hung": true})
				return
			}
			time.Sleep(5 * time.Millisecond)
			waitDatagrams(cols[dead:], int(emitted.Load()), time.Second)
			logEmits(cols, compact, maxPacket, common, constructedLo, callHi, cids, &mu, log)
			tally.VerifSetHook(nil, nil)
			if hammerSent > 0 {
				dup, got := 0, 0
				for _, n := range c13HammerSeen {
					got += n
					if n > 1 {
						dup += n - 1
					}
				}
				log(M{"e": "hammer", "sent": hammerSent, "received": got, "dup": dup})
			}
			c13HammerSeen = map[[2]int64]int{}
			log(M{"e": "end", "pending": int(m3.VerifStateOf(rep).Pending), "qlen": 0, "done": true})
			for _, c := range cols {
				c.close()
			}
			for _, e := range ev {
				tr.Emit(e)
			}
			tr.Emit(M{"e": "endx"})
			evals += len(ev)
			distinct[fmt.Sprint(compact, dests, qcap, maxPacket, ngo, nrep, closeConcurrently)] = true
			if len(samples) < 3 {
				samples = append(samples, M{"compact": compact, "destinations": dests, "queue": qcap, "max_packet": maxPacket, "goroutines": ngo, "reports_per_goroutine": nrep, "close_concurrently": closeConcurrently, "events": len(ev)})
			}
		}
		tr.Close()
		writeMeta(cm.out, M{"cases": ncases, "execs": ncases, "events": tr.N, "evals": evals, "distinct": len(distinct), "samples": samples})
	})
}

// waitDatagrams waits until every collector has seen n datagrams in total (since its creation) or the timeout passes
func waitDatagrams(cols []*sinkCollector, n int, timeout time.Duration) {
	deadline := time.Now().Add(timeout)
	for time.Now().Before(deadline) {
		ok := true
		for _, c := range cols {
			ack := make(chan struct{})
			select {
			case c.sync <- ack:
				<-ack
			case <-c.done:
			}
			c.mu.Lock()
			if c.total < n {
				ok = false
			}
			c.mu.Unlock()
		}
		if ok {
			return
		}
		time.Sleep(200 * time.Microsecond)
	}
}

// hangWatch waits for a history to finish.  A history takes milliseconds; when it has not finished after 20 s the
// stacks of the goroutines inside the m3 reporter are compared three times, one second apart: identical stacks
// (nobody moved) are reported as the place where the code hangs; otherwise the wait goes on (up to 5 minutes,
// then the run is abandoned as an infrastructure problem).
func hangWatch(finished chan struct{}) string {
	select {
	case <-finished:
		return ""
	case <-time.After(20 * time.Second):
	}
	deadline := time.Now().Add(5 * time.Minute)
	for time.Now().Before(deadline) {
		var dumps []string
		for k := 0; k < 3; k++ {
			dumps = append(dumps, m3Stacks())
			select {
			case <-finished:
				return ""
			case <-time.After(time.Second):
			}
		}
		if dumps[0] == dumps[1] && dumps[1] == dumps[2] && dumps[0] != "" {
			return dumps[0]
		}
	}
	fatal("c13: a history did not finish within 5 minutes although its goroutines keep moving")
	return ""
}

// m3Stacks: for every goroutine with a frame in the m3 package, its state and the m3 frames (innermost first)
func m3Stacks() string {
	buf := make([]byte, 1<<22)
	buf = buf[:runtime.Stack(buf, true)]
	var out []string
	for _, g := range strings.Split(string(buf), "\n\n") {
		if !strings.Contains(g, "tally/v4/m3.") {
			continue
		}
		lines := strings.Split(g, "\n")
		state := ""
		if i := strings.Index(lines[0], "["); i >= 0 {
			state = strings.TrimRight(lines[0][i:], ":")
			if j := strings.Index(state, ","); j >= 0 {
				state = state[:j] + "]" // drop "N minutes"
			}
		}
		var frames []string
		for _, l := range lines[1:] {
			if strings.HasPrefix(l, "github.com/uber-go/tally/v4/m3.") {
				f := strings.TrimPrefix(l, "github.com/uber-go/tally/v4/m3.")
				if k := strings.LastIndex(f, "("); k >= 0 {
					f = f[:k]
				}
				frames = append(frames, f)
			}
		}
		out = append(out, state+" "+strings.Join(frames, " < "))
	}
	sort.Strings(out)
	return strings.Join(out, " | ")
}

func renderValueBound(v float64, prec int) string {
	if v == math.MaxFloat64 {
		return "infinity"
	}
	if v == -math.MaxFloat64 {
		return "-infinity"
	}
	return strconv.FormatFloat(v, 'f', prec, 64)
}

func renderDurationBound(d time.Duration) string {
	if d == 0 {
		return "0"
	}
	if d == time.Duration(math.MaxInt64) {
		return "infinity"
	}
	if d == time.Duration(math.MinInt64) {
		return "-infinity"
	}
	return d.String()
}

// values of the hammer counter seen in decoded datagrams (per history)
var c13HammerSeen = map[[2]int64]int{} // (destination, value) -> times seen

func logEmits(cols []*sinkCollector, compact bool, maxPacket int, commonWant map[string]string, constructedLo int64, callHi map[string]int64, cids map[string]int, mu *sync.Mutex, log func(M)) {
	for si, c := range cols {
		for _, d := range c.take() {
			b, _, ok, why := decodeBatch(d, compact)
			ev := M{"e": "emit", "dest": si + 1, "len": len(d), "ok": ok, "why": why, "mets": []M{}, "common_ok": true, "alone_ok": true}
			if ok {
				// C12's proviso "provided each single metric fits on its own"
				sum, largest := 0, 0
				for _, m := range b.Metrics {
					n := encodedMetricLen(m, compact)
					sum += n
					if n > largest {
						largest = n
					}
				}
				ev["alone_ok"] = len(d)-sum+largest <= maxPacket
				ct := map[string]string{}
				for _, t := range b.CommonTags {
					ct[t.Name] = t.Value
				}
				cok := len(ct) == len(commonWant) && len(b.CommonTags) == len(commonWant)
				for k, v := range commonWant {
					if ct[k] != v {
						cok = false
					}
				}
				ev["common_ok"] = cok
				mets := []M{}
				for _, m := range b.Metrics {
					if strings.HasPrefix(m.Name, "tally.internal") {
						continue
					}
					if m.Name == "hammer.counter" {
						c13HammerSeen[[2]int64{int64(si), m.Value.Count}]++
						continue
					}
					k, v := metricKindValue(m)
					key := hx(m.Name) + "#" + v
					rel := "ok"
					mu.Lock()
					hi, seen := callHi[key]
					cid := cids[key]
					mu.Unlock()
					switch {
					case m.Timestamp < constructedLo:
						rel = "before-construction"
					case seen && m.Timestamp > hi:
						rel = "after-return"
					}
					mets = append(mets, M{"cid": cid, "name": hx(m.Name), "kind": k, "v": v, "tags": hexPairsTags(m.Tags), "ts": rel})
				}
				ev["mets"] = mets
			}
			log(ev)
		}
	}
}
