package main

import (
	"errors"
	"fmt"
	"io"
	"math"
	"sort"
	"strings"
	"sync"
	"time"

	tally "github.com/uber-go/tally/v4"

	"verif/harness/sched"
)

// ---------------------------------------------------------------------------
// Scenario description (shared by C01, C02, C07, C08, C09, C10).

// Op is one API call made by a scenario thread.
//
//	sub   H=new handle P=parent handle Name=subscope name | Tags
//	inc   H M V           h.Counter(M).Inc(V units)
//	upd   H M V           h.Gauge(M).Update(token V)
//	rec   H M V           h.Timer(M).Record(token V)
//	hrec  H M V           h.Histogram(M, buckets).RecordValue(token V)
//	get   H M K           obtain metric of kind K, log its identity (first-use races)
//	close H               h.Close()
//	rootclose             closer.Close()
//	pass                  one report pass (VerifReportOnce)
type Op struct {
	Op   string            `json:"op"`
	H    string            `json:"h,omitempty"`
	P    string            `json:"p,omitempty"`
	Name string            `json:"name,omitempty"`
	Tags map[string]string `json:"tags,omitempty"`
	M    string            `json:"m,omitempty"`
	K    string            `json:"k,omitempty"`
	V    int64             `json:"v,omitempty"`
}

type ThreadSpec struct {
	Name string `json:"name"`
	Ops  []Op   `json:"ops"`
}

type Scenario struct {
	Name      string       `json:"name"`
	Reporter  string       `json:"reporter"` // plain | cached
	Closer    bool         `json:"closer"`   // reporter implements io.Closer
	CloseErr  bool         `json:"close_err"`
	Loop      bool         `json:"loop"` // root created with an interval: report loop goroutine, ticks driven by the scheduler
	MaxTicks  int          `json:"max_ticks"`
	Shards    int          `json:"shards"`
	Mod       int          `json:"mod"` // 0: increments are plain ints; 8: scaled by 2^61 (Z/8 arithmetic, int64 wrap-around)
	Gauge     string       `json:"gauge_table"`
	Threads   []ThreadSpec `json:"threads"`
	Quiet     []string     `json:"quiet"`     // points that are not scheduling choices
	Points    []string     `json:"points"`    // when set: the only points that are scheduling choices
	Internal  bool         `json:"internal"`  // cardinality metrics on
	NoQuiesce bool         `json:"noquiesce"` // do not run the final quiescent pass
	Sanitize  bool         `json:"sanitize"`  // root created with SanitizeOptions (alphanumeric and '_', replacement '_'): tag keys / values given to Tagged are rewritten
}

// gauge payload tables: token -> float64 bit pattern
var gaugeTables = map[string][]uint64{
	"plain": {math.Float64bits(0), math.Float64bits(1.5), math.Float64bits(2.5), math.Float64bits(3.5), math.Float64bits(-7.25)},
	"nan":   {math.Float64bits(0), 0x7ff8000000000001, 0x7ff8000000000002, 0x7ff0000000000000, 0xfff0000000000000},
	"tiny":  {math.Float64bits(0), 0x8000000000000000, 0x0000000000000001, 0x8000000000000001, 0x000fffffffffffff},
	"snan":  {math.Float64bits(0), 0x7ff0000000000001, 0xfff4000000000000, 0x7fefffffffffffff, 0xffefffffffffffff},
}

var timerTable = []time.Duration{0, 1, -5, time.Duration(math.MinInt64), time.Duration(math.MaxInt64), time.Second, 1500 * time.Millisecond}

// ---------------------------------------------------------------------------

type coreRun struct {
	sc            *Scenario
	s             *sched.Sched
	mu            sync.Mutex
	ev            []M
	root          tally.Scope
	closer        io.Closer
	objIDs        map[tally.Scope]int
	mobj          map[interface{}]int
	ticker        *time.Ticker
	passN         map[string]int
	inPass        map[string]string
	ticks         int
	curOp         map[string]string
	curObj        map[string]int
	rootDone      bool
	rcloseBy      string
	rcloseN       int
	bounds        map[string]*boundsSeen
	rootCloseUsed bool
	gtab          []uint64
	panics        []string
}

func (r *coreRun) log(m M) {
	r.mu.Lock()
	r.ev = append(r.ev, m)
	r.mu.Unlock()
}

func renderID(name string, tags map[string]string) string {
	if len(tags) == 0 {
		return name
	}
	ks := make([]string, 0, len(tags))
	for k := range tags {
		ks = append(ks, k)
	}
	sort.Strings(ks)
	var b strings.Builder
	b.WriteString(name)
	b.WriteByte('{')
	for i, k := range ks {
		if i > 0 {
			b.WriteByte(',')
		}
		b.WriteString(k)
		b.WriteByte('=')
		b.WriteString(tags[k])
	}
	b.WriteByte('}')
	return b.String()
}

func (r *coreRun) units(v int64) int64 {
	if r.sc.Mod == 8 {
		return v >> 61
	}
	return v
}

func (r *coreRun) concrete(v int64) int64 {
	if r.sc.Mod == 8 {
		return v << 61
	}
	return v
}

func (r *coreRun) gaugeTok(f float64) int {
	b := math.Float64bits(f)
	for i, x := range r.gtab {
		if x == b {
			return i
		}
	}
	return -99
}

func timerTok(d time.Duration) int {
	for i, x := range timerTable {
		if x == d {
			return i
		}
	}
	return -99
}

// reporterCall is invoked by the recording reporters for every call they receive.
func (r *coreRun) reporterCall(kind, name string, tags map[string]string, i int64, f float64, d time.Duration) {
	plainTimer := kind == "ptimer"
	if plainTimer {
		kind = "timer"
	}
	if r.s != nil {
		// every reporter call is its own action (a pass can be held inside a slow reporter); the step carries the
		// delivered value in model units (step-level replay compares it with the model's)
		var a int64
		switch kind {
		case "counter":
			a = r.units(i)
		case "gauge":
			a = int64(r.gaugeTok(f))
		}
		r.s.Hook("rp_"+kind, nil, a, 0)
	}
	t := ""
	if r.s != nil {
		t = r.s.Current
	}
	if strings.HasPrefix(name, "tally.internal.") || strings.HasPrefix(tags["\x00name"], "tally.internal.") {
		r.log(M{"e": "internal", "k": kind, "name": name, "t": t}) // the library's own cardinality gauges: not user metrics
		return
	}
	// own: the call is made by one of the library's own passes (report loop, Close), not by a pass that a scenario
	// thread drives through the test entry point (what "after Close has returned" speaks about)
	own := true
	if r.s != nil {
		r.mu.Lock()
		own = t == "loop" || r.curOp[t] == "rootclose"
		r.mu.Unlock()
	}
	switch kind {
	case "counter":
		r.log(M{"e": "dlv", "k": "counter", "t": t, "id": renderID(name, tags), "v": r.units(i), "own": own})
	case "gauge":
		r.log(M{"e": "dlv", "k": "gauge", "t": t, "id": renderID(name, tags), "v": r.gaugeTok(f), "own": own})
	case "timer":
		// wrongpath: "the cached path taking precedence over the plain path" - a root configured with both reporters
		// forwards its timers through the cached handle
		r.log(M{"e": "dlv", "k": "timer", "t": t, "id": renderID(name, tags), "v": timerTok(d), "wrongpath": plainTimer && r.sc.Reporter == "both"})
	case "hist":
		r.log(M{"e": "dlv", "k": "counter", "t": t, "id": renderID(name, tags) + fmt.Sprintf("[%v]", f), "v": i, "own": own})
	case "flush":
		r.log(M{"e": "flush", "t": t, "own": own})
	case "rclose":
		r.rcloseBy = t
		r.rcloseN++
		r.log(M{"e": "rclose", "t": t})
	case "alloc":
		r.mu.Lock()
		o := r.curObj[t]
		r.mu.Unlock()
		r.log(M{"e": "alloc", "t": t, "k": name, "id": renderID(tags["\x00name"], stripName(tags)), "o": o})
	}
}

type boundsSeen struct {
	kind string
	ups  []uint64
}

func (r *coreRun) noteBound(id, kind string, bits uint64, isMax bool) {
	r.mu.Lock()
	defer r.mu.Unlock()
	if r.bounds == nil {
		r.bounds = map[string]*boundsSeen{}
	}
	b := r.bounds[id]
	if b == nil {
		b = &boundsSeen{kind: kind}
		r.bounds[id] = b
	}
	b.kind = kind
	if !isMax {
		b.ups = append(b.ups, bits)
	}
}

func stripName(t map[string]string) map[string]string {
	c := map[string]string{}
	for k, v := range t {
		if k != "\x00name" {
			c[k] = v
		}
	}
	return c
}

// plain reporter
type coreReporter struct{ r *coreRun }

func (p *coreReporter) ReportCounter(name string, tags map[string]string, v int64) {
	p.r.reporterCall("counter", name, tags, v, 0, 0)
}
func (p *coreReporter) ReportGauge(name string, tags map[string]string, v float64) {
	p.r.reporterCall("gauge", name, tags, 0, v, 0)
}
func (p *coreReporter) ReportTimer(name string, tags map[string]string, d time.Duration) {
	p.r.reporterCall("ptimer", name, tags, 0, 0, d) // the plain reporter's ReportTimer
}
func (p *coreReporter) ReportHistogramValueSamples(name string, tags map[string]string, b tally.Buckets, lo, hi float64, n int64) {
	p.r.reporterCall("hist", name, tags, n, hi, 0)
}
func (p *coreReporter) ReportHistogramDurationSamples(name string, tags map[string]string, b tally.Buckets, lo, hi time.Duration, n int64) {
	p.r.reporterCall("hist", name, tags, n, float64(hi), 0)
}
func (p *coreReporter) Capabilities() tally.Capabilities { return capsRT{} }
func (p *coreReporter) Flush()                           { p.r.reporterCall("flush", "", nil, 0, 0, 0) }

type coreReporterCloser struct {
	coreReporter
	err error
}

func (p *coreReporterCloser) Close() error {
	p.r.reporterCall("rclose", "", nil, 0, 0, 0)
	return p.err
}

// cached reporter
type coreCached struct{ r *coreRun }

type coreHandle struct {
	r    *coreRun
	name string
	tags map[string]string
	hi   float64
}

func (h *coreHandle) ReportCount(v int64)         { h.r.reporterCall("counter", h.name, h.tags, v, 0, 0) }
func (h *coreHandle) ReportGauge(v float64)       { h.r.reporterCall("gauge", h.name, h.tags, 0, v, 0) }
func (h *coreHandle) ReportTimer(d time.Duration) { h.r.reporterCall("timer", h.name, h.tags, 0, 0, d) }
func (h *coreHandle) ReportSamples(v int64)       { h.r.reporterCall("hist", h.name, h.tags, v, h.hi, 0) }

type coreHist struct {
	r    *coreRun
	name string
	tags map[string]string
}

func (h *coreHist) ValueBucket(lo, hi float64) tally.CachedHistogramBucket {
	h.r.noteBound(renderID(h.name, h.tags), "value", math.Float64bits(hi), hi == math.MaxFloat64)
	return &coreHandle{r: h.r, name: h.name, tags: h.tags, hi: hi}
}
func (h *coreHist) DurationBucket(lo, hi time.Duration) tally.CachedHistogramBucket {
	h.r.noteBound(renderID(h.name, h.tags), "duration", uint64(hi), hi == math.MaxInt64)
	return &coreHandle{r: h.r, name: h.name, tags: h.tags, hi: float64(hi)}
}

func (c *coreCached) alloc(kind, name string, tags map[string]string) map[string]string {
	t := copyTags(tags)
	a := copyTags(tags)
	if a == nil {
		a = map[string]string{}
	}
	a["\x00name"] = name
	c.r.reporterCall("alloc", kind, a, 0, 0, 0)
	return t
}
func (c *coreCached) AllocateCounter(name string, tags map[string]string) tally.CachedCount {
	return &coreHandle{r: c.r, name: name, tags: c.alloc("counter", name, tags)}
}
func (c *coreCached) AllocateGauge(name string, tags map[string]string) tally.CachedGauge {
	return &coreHandle{r: c.r, name: name, tags: c.alloc("gauge", name, tags)}
}
func (c *coreCached) AllocateTimer(name string, tags map[string]string) tally.CachedTimer {
	return &coreHandle{r: c.r, name: name, tags: c.alloc("timer", name, tags)}
}
func (c *coreCached) AllocateHistogram(name string, tags map[string]string, b tally.Buckets) tally.CachedHistogram {
	return &coreHist{r: c.r, name: name, tags: c.alloc("histogram", name, tags)}
}
func (c *coreCached) Capabilities() tally.Capabilities { return capsRT{} }
func (c *coreCached) Flush()                           { c.r.reporterCall("flush", "", nil, 0, 0, 0) }

type coreCachedCloser struct {
	coreCached
	err error
}

func (c *coreCachedCloser) Close() error {
	c.r.reporterCall("rclose", "", nil, 0, 0, 0)
	return c.err
}

var errReporterClose = errors.New("reporter close failed")

// ---------------------------------------------------------------------------

type scopeInfo struct {
	s      tally.Scope
	prefix string
	tags   map[string]string
	inert  bool
	obj    int
}

var coreBuckets = tally.ValueBuckets{1, 2}

func (r *coreRun) objID(s tally.Scope) int {
	r.mu.Lock()
	defer r.mu.Unlock()
	if id, ok := r.objIDs[s]; ok {
		return id
	}
	id := len(r.objIDs) + 1
	r.objIDs[s] = id
	return id
}

func (r *coreRun) metricObj(x interface{}) int {
	r.mu.Lock()
	defer r.mu.Unlock()
	if id, ok := r.mobj[x]; ok {
		return id
	}
	id := len(r.mobj) + 1
	r.mobj[x] = id
	return id
}

func qualify(prefix, name string) string {
	if prefix == "" {
		return name
	}
	return prefix + "." + name
}

func mergeTags(a, b map[string]string) map[string]string {
	c := map[string]string{}
	for k, v := range a {
		c[k] = v
	}
	for k, v := range b {
		c[k] = v
	}
	return c
}

// thread body
func (r *coreRun) runThread(ts ThreadSpec) {
	defer func() {
		if e := recover(); e != nil {
			r.mu.Lock()
			r.panics = append(r.panics, fmt.Sprintf("%s: %v", ts.Name, e))
			r.mu.Unlock()
			r.log(M{"e": "panic", "t": ts.Name, "msg": fmt.Sprint(e)})
		}
	}()
	hs := map[string]*scopeInfo{"root": {s: r.root, obj: r.objID(r.root)}}
	// metric handles this thread obtained with "get": later operations of the thread on that metric go through the
	// handle it holds (what an application that keeps its handles does), not through a new lookup by name
	held := map[string]interface{}{}
	heldObj := map[string]int{} // the scope object a held handle was obtained from
	hk := func(op Op, kind string) string { return op.H + "\x00" + op.M + "\x00" + kind }
	for _, op := range ts.Ops {
		r.s.Yield("op_" + op.Op)
		r.mu.Lock()
		r.curOp[ts.Name] = op.Op
		r.mu.Unlock()
		h := hs[op.H]
		if h == nil && op.H != "" && op.Op != "sub" {
			h = hs["root"]
		}
		if h != nil {
			r.mu.Lock()
			r.curObj[ts.Name] = h.obj // the scope object this thread's operation is made on
			r.mu.Unlock()
		}
		switch op.Op {
		case "sub":
			p := hs[op.P]
			if p == nil {
				p = hs["root"]
			}
			r.log(M{"e": "subcall", "t": ts.Name, "po": p.obj})
			var ns tally.Scope
			ni := &scopeInfo{}
			if op.Tags != nil {
				ns = p.s.Tagged(op.Tags)
				tg := op.Tags
				if r.sc.Sanitize {
					tg = coreSanitizeMap(tg)
				}
				ni.prefix, ni.tags = p.prefix, mergeTags(p.tags, tg)
			} else {
				ns = p.s.SubScope(op.Name)
				ni.prefix, ni.tags = qualify(p.prefix, r.nm(op.Name)), p.tags
			}
			ni.s = ns
			// inert: the no-op scope itself, or anything derived from it (the no-op scope is a root of its own with a null reporter)
			ni.inert = ns == tally.NoopScope || p.inert
			ni.obj = r.objID(ns)
			hs[op.H] = ni
			r.log(M{"e": "subret", "t": ts.Name, "o": ni.obj, "id": renderID(ni.prefix, ni.tags), "inert": ni.inert})
		case "inc":
			c, ok := held[hk(op, "counter")].(tally.Counter)
			if !ok {
				c = h.s.Counter(op.M)
			}
			c.Inc(r.concrete(op.V))
			r.log(M{"e": "inc", "t": ts.Name, "id": renderID(qualify(h.prefix, r.nm(op.M)), h.tags), "o": h.obj, "v": op.V, "inert": h.inert})
		case "upd":
			g, ok := held[hk(op, "gauge")].(tally.Gauge)
			uo := h.obj
			if ok {
				uo = heldObj[hk(op, "gauge")] // a handle kept from an earlier incarnation of the scope stays bound to that one
			} else {
				g = h.s.Gauge(op.M)
			}
			id := renderID(qualify(h.prefix, r.nm(op.M)), h.tags)
			r.log(M{"e": "updcall", "t": ts.Name, "id": id, "v": int(op.V), "inert": h.inert, "o": uo})
			g.Update(math.Float64frombits(r.gtab[op.V]))
			r.log(M{"e": "updret", "t": ts.Name, "id": id, "inert": h.inert, "o": uo})
		case "rec":
			tm, ok := held[hk(op, "timer")].(tally.Timer)
			if !ok {
				tm = h.s.Timer(op.M)
			}
			id := renderID(qualify(h.prefix, r.nm(op.M)), h.tags)
			r.log(M{"e": "timercall", "t": ts.Name, "id": id, "v": int(op.V), "inert": h.inert})
			tm.Record(timerTable[op.V])
			r.log(M{"e": "timerret", "t": ts.Name})
		case "hrec":
			hg, ok := held[hk(op, "histogram")].(tally.Histogram)
			if !ok {
				hg = h.s.Histogram(op.M, coreBuckets)
			}
			hg.RecordValue(float64(op.V))
			up := math.MaxFloat64
			for _, b := range coreBuckets {
				if b >= float64(op.V) {
					up = b
					break
				}
			}
			r.log(M{"e": "inc", "t": ts.Name, "id": renderID(qualify(h.prefix, r.nm(op.M)), h.tags) + fmt.Sprintf("[%v]", up), "o": h.obj, "v": 1, "inert": h.inert})
		case "hnew":
			// create a histogram with the V-th specification of the colliding pool and log the bounds it really uses
			spec := c20Pool[op.V]
			tb := bucketTables[0]
			id := renderID(qualify(h.prefix, r.nm(op.M)), h.tags)
			h.s.Histogram(op.M, tb.buckets(spec))
			ws := append([]int{}, spec.Elems...)
			sort.Ints(ws)
			us := []int{}
			uk := "none"
			r.mu.Lock()
			if b := r.bounds[id]; b != nil {
				uk = b.kind
				for _, x := range b.ups {
					us = append(us, int(int64(x)))
				}
			}
			r.mu.Unlock()
			sort.Ints(us)
			r.log(M{"e": "histbounds", "t": ts.Name, "id": id, "wkind": spec.Kind, "wsorted": ws, "ukind": uk, "usorted": us})
		case "get":
			var x interface{}
			switch op.K {
			case "counter":
				x = h.s.Counter(op.M)
			case "gauge":
				x = h.s.Gauge(op.M)
			case "timer":
				x = h.s.Timer(op.M)
			case "histogram":
				x = h.s.Histogram(op.M, coreBuckets)
			case "scope":
				x = h.s.SubScope(op.M)
			}
			if op.K != "scope" {
				held[hk(op, op.K)] = x
				heldObj[hk(op, op.K)] = h.obj
			}
			r.log(M{"e": "got", "t": ts.Name, "k": op.K, "id": renderID(qualify(h.prefix, r.nm(op.M)), h.tags), "so": h.obj, "obj": r.metricObj(x)})
		case "close":
			r.log(M{"e": "closecall", "t": ts.Name, "o": h.obj})
			if c, ok := h.s.(io.Closer); ok {
				c.Close()
			}
			r.log(M{"e": "closeret", "t": ts.Name, "o": h.obj})
		case "rootclose":
			r.rootCloseUsed = true
			r.log(M{"e": "rootclosecall", "t": ts.Name})
			before := r.rcloseN
			err := r.closer.Close()
			closedReporter := r.rcloseN > before && r.rcloseBy == ts.Name
			ended := !r.sc.Loop || r.s.Finished("loop")
			r.log(M{"e": "rootcloseret", "t": ts.Name, "err": err != nil, "experr": r.sc.CloseErr && r.sc.Closer && closedReporter, "loopended": ended})
		case "pass":
			tally.VerifReportOnce(r.root)
		}
	}
}

// newCoreRun builds the root scope and threads of one execution.
func newCoreRun(sc *Scenario, withSched bool) *coreRun {
	r := &coreRun{sc: sc, objIDs: map[tally.Scope]int{}, mobj: map[interface{}]int{}, passN: map[string]int{}, inPass: map[string]string{}, curOp: map[string]string{}, curObj: map[string]int{}}
	r.gtab = gaugeTables[sc.Gauge]
	if r.gtab == nil {
		r.gtab = gaugeTables["plain"]
	}
	if withSched {
		r.s = sched.New()
		for _, q := range sc.Quiet {
			r.s.Quiet[q] = true
		}
		if sc.Points != nil {
			r.s.Interesting = map[string]bool{}
			for _, q := range sc.Points {
				r.s.Interesting[q] = true
			}
		}
		r.s.Terminal["rl_exit"] = true
		r.s.Adopt("rl_", "loop")
		r.s.Daemon["loop"] = true
		tally.VerifSetHook(r.s.Hook, nil)
		tally.VerifSetTickerHook(func(t *time.Ticker) {
			r.ticker = t
			t.Reset(time.Hour)
		})
		// wg.Wait in Close has no enabledness predicate: the closer is let into it and watched
		r.s.MayBlock["cl_wait"] = true
		// the loop goroutine at its select: a tick is taken only when the scheduler hands one out
		r.s.Override["rl_select"] = func() bool {
			return r.ticks < sc.MaxTicks || r.doneClosed()
		}
		r.s.ParkHook = func(thread, point string) {
			if thread == "loop" && r.ticker != nil {
				r.ticker.Reset(time.Hour) // no further tick until the scheduler hands one out
			}
		}
		r.s.StepHook = func(st sched.Step) {
			switch st.Point {
			case "rl_select":
				if r.doneClosed() {
					// done is closed: let the select see only that arm
					r.ticker.Reset(time.Hour)
				} else {
					r.ticks++
					r.ticker.Reset(time.Nanosecond)
				}
			case "cl_done":
				r.mu.Lock()
				isRootClose := r.curOp[st.Thread] == "rootclose"
				r.mu.Unlock()
				if isRootClose {
					r.rootDone = true
				}
			case "rr_begin":
				r.passN[st.Thread]++
				p := fmt.Sprintf("%s#%d", st.Thread, r.passN[st.Thread])
				r.inPass[st.Thread] = p
				r.log(M{"e": "passb", "p": p, "t": st.Thread})
			case "rr_end":
				r.log(M{"e": "passe", "p": r.inPass[st.Thread], "t": st.Thread})
			}
		}
	}
	opts := tally.ScopeOptions{OmitCardinalityMetrics: !sc.Internal}
	if sc.Sanitize {
		vc := tally.ValidCharacters{Ranges: tally.AlphanumericRange, Characters: tally.UnderscoreCharacters}
		opts.SanitizeOptions = &tally.SanitizeOptions{NameCharacters: vc, KeyCharacters: vc, ValueCharacters: vc, ReplacementCharacter: '_'}
	}
	var cerr error
	if sc.CloseErr {
		cerr = errReporterClose
	}
	switch {
	case sc.Reporter == "both":
		// a root configured with a plain AND a cached reporter (legal): every value still reaches a reporter exactly once
		opts.Reporter = &coreReporter{r}
		opts.CachedReporter = &coreCached{r}
	case sc.Reporter == "cached" && sc.Closer:
		opts.CachedReporter = &coreCachedCloser{coreCached{r}, cerr}
	case sc.Reporter == "cached":
		opts.CachedReporter = &coreCached{r}
	case sc.Closer:
		opts.Reporter = &coreReporterCloser{coreReporter{r}, cerr}
	default:
		opts.Reporter = &coreReporter{r}
	}
	interval := time.Duration(0)
	if sc.Loop {
		interval = time.Hour
	}
	shards := sc.Shards
	if shards == 0 {
		shards = 1
	}
	r.root, r.closer = tally.VerifNewRootScope(opts, interval, uint(shards))
	if withSched {
		if sc.Loop {
			if err := r.s.WaitParked("loop"); err != nil {
				fatal("report loop goroutine did not reach its first hook: %v", err)
			}
		}
		for _, ts := range sc.Threads {
			ts := ts
			r.s.Go(ts.Name, func() { r.runThread(ts) })
		}
	}
	return r
}

func (r *coreRun) doneClosed() bool { return r.rootDone }

// nm is a metric / sub-scope name as the scenario's sanitizer leaves it
func (r *coreRun) nm(s string) string {
	if !r.sc.Sanitize {
		return s
	}
	return sanitizeOne(s)
}

func sanitizeOne(s string) string {
	for k := range coreSanitizeMap(map[string]string{s: ""}) {
		return k
	}
	return s
}

// coreSanitizeMap is the harness's own rendering of what the Sanitize scenarios' options do to a tag map
func coreSanitizeMap(m map[string]string) map[string]string {
	f := func(s string) string {
		b := []byte(s)
		for i, c := range b {
			if !(c >= 'a' && c <= 'z' || c >= 'A' && c <= 'Z' || c >= '0' && c <= '9' || c == '_') {
				b[i] = '_'
			}
		}
		return string(b)
	}
	out := map[string]string{}
	for k, v := range m {
		out[f(k)] = f(v)
	}
	return out
}
