package main

import (
	"flag"
	"fmt"
	"io"
	"math/rand"
	"path/filepath"
	"reflect"
	"sort"
	"strings"

	tally "github.com/uber-go/tally/v4"
)

// ---------------------------------------------------------------------------
// Abstract strings over the alphabet of KeyGen/ScopeNaming and their concretisations.

type strTable struct {
	name string
	m    map[byte]string // abstract char -> concrete bytes (order preserving, uniquely decodable)
}

var absAlphabet = []byte("+,.=_abc")

func mkTable(name string, over map[byte]string) *strTable {
	t := &strTable{name: name, m: map[byte]string{}}
	for _, c := range absAlphabet {
		t.m[c] = string([]byte{c})
	}
	for c, s := range over {
		t.m[c] = s
	}
	return t
}

var strTables = []*strTable{
	mkTable("ascii", nil),
	mkTable("utf8", map[byte]string{'a': "é", 'b': "日本", 'c': "🙂"}),
	mkTable("invalid", map[byte]string{'a': "\xc3", 'b': "\xfe", 'c': "\xff"}),
	mkTable("long", map[byte]string{'a': strings.Repeat("a", 40), 'b': strings.Repeat("b", 40), 'c': strings.Repeat("c", 40)}),
	// one rune per abstract character, the characters a sanitizer replaces are multi-byte: sanitizing SHRINKS the registry key
	mkTable("wide", map[byte]string{'+': "ü", ',': "日", '=': "🙂", 'c': "ç"}),
}

func (t *strTable) conc(s string) string {
	var b strings.Builder
	for i := 0; i < len(s); i++ {
		b.WriteString(t.m[s[i]])
	}
	return b.String()
}

func (t *strTable) concMap(m map[string]string) map[string]string {
	if m == nil {
		return nil
	}
	c := make(map[string]string, len(m))
	for k, v := range m {
		c[t.conc(k)] = t.conc(v)
	}
	return c
}

// abst decodes concrete bytes back to an abstract string ('?' for anything that is no image).
func (t *strTable) abst(s string) string {
	var b strings.Builder
	for len(s) > 0 {
		matched := false
		for _, c := range absAlphabet {
			img := t.m[c]
			if strings.HasPrefix(s, img) {
				b.WriteByte(c)
				s = s[len(img):]
				matched = true
				break
			}
		}
		if !matched {
			b.WriteByte('?')
			s = s[1:]
		}
	}
	return b.String()
}

func (t *strTable) abstMap(m map[string]string) map[string]string {
	c := make(map[string]string, len(m))
	for k, v := range m {
		c[t.abst(k)] = t.abst(v)
	}
	return c
}

// ---------------------------------------------------------------------------

type step struct {
	sub  bool
	name string
	tags map[string]string
}

type rootCfg struct {
	prefix string
	sep    string
	tags   map[string]string
	san    bool
}

// sanitizer of the naming scenarios: names allow a b . _ ; keys allow a b _ ; values allow a b c . _ ; replacement _
func sanTables(on bool) (n, k, v map[string]string) {
	n, k, v = map[string]string{}, map[string]string{}, map[string]string{}
	if !on {
		return
	}
	for _, c := range absAlphabet {
		s := string([]byte{c})
		if !strings.Contains("ab._", s) {
			n[s] = "_"
		}
		if !strings.Contains("ab_", s) {
			k[s] = "_"
		}
		if !strings.Contains("abc._", s) {
			v[s] = "_"
		}
	}
	return
}

func sanOptions(t *strTable) *tally.SanitizeOptions {
	// used with tables that map every abstract character to ONE rune (sanitizer semantics on arbitrary bytes belong to C06)
	mk := func(valid string) tally.ValidCharacters {
		return tally.ValidCharacters{Characters: []rune(t.conc(valid))}
	}
	return &tally.SanitizeOptions{
		NameCharacters:       mk("ab._"),
		KeyCharacters:        mk("ab_"),
		ValueCharacters:      mk("abc._"),
		ReplacementCharacter: '_',
	}
}

func enumPrograms(steps []step, depth int) [][]step {
	out := [][]step{{}}
	var rec func(p []step)
	rec = func(p []step) {
		if len(p) == depth {
			return
		}
		for _, s := range steps {
			q := append(append([]step{}, p...), s)
			out = append(out, q)
			rec(q)
		}
	}
	rec(nil)
	return out
}

// keysCollide reports whether sanitizing the keys of m (per-char table) makes two keys equal: such maps
// have an iteration-order dependent meaning and are not generated.
func keysCollide(m map[string]string, tab map[string]string) bool {
	seen := map[string]bool{}
	for k := range m {
		var b strings.Builder
		for i := 0; i < len(k); i++ {
			if r, ok := tab[k[i:i+1]]; ok {
				b.WriteString(r)
			} else {
				b.WriteByte(k[i])
			}
		}
		if seen[b.String()] {
			return true
		}
		seen[b.String()] = true
	}
	return false
}

type namingRun struct {
	tr      *Trace
	t       *strTable
	path    string
	plain   *recReporter
	cached  *recCached
	root    tally.Scope
	ts      tally.TestScope
	handles []tally.Scope
}

func (n *namingRun) collect() []recCall {
	switch n.path {
	case "plain":
		tally.VerifReportOnce(n.root)
		return n.plain.take()
	case "cached":
		tally.VerifReportOnce(n.root)
		var out []recCall
		for _, c := range n.cached.take() {
			if !c.Alloc {
				out = append(out, c)
			}
		}
		return out
	}
	// test scope: snapshot
	var out []recCall
	sn := n.ts.Snapshot()
	for _, c := range sn.Counters() {
		out = append(out, recCall{Kind: "counter", Name: c.Name(), Tags: c.Tags(), I: c.Value()})
	}
	for _, g := range sn.Gauges() {
		out = append(out, recCall{Kind: "gauge", Name: g.Name(), Tags: g.Tags(), F: g.Value()})
	}
	for _, tm := range sn.Timers() {
		out = append(out, recCall{Kind: "timer", Name: tm.Name(), Tags: tm.Tags()})
	}
	for _, h := range sn.Histograms() {
		out = append(out, recCall{Kind: "hv", Name: h.Name(), Tags: h.Tags()})
	}
	return out
}

func init() {
	register("naming", "derivation programs on real scopes: names, tags, identity, key function (C04 C05)", func(args []string) {
		fs := flag.NewFlagSet("naming", flag.ExitOnError)
		cm := commonFlags(fs)
		mode := fs.String("mode", "c04", "c04 | c05")
		fs.Parse(args)
		rng := rand.New(rand.NewSource(cm.seed))
		thorough := cm.tier == "thorough"
		tr := NewTrace(filepath.Join(cm.out, "trace.ndjson"))
		cases, evals := 0, 0
		distinct := map[string]bool{}
		var samples []interface{}

		tm := func(kv ...string) map[string]string {
			m := map[string]string{}
			for i := 0; i+1 < len(kv); i += 2 {
				m[kv[i]] = kv[i+1]
			}
			return m
		}
		baseSteps := []step{
			{sub: true, name: "a"}, {sub: true, name: "b"}, {sub: true, name: ""}, {sub: true, name: "a.b"},
			{tags: tm()}, {tags: tm("a", "a")}, {tags: tm("a", "b")}, {tags: tm("b", "a")}, {tags: tm("a", "a", "b", "b")}, {tags: tm("b", "c", "a", "c")},
			// an empty VALUE is a value like any other: it overrides an inherited one
			{tags: tm("a", "")}, {tags: tm("b", "", "a", "c")},
		}
		sanSteps := append(append([]step{}, baseSteps...), step{sub: true, name: "c+a"}, step{tags: tm("c", "=")}, step{tags: tm("a.", "b,")},
			// keys that differ from an inherited key only before sanitizing: the later value must still win
			step{tags: tm("a_", "a")}, step{tags: tm("a+", "b")}, step{tags: tm("a,", "c", "b", "a")},
			// a value that shrinks when sanitized (multi-byte table) and the value made of its sanitized form plus the tail of the raw one
			step{tags: tm("b", "+a")}, step{tags: tm("b", "_aa")})
		delimSteps := []step{
			{sub: true, name: "a"}, {sub: true, name: "a+b"},
			{tags: tm("a", "a,b=b")}, {tags: tm("a", "a", "b", "b")}, {tags: tm("a=b", "c")}, {tags: tm("a", "b=c")},
			{tags: tm("", "a")}, {tags: tm("", "b")}, {tags: tm("a", "a")}, {tags: tm("b", "b")}, {tags: tm("a", "")},
		}
		roots := []rootCfg{
			{prefix: "", sep: "", tags: nil},
			{prefix: "a", sep: "", tags: tm("a", "c")},
			{prefix: "b.a", sep: "_", tags: tm("b", "b")},
			{prefix: "", sep: "..", tags: tm()},
		}
		depth := 2
		if thorough {
			depth = 3
		}

		runRoot := func(rc rootCfg, t *strTable, path string, steps []step, depth int, shards uint, doSame bool, label string) {
			n := &namingRun{tr: tr, t: t, path: path}
			opts := tally.ScopeOptions{Prefix: t.conc(rc.prefix), Separator: t.conc(rc.sep), Tags: t.concMap(rc.tags), OmitCardinalityMetrics: true}
			sn, sk, sv := sanTables(rc.san)
			if rc.san {
				opts.SanitizeOptions = sanOptions(t)
			}
			rootTagsCopy := t.concMap(rc.tags)
			switch path {
			case "plain":
				n.plain = &recReporter{}
				opts.Reporter = n.plain
				n.root, _ = tally.VerifNewRootScope(opts, 0, shards)
			case "cached":
				n.cached = &recCached{}
				opts.CachedReporter = n.cached
				n.root, _ = tally.VerifNewRootScope(opts, 0, shards)
			case "snap":
				// NewTestScope takes prefix and tags only (default separator, no sanitizer)
				n.ts = tally.VerifNewTestScope(t.conc(rc.prefix), t.concMap(rc.tags), shards)
				n.root = n.ts
			}
			tagsArg := rc.tags
			if tagsArg == nil {
				tagsArg = map[string]string{}
			}
			tr.Emit(M{"e": "root", "prefix": rc.prefix, "sep": rc.sep, "tags": tagsArg, "san": M{"n": sn, "k": sk, "v": sv}, "table": t.name, "path": path, "shards": shards, "label": label})
			progs := enumPrograms(steps, depth)
			n.handles = []tally.Scope{n.root}
			var callerMaps []map[string]string
			var callerCopies []map[string]string
			type hinfo struct{ prog string }
			nextH := 1
			progHandle := make([]int, len(progs))
			progParent := make([]int, len(progs)) // the handle the program's last step was applied to
			lastIsSub := make([]bool, len(progs))
			for pi, prog := range progs {
				cur := 0
				curScope := n.root
				for _, st := range prog {
					progParent[pi] = cur
					lastIsSub[pi] = st.sub
					h := nextH
					nextH++
					if st.sub {
						curScope = curScope.SubScope(t.conc(st.name))
						tr.Emit(M{"e": "sub", "h": h, "p": cur, "name": st.name})
					} else {
						if keysCollide(st.tags, sk) {
							curScope = nil
							break
						}
						arg := t.concMap(st.tags)
						callerMaps = append(callerMaps, arg)
						callerCopies = append(callerCopies, t.concMap(st.tags))
						curScope = curScope.Tagged(arg)
						tr.Emit(M{"e": "tag", "h": h, "p": cur, "tags": st.tags})
					}
					n.handles = append(n.handles, curScope)
					cur = h
				}
				if curScope == nil {
					progHandle[pi] = -1
					continue
				}
				progHandle[pi] = cur
			}
			// record one metric of each kind through the final handle of every program and look at what arrives
			kinds := []string{"counter", "gauge", "timer", "histogram"}
			for pi := range progs {
				h := progHandle[pi]
				if h < 0 {
					continue
				}
				sc := n.handles[h]
				kind := kinds[pi%len(kinds)]
				mname := []string{"a", "b.a", "c"}[pi%3]
				if !rc.san && mname == "c" {
					mname = "a_b"
				}
				n.collect() // drain
				if path == "snap" {
					// snapshots are cumulative: use a metric name unique to this program
					mname = fmt.Sprintf("%s_%s", mname, strings.Repeat("a", pi%7)+strings.Repeat("b", pi/7))
				}
				switch kind {
				case "counter":
					sc.Counter(t.conc(mname)).Inc(1)
				case "gauge":
					sc.Gauge(t.conc(mname)).Update(1)
				case "timer":
					sc.Timer(t.conc(mname)).Record(1)
				case "histogram":
					sc.Histogram(t.conc(mname), tally.ValueBuckets{1}).RecordValue(0)
				}
				var got *recCall
				want := map[string]string{"counter": "counter", "gauge": "gauge", "timer": "timer", "histogram": "hv"}[kind]
				if path == "cached" && kind != "timer" {
					// names and tags of cached metrics are those of the Allocate* call
				}
				for _, c := range n.collect() {
					c := c
					if c.Kind == want && (path != "snap" || t.abst(c.Name) == expectedSuffix(t.abst(c.Name), mname)) {
						got = &c
					}
				}
				if got == nil {
					tr.Emit(M{"e": "metric", "h": h, "kind": kind, "name": mname, "path": path, "got_name": "<nothing delivered>", "got_tags": M{}})
				} else {
					gt := t.abstMap(got.Tags)
					tr.Emit(M{"e": "metric", "h": h, "kind": kind, "name": mname, "path": path, "got_name": t.abst(got.Name), "got_tags": gt})
				}
				evals++
			}
			// the library must not have modified the maps it was given
			mutated := false
			for i := range callerMaps {
				if !reflect.DeepEqual(callerMaps[i], callerCopies[i]) {
					mutated = true
				}
			}
			if rootTagsCopy != nil && !reflect.DeepEqual(opts.Tags, rootTagsCopy) {
				mutated = true
			}
			tr.Emit(M{"e": "caller", "mutated": mutated})
			// ... and mutating them afterwards must change nothing: re-record through a few handles
			for _, m := range callerMaps {
				for k := range m {
					m[k] = "mutated"
				}
				m["zz"] = "added"
			}
			if opts.Tags != nil {
				opts.Tags["zz"] = "added"
			}
			if path != "snap" {
				for pi := 0; pi < len(progs); pi += 5 {
					h := progHandle[pi]
					if h < 0 {
						continue
					}
					n.collect()
					n.handles[h].Counter(t.conc("b")).Inc(1)
					for _, c := range n.collect() {
						if c.Kind == "counter" {
							tr.Emit(M{"e": "metric", "h": h, "kind": "counter", "name": "b", "path": path, "got_name": t.abst(c.Name), "got_tags": t.abstMap(c.Tags), "after_mutation": true})
							evals++
						}
					}
				}
			}
			// a snapshot hands out copies: editing the tag maps of its entries changes nothing for the scopes (the tags
			// delivered for one scope never change over its lifetime)
			if path == "snap" {
				for _, c := range n.collect() {
					for k := range c.Tags {
						c.Tags[k] = t.conc("c") // every value overwritten
					}
					if c.Tags != nil {
						c.Tags[t.conc("b")] = t.conc("b")
					}
				}
				for pi := 0; pi < len(progs); pi += 3 {
					h := progHandle[pi]
					if h < 0 {
						continue
					}
					mname := fmt.Sprintf("c_%s", strings.Repeat("a", pi%7)+strings.Repeat("b", pi/7))
					n.handles[h].Counter(t.conc(mname)).Inc(1)
					for _, c := range n.collect() {
						if c.Kind == "counter" && t.abst(c.Name) == expectedSuffix(t.abst(c.Name), mname) {
							tr.Emit(M{"e": "metric", "h": h, "kind": "counter", "name": mname, "path": path, "got_name": t.abst(c.Name), "got_tags": t.abstMap(c.Tags), "after_snapshot_edit": true})
							evals++
						}
					}
				}
			}
			// "the tags delivered for one scope never change over its lifetime": some scopes obtained with SubScope (which
			// add no tags of their own) are closed and retired by a report pass; what their parents, and every other
			// scope that is still alive, deliver afterwards still follows their derivation
			if path != "snap" {
				closedObj := map[tally.Scope]bool{}
				var parents []int
				for pi := range progs {
					h := progHandle[pi]
					if h < 0 || !lastIsSub[pi] || pi%3 != 1 || n.handles[h] == n.root || closedObj[n.handles[h]] {
						continue
					}
					if cl, ok := n.handles[h].(io.Closer); ok {
						cl.Close()
						closedObj[n.handles[h]] = true
						parents = append(parents, progParent[pi])
					}
				}
				n.collect() // the pass that retires the closed scopes
				again := append([]int{0}, parents...)
				for pi := 0; pi < len(progs); pi += 4 {
					if progHandle[pi] >= 0 {
						again = append(again, progHandle[pi])
					}
				}
				seenH := map[int]bool{}
				for _, h := range again {
					if seenH[h] || closedObj[n.handles[h]] {
						continue
					}
					seenH[h] = true
					n.collect()
					n.handles[h].Counter(t.conc("b")).Inc(1)
					for _, c := range n.collect() {
						if c.Kind == "counter" {
							tr.Emit(M{"e": "metric", "h": h, "kind": "counter", "name": "b", "path": path, "got_name": t.abst(c.Name), "got_tags": t.abstMap(c.Tags), "after_close": true})
							evals++
						}
					}
				}
			}
			if doSame {
				// object identity for all pairs of programs
				ctr := make([]tally.Counter, len(n.handles))
				for pi := range progs {
					if h := progHandle[pi]; h >= 0 {
						ctr[h] = n.handles[h].Counter(t.conc("x"))
					}
				}
				for i := range progs {
					for j := i + 1; j < len(progs); j++ {
						a, b := progHandle[i], progHandle[j]
						if a < 0 || b < 0 {
							continue
						}
						tr.Emit(M{"e": "same", "a": a, "b": b, "same_scope": n.handles[a] == n.handles[b], "same_metric": ctr[a] == ctr[b], "crosstalk": false})
						evals++
					}
				}
			}
			cases++
			distinct[fmt.Sprint(rc, t.name, path, shards, label)] = true
			if len(samples) < 6 {
				samples = append(samples, M{"root": fmt.Sprint(rc), "table": t.name, "path": path, "programs": len(progs), "shards": shards})
			}
		}

		switch *mode {
		case "c04":
			for ri, rc := range roots {
				for ti, t := range strTables {
					for pi, path := range []string{"plain", "cached", "snap"} {
						if !thorough && (ri+ti+pi)%2 == 1 {
							continue
						}
						if path == "snap" && rc.sep != "" {
							continue
						}
						runRoot(rc, t, path, baseSteps, depth, 1+uint(rng.Intn(4)), false, "")
					}
				}
			}
			// with a sanitizer (ascii table): names, keys and values are first mapped through the per-character table
			for rep := 0; rep < 3; rep++ { // repeated: what a sanitized merge does with colliding keys depends on map iteration order
				for _, rc := range []rootCfg{{prefix: "c+", sep: "", tags: tm("c", "+", "a.", "c"), san: true}, {prefix: "a", sep: ",", tags: nil, san: true}} {
					for _, path := range []string{"plain", "cached"} {
						runRoot(rc, strTables[0], path, sanSteps, 2, 2, false, fmt.Sprint("sanitizer", rep))
						if rep == 0 {
							runRoot(rc, strTables[4], path, sanSteps, 2, 1, false, "sanitizer-wide")
						}
					}
				}
			}
		case "c05":
			shardsList := []uint{1, 2, 7, 64}
			for i, rc := range roots[:3] {
				for _, path := range []string{"plain", "cached"} {
					runRoot(rc, strTables[i%len(strTables)], path, baseSteps, 2, shardsList[(i+len(path))%4], true, "")
				}
			}
			// identities that differ only in the placement of the key format's delimiter characters, and empty keys
			for _, sh := range shardsList[:2] {
				runRoot(rootCfg{prefix: "", sep: ""}, strTables[0], "plain", delimSteps, 2, sh, true, "delims")
			}
			// the public key function on all (prefix, map, map) of a small domain
			strs := []string{"", "a", "b", "=", ",", "+", "a=", ",b"}
			var maps []map[string]string
			maps = append(maps, tm())
			for _, k := range strs {
				for _, v := range strs[:5] {
					maps = append(maps, tm(k, v))
				}
			}
			for i := 0; i < 40; i++ {
				k1, k2 := strs[rng.Intn(len(strs))], strs[rng.Intn(len(strs))]
				if k1 != k2 {
					maps = append(maps, tm(k1, strs[rng.Intn(5)], k2, strs[rng.Intn(5)]))
				}
			}
			tr.Emit(M{"e": "root", "prefix": "", "sep": "", "tags": M{}, "san": M{"n": M{}, "k": M{}, "v": M{}}, "label": "keyfn"})
			for _, p := range []string{"", "a", "a+b", "="} {
				for i, m1 := range maps {
					step := 7
					if thorough {
						step = 1
					}
					for j := i % step; j < len(maps); j += step {
						m2 := maps[j]
						got := tally.KeyForPrefixedStringMap(p, mergeTags(m1, m2))
						tr.Emit(M{"e": "key", "prefix": p, "maps": []map[string]string{mergeTags(m1, m2)}, "got": got})
						evals++
					}
					if p == "" {
						tr.Emit(M{"e": "key", "prefix": "", "maps": []map[string]string{m1}, "got": tally.KeyForStringMap(m1)})
					}
				}
			}
			cases++
		}
		tr.Close()
		_ = sort.Strings
		writeMeta(cm.out, M{"cases": cases, "events": tr.N, "evals": evals, "distinct": len(distinct), "samples": samples})
	})
}

// expectedSuffix: for the cumulative test-scope snapshot pick the entry whose name ends with the metric name used now.
func expectedSuffix(full, mname string) string {
	if strings.HasSuffix(full, mname) {
		return full
	}
	return ""
}
