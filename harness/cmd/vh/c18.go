package main

import (
	"errors"
	"flag"
	"fmt"
	"math"
	"math/rand"
	"path/filepath"
	"strconv"
	"strings"
	"sync"
	"time"

	cstatsd "github.com/cactus/go-statsd-client/v5/statsd"
	tally "github.com/uber-go/tally/v4"
	tstatsd "github.com/uber-go/tally/v4/statsd"
)

type statCall struct {
	M    string   `json:"m"`
	Stat []string `json:"stat"`
	V    string   `json:"v"`
	Rate string   `json:"rate"`
	raw  string
}

// recStatter is a recording statsd client.
type recStatter struct {
	mu    sync.Mutex
	calls []statCall
	fail  int // the next `fail` calls are recorded and then answered with an error
}

var errStatter = errors.New("statsd client: send failed")

func rateStr(r float32) string { return strconv.FormatFloat(float64(r), 'g', -1, 32) }

func (s *recStatter) add(m, stat string, v int64, rate float32) error {
	s.mu.Lock()
	defer s.mu.Unlock()
	s.calls = append(s.calls, statCall{M: m, raw: stat, V: fmt.Sprint(v), Rate: rateStr(rate)})
	if s.fail > 0 {
		s.fail--
		return errStatter
	}
	return nil
}
func (s *recStatter) Inc(stat string, v int64, rate float32, _ ...cstatsd.Tag) error {
	return s.add("Inc", stat, v, rate)
}
func (s *recStatter) Dec(stat string, v int64, rate float32, _ ...cstatsd.Tag) error {
	return s.add("Dec", stat, v, rate)
}
func (s *recStatter) Gauge(stat string, v int64, rate float32, _ ...cstatsd.Tag) error {
	return s.add("Gauge", stat, v, rate)
}
func (s *recStatter) GaugeDelta(stat string, v int64, rate float32, _ ...cstatsd.Tag) error {
	return s.add("GaugeDelta", stat, v, rate)
}
func (s *recStatter) Timing(stat string, v int64, rate float32, _ ...cstatsd.Tag) error {
	return s.add("Timing", stat, v, rate)
}
func (s *recStatter) TimingDuration(stat string, d time.Duration, rate float32, _ ...cstatsd.Tag) error {
	return s.add("TimingDuration", stat, int64(d), rate)
}
func (s *recStatter) Set(stat string, v string, rate float32, _ ...cstatsd.Tag) error {
	s.calls = append(s.calls, statCall{M: "Set", raw: stat, V: v, Rate: rateStr(rate)})
	return nil
}
func (s *recStatter) SetInt(stat string, v int64, rate float32, _ ...cstatsd.Tag) error {
	return s.add("SetInt", stat, v, rate)
}
func (s *recStatter) Raw(stat string, v string, rate float32, _ ...cstatsd.Tag) error {
	s.calls = append(s.calls, statCall{M: "Raw", raw: stat, V: v, Rate: rateStr(rate)})
	return nil
}
func (s *recStatter) NewSubStatter(string) cstatsd.SubStatter { return nil }
func (s *recStatter) SetPrefix(string)                        {}
func (s *recStatter) Close() error                            { return nil }

func init() {
	register("c18", "statsd reporter over a recording client (C18)", func(args []string) {
		fs := flag.NewFlagSet("c18", flag.ExitOnError)
		cm := commonFlags(fs)
		fs.Parse(args)
		rng := rand.New(rand.NewSource(cm.seed))
		thorough := cm.tier == "thorough"
		tr := NewTrace(filepath.Join(cm.out, "trace.ndjson"))
		const K = 4
		vts := valueTables(K, rng, thorough)
		dts := durTables(K, rng, thorough)
		specs := enumSpecs(K, 3)
		precs := []uint{0, 1, 2, 6, 12}
		if thorough {
			precs = []uint{0, 1, 2, 3, 4, 5, 6, 7, 8, 9, 10, 11, 12}
		}
		rates := []float32{0, 1, 0.5, 1e-6}
		evals, cases := 0, 0
		distinct := map[string]bool{}
		var samples []interface{}
		names := []string{"n", "a.b", "", "x-y", "used%", "100%busy%s"}
		hnames := []string{"h", "disk.used%", "a%%b", "h%d.%s"}
		ivals := []int64{0, 1, -1, math.MaxInt64, math.MinInt64, 123456789}
		gvals := []float64{0, 1.5, -1.5, 2.999999, -0.4, 1e15 + 0.5, -9007199254740993, 5e-324, 5, 5, 7, 7.5, 0.2, -0.3, 0}
		for pi, prec := range precs {
			for ri, rate := range rates {
				st := &recStatter{}
				rep := tstatsd.NewReporter(st, tstatsd.Options{SampleRate: rate, HistogramBucketNamePrecision: prec})
				cfgRate := rateStr(rate)
				if rate == 0 {
					cfgRate = "unset"
				}
				effPrec := prec
				if prec == 0 {
					effPrec = tstatsd.DefaultHistogramBucketNamePrecision
				}
				caps := rep.Capabilities()
				tr.Emit(M{"e": "caps", "reporting": caps.Reporting(), "tagging": caps.Tagging()})
				emitReport := func(kind, name, v, trunc string, lo, hi interface{}) {
					calls := st.calls
					st.calls = nil
					for i := range calls {
						if calls[i].Stat == nil {
							calls[i].Stat = []string{calls[i].raw}
						}
					}
					tr.Emit(M{"e": "report", "kind": kind, "name": name, "v": v, "trunc": trunc, "lo": lo, "hi": hi, "rate": cfgRate, "calls": calls})
					evals++
				}
				tags := map[string]string{"ignored": "tag"}
				for _, n := range names {
					for vi, v := range ivals {
						if vi%3 == 1 {
							st.fail = 1 // the client fails this call: the next report of the same stat is still forwarded as it is
						}
						rep.ReportCounter(n, tags, v)
						emitReport("counter", n, fmt.Sprint(v), "", 0, 0)
						rep.ReportTimer(n, tags, time.Duration(v))
						emitReport("timer", n, fmt.Sprint(v), "", 0, 0)
					}
					for _, g := range gvals {
						rep.ReportGauge(n, nil, g)
						emitReport("gauge", n, "", strconv.FormatInt(int64(math.Trunc(g)), 10), 0, 0)
					}
				}
				// histogram buckets: every pair produced by BucketPairs for every spec, under the tables whose
				// bounds render to distinct strings at this precision (the property's premise)
				for si, sp := range specs {
					if !thorough && (si+pi+ri)%4 != 0 {
						continue
					}
					vt := vts[(si+ri)%len(vts)]
					dt := dts[(si+pi)%len(dts)]
					for _, kind := range []string{"value", "duration"} {
						render := map[string]int{}
						ok := true
						strOf := map[int]string{}
						for tok := 1; tok <= K; tok++ {
							var s string
							if kind == "value" {
								s = strconv.FormatFloat(vt.b[tok], 'f', int(effPrec), 64)
							} else {
								s = dt.b[tok].String()
							}
							if _, dup := render[s]; dup || s == "infinity" || s == "-infinity" {
								ok = false
							}
							render[s] = tok
							strOf[tok] = s
						}
						if !ok {
							continue // bounds do not differ at this precision: outside the premise
						}
						hname := hnames[(si+pi)%len(hnames)]
						hc := &histCase{kind: kind, spec: sp, vt: vt, dt: dt}
						pairs := tally.BucketPairs(hc.buckets())
						var stats [][]interface{}
						for _, p := range pairs {
							var lo, hi int
							if kind == "value" {
								lo, hi = vt.boundTok(p.LowerBoundValue()), vt.boundTok(p.UpperBoundValue())
								rep.ReportHistogramValueSamples(hname, tags, hc.buckets(), p.LowerBoundValue(), p.UpperBoundValue(), 3)
							} else {
								lo, hi = dt.boundTok(p.LowerBoundDuration()), dt.boundTok(p.UpperBoundDuration())
								rep.ReportHistogramDurationSamples(hname, tags, hc.buckets(), p.LowerBoundDuration(), p.UpperBoundDuration(), 3)
							}
							// tokenise the stat name: h.<lo>-<hi>
							for i := range st.calls {
								st.calls[i].Stat = []string{"?", "?", "?"}
								cands := map[string]string{"-infinity": "-infinity", "infinity": "infinity"}
								for tok, s := range strOf {
									cands[s] = fmt.Sprint(tok)
								}
								for ls, lt := range cands {
									for hs, ht := range cands {
										if st.calls[i].raw == hname+"."+ls+"-"+hs {
											st.calls[i].Stat = []string{hname, lt, ht}
										}
									}
								}
							}
							if len(st.calls) > 0 {
								stats = append(stats, []interface{}{lo, hi, st.calls[0].Stat})
							}
							emitReport("bucket", hname, "3", "", lo, hi)
						}
						tr.Emit(M{"e": "hist", "kind": kind, "spec": sp, "stats": stats})
						cases++
						distinct[fmt.Sprint(kind, sp, prec)] = true
						if len(samples) < 4 && len(sp) == 3 {
							samples = append(samples, M{"kind": kind, "spec": sp, "precision": effPrec, "rate": cfgRate, "bounds": fmt.Sprint(hc.buckets())})
						}
					}
				}
			}
		}
		// one reporter used by several goroutines at the same time (two root scopes sharing it, overlapping passes):
		// every call still goes to exactly the stat its own arguments name; sent and received multisets are compared
		rounds := 4
		if thorough {
			rounds = 40
		}
		for round := 0; round < rounds; round++ {
			st := &recStatter{}
			rep := tstatsd.NewReporter(st, tstatsd.Options{})
			const G, per = 6, 3000
			want := map[string]int{}
			var wmu sync.Mutex
			var wg sync.WaitGroup
			for g := 0; g < G; g++ {
				g := g
				wg.Add(1)
				go func() {
					defer wg.Done()
					mine := map[string]int{}
					vb := tally.ValueBuckets{1, 2.5, 1000}
					db := tally.DurationBuckets{time.Second, 90 * time.Second, 2 * time.Hour}
					for i := 0; i < per; i++ {
						name := fmt.Sprintf("svc%d.h%d_%s", g, i%7, strings.Repeat("x", (g*5+i)%23))
						if i%2 == 0 {
							p := tally.BucketPairs(vb)[i%4]
							rep.ReportHistogramValueSamples(name, nil, vb, p.LowerBoundValue(), p.UpperBoundValue(), 1)
							mine[fmt.Sprintf("%s.%s-%s", name, c18Val(p.LowerBoundValue()), c18Val(p.UpperBoundValue()))]++
						} else {
							p := tally.BucketPairs(db)[i%4]
							rep.ReportHistogramDurationSamples(name, nil, db, p.LowerBoundDuration(), p.UpperBoundDuration(), 1)
							mine[fmt.Sprintf("%s.%s-%s", name, c18Dur(p.LowerBoundDuration()), c18Dur(p.UpperBoundDuration()))]++
						}
					}
					wmu.Lock()
					for k, v := range mine {
						want[k] += v
					}
					wmu.Unlock()
				}()
			}
			wg.Wait()
			got := map[string]int{}
			for _, c := range st.calls {
				got[c.raw]++
			}
			missing, unexpected := 0, 0
			for k, v := range want {
				if got[k] < v {
					missing += v - got[k]
				}
			}
			for k, v := range got {
				if want[k] < v {
					unexpected += v - want[k]
				}
			}
			tr.Emit(M{"e": "conc", "goroutines": G, "calls": G * per, "received": len(st.calls), "missing": missing, "unexpected": unexpected})
			evals += G * per
		}
		tr.Close()
		writeMeta(cm.out, M{"cases": cases, "events": tr.N, "evals": evals, "distinct": len(distinct), "samples": samples})
	})
}

// the harness's own rendering of bucket bounds in stat names (default precision 6; Go duration syntax)
func c18Val(v float64) string {
	switch {
	case v == math.MaxFloat64:
		return "infinity"
	case v == -math.MaxFloat64:
		return "-infinity"
	}
	return strconv.FormatFloat(v, 'f', 6, 64)
}

func c18Dur(d time.Duration) string {
	switch {
	case d == time.Duration(math.MaxInt64):
		return "infinity"
	case d == time.Duration(math.MinInt64):
		return "-infinity"
	}
	return d.String()
}
