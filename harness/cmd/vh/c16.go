package main

import (
	"errors"
	"flag"
	"fmt"
	"math"
	"math/rand"
	"path/filepath"
	"strings"
	"sync"

	tally "github.com/uber-go/tally/v4"
	"github.com/uber-go/tally/v4/m3"

	customtransport "github.com/uber-go/tally/v4/m3/customtransports"
	m3thrift "github.com/uber-go/tally/v4/m3/thrift/v2"
	"github.com/uber-go/tally/v4/thirdparty/github.com/apache/thrift/lib/go/thrift"
)

// C16: concrete metrics / batches are built for model-enumerated shapes (values at both ends of every
// varint length class, strings of arbitrary bytes), encoded through ONE reused protocol object per wire
// protocol, measured through ONE reused size-calculating protocol, and decoded again.

func zzLen64(v int64) int {
	u := uint64((v << 1) ^ (v >> 63))
	n := 1
	for u >= 0x80 {
		u >>= 7
		n++
	}
	return n
}

func zzLen32(v int32) int {
	u := uint32((v << 1) ^ (v >> 31))
	n := 1
	for u >= 0x80 {
		u >>= 7
		n++
	}
	return n
}

// a value whose zig-zag varint has exactly n bytes (low end, high end, either sign)
func int64OfClass(n int, rng *rand.Rand) int64 {
	var lo, hi uint64 // range of the zig-zag code
	if n == 1 {
		lo, hi = 0, 0x7f
	} else {
		lo = uint64(1) << uint(7*(n-1))
		if n == 10 {
			hi = math.MaxUint64
		} else {
			hi = (uint64(1) << uint(7*n)) - 1
		}
	}
	var u uint64
	switch rng.Intn(3) {
	case 0:
		u = lo
	case 1:
		u = hi
	default:
		u = lo + uint64(rng.Int63())%(hi-lo+1)
	}
	return int64(u>>1) ^ -int64(u&1)
}

func int32OfClass(n int, rng *rand.Rand) int32 {
	var lo, hi uint32
	if n == 1 {
		lo, hi = 0, 0x7f
	} else {
		lo = uint32(1) << uint(7*(n-1))
		if n == 5 {
			hi = math.MaxUint32
		} else {
			hi = (uint32(1) << uint(7*n)) - 1
		}
	}
	var u uint32
	switch rng.Intn(3) {
	case 0:
		u = lo
	case 1:
		u = hi
	default:
		u = lo + uint32(rng.Int63())%(hi-lo+1)
	}
	return int32(u>>1) ^ -int32(u&1)
}

func randBytes(n int, rng *rand.Rand) string {
	b := make([]byte, n)
	for i := range b {
		b[i] = byte(rng.Intn(256))
	}
	return string(b)
}

type tagShape struct {
	Set  bool     `json:"set"`
	List [][2]int `json:"list"`
}

type metricShape struct {
	Name  int      `json:"name"`
	Type  int      `json:"type"`
	Count int      `json:"count"`
	Timer int      `json:"timer"`
	Ts    int      `json:"ts"`
	Tags  tagShape `json:"tags"`
}

func buildTags(ts tagShape, rng *rand.Rand) []m3thrift.MetricTag {
	if !ts.Set {
		return nil
	}
	out := make([]m3thrift.MetricTag, 0, len(ts.List))
	for _, kv := range ts.List {
		out = append(out, m3thrift.MetricTag{Name: randBytes(kv[0], rng), Value: randBytes(kv[1], rng)})
	}
	return out
}

func buildMetric(sh metricShape, rng *rand.Rand) m3thrift.Metric {
	gauges := []float64{0, math.Copysign(0, -1), math.MaxFloat64, -math.MaxFloat64, math.Inf(1), math.Float64frombits(0x7ff8000000000001), math.SmallestNonzeroFloat64, 1.5}
	return m3thrift.Metric{
		Name: randBytes(sh.Name, rng),
		Value: m3thrift.MetricValue{MetricType: m3thrift.MetricType(int32OfClass(sh.Type, rng)), Count: int64OfClass(sh.Count, rng),
			Gauge: gauges[rng.Intn(len(gauges))], Timer: int64OfClass(sh.Timer, rng)},
		Timestamp: int64OfClass(sh.Ts, rng),
		Tags:      buildTags(sh.Tags, rng),
	}
}

func sameTagsList(a, b []m3thrift.MetricTag) bool {
	if len(a) != len(b) {
		return false
	}
	for i := range a {
		if a[i] != b[i] {
			return false
		}
	}
	return true
}

func sameMetric(a, b m3thrift.Metric) bool {
	return a.Name == b.Name && a.Timestamp == b.Timestamp && a.Value.MetricType == b.Value.MetricType && a.Value.Count == b.Value.Count &&
		a.Value.Timer == b.Value.Timer && math.Float64bits(a.Value.Gauge) == math.Float64bits(b.Value.Gauge) && sameTagsList(a.Tags, b.Tags) && (a.Tags == nil) == (b.Tags == nil)
}

// failAfter is a transport that accepts n bytes and then refuses everything (a message abandoned half-way)
type failAfter struct {
	thrift.TMemoryBuffer
	left int
}

var errRefused = errors.New("refused")

func (f *failAfter) Write(p []byte) (int, error) {
	if len(p) > f.left {
		f.left = 0
		return 0, errRefused
	}
	f.left -= len(p)
	return len(p), nil
}
func (f *failAfter) WriteByte(b byte) error            { _, err := f.Write([]byte{b}); return err }
func (f *failAfter) WriteString(s string) (int, error) { return f.Write([]byte(s)) }

// switchTransport lets ONE protocol object write to changing targets
type richTTransport interface {
	thrift.TTransport
	thrift.TRichTransport
}

type switchTransport struct {
	richTTransport
}

func init() {
	register("c16", "thrift encode / size-calculator / decode of model-enumerated shapes through reused protocol objects (C16)", func(args []string) {
		fs := flag.NewFlagSet("c16", flag.ExitOnError)
		cm := commonFlags(fs)
		fs.Parse(args)
		rng := rand.New(rand.NewSource(cm.seed))
		thorough := cm.tier == "thorough"
		tr := NewTrace(filepath.Join(cm.out, "trace.ndjson"))
		evals := 0
		distinct := map[string]bool{}
		var samples []interface{}
		strLens := []int{0, 1, 127, 128, 1024}
		tagLists := []tagShape{{false, [][2]int{}}, {true, [][2]int{}}, {true, [][2]int{{1, 1}}}, {true, [][2]int{{0, 0}, {127, 128}}}}
		// 16 tags, and 15 (the list header changes form at 15)
		t16 := tagShape{true, nil}
		for i := 0; i < 16; i++ {
			t16.List = append(t16.List, [2]int{strLens[i%5], strLens[(i+2)%5]})
		}
		t15 := tagShape{true, t16.List[:15]}
		t14 := tagShape{true, t16.List[:14]}
		tagLists = append(tagLists, t16, t15, t14)

		for _, compact := range []bool{true, false} {
			// ONE reused encoder, ONE reused calculator, ONE reused decoder per protocol
			sw := &switchTransport{}
			var enc, calcP thrift.TProtocol
			calc := &customtransport.TCalcTransport{}
			if compact {
				enc = thrift.NewTCompactProtocol(sw)
				calcP = thrift.NewTCompactProtocol(calc)
			} else {
				enc = thrift.NewTBinaryProtocolTransport(sw)
				calcP = thrift.NewTBinaryProtocolTransport(calc)
			}
			encode := func(write func(p thrift.TProtocol) error) ([]byte, int, error) {
				mb := thrift.NewTMemoryBuffer()
				sw.richTTransport = mb
				if err := write(enc); err != nil {
					return nil, 0, err
				}
				enc.Flush()
				calc.ResetCount()
				if err := write(calcP); err != nil {
					return nil, 0, err
				}
				return append([]byte(nil), mb.Bytes()...), int(calc.GetCount()), nil
			}
			abandon := func(m m3thrift.Metric) {
				// the same encoder object writes into a transport that refuses after a few bytes
				fa := &failAfter{left: rng.Intn(40)}
				sw.richTTransport = fa
				m.Write(enc) //nolint:errcheck
			}
			decodeMetric := func(b []byte) (m3thrift.Metric, bool) {
				mb := thrift.NewTMemoryBuffer()
				mb.Write(b)
				var p thrift.TProtocol
				if compact {
					p = thrift.NewTCompactProtocol(mb)
				} else {
					p = thrift.NewTBinaryProtocolTransport(mb)
				}
				var m m3thrift.Metric
				if err := m.Read(p); err != nil || mb.Len() != 0 {
					return m, false
				}
				return m, true
			}
			// (a) single metrics: every varint class of every field x string classes x tag lists
			for _, nameLen := range strLens {
				for _, tl := range tagLists {
					classes := [][4]int{}
					for c := 1; c <= 10; c++ {
						classes = append(classes, [4]int{1 + (c-1)%5, c, 11 - c, 1 + (c*3)%10})
					}
					if thorough {
						for k := 0; k < 60; k++ {
							classes = append(classes, [4]int{1 + rng.Intn(5), 1 + rng.Intn(10), 1 + rng.Intn(10), 1 + rng.Intn(10)})
						}
					}
					for ci, cl := range classes {
						sh := metricShape{Name: nameLen, Type: cl[0], Count: cl[1], Timer: cl[2], Ts: cl[3], Tags: tl}
						m := buildMetric(sh, rng)
						after := false
						if ci%4 == 3 {
							abandon(buildMetric(sh, rng))
							after = true
						}
						b, cn, err := encode(m.Write)
						rt := false
						if err == nil {
							got, ok := decodeMetric(b)
							rt = ok && sameMetric(m, got)
						}
						tr.Emit(M{"e": "metric", "compact": compact, "shape": sh, "enc": len(b), "calc": cn, "rt": rt, "after_abandon": after, "err": err != nil})
						evals++
						distinct[metricKey(compact, sh)] = true
					}
				}
			}
			// (b) batches and whole messages through the generated client
			nb := 60
			if thorough {
				nb = 400
			}
			for bi := 0; bi < nb; bi++ {
				nm := []int{0, 1, 2, 3, 14, 15, 16}[bi%7]
				if thorough && bi%40 == 39 {
					nm = 500
				}
				var shapes []metricShape
				var mets []m3thrift.Metric
				for i := 0; i < nm; i++ {
					sh := metricShape{Name: strLens[rng.Intn(5)], Type: 1, Count: 1 + rng.Intn(10), Timer: 1 + rng.Intn(10), Ts: 1 + rng.Intn(10), Tags: tagLists[rng.Intn(len(tagLists))]}
					if nm == 500 {
						sh.Name, sh.Tags = 1+rng.Intn(40), tagLists[rng.Intn(3)]
					}
					shapes = append(shapes, sh)
					mets = append(mets, buildMetric(sh, rng))
				}
				if mets == nil {
					mets = []m3thrift.Metric{}
					shapes = []metricShape{}
				}
				common := tagLists[rng.Intn(len(tagLists))]
				batch := m3thrift.MetricBatch{Metrics: mets, CommonTags: buildTags(common, rng)}
				b, cn, err := encode(batch.Write)
				// the whole message through the generated client over a memory transport
				mb := thrift.NewTMemoryBuffer()
				var fac thrift.TProtocolFactory
				if compact {
					fac = thrift.NewTCompactProtocolFactory()
				} else {
					fac = thrift.NewTBinaryProtocolFactoryDefault()
				}
				cl := m3thrift.NewM3ClientFactory(mb, fac)
				seq := []int32{0, 126, 127, 16382, 16383, 2097150, 2097151, 268435454, 268435455, math.MaxInt32 - 1}[rng.Intn(10)]
				cl.SeqId = seq
				msgErr := cl.EmitMetricBatchV2(batch)
				msg := append([]byte(nil), mb.Bytes()...)
				got, _, ok, _ := decodeBatch(msg, compact)
				rt := ok && len(got.Metrics) == len(mets) && sameTagsList(got.CommonTags, batch.CommonTags)
				if rt {
					for i := range mets {
						if !sameMetric(mets[i], got.Metrics[i]) {
							rt = false
						}
					}
				}
				seqLen := 1
				for v := uint32(seq + 1); v >= 0x80; v >>= 7 {
					seqLen++
				}
				tr.Emit(M{"e": "batch", "compact": compact, "shape": M{"metrics": shapes, "common": common}, "seqlen": seqLen, "enc": len(b), "calc": cn, "msg": len(msg), "rt": rt, "err": err != nil || msgErr != nil})
				evals++
			}
		}
		// (c) the reporter's own measurement: Allocate* sizes a pre-built metric whose variable-length fields hold
		//     maximal placeholders; the charged size (observation hook of the batching loop) must be the size of the
		//     shape with every varint class maximal
		for _, compact := range []bool{true, false} {
			var mu sync.Mutex
			var charged []int
			tally.VerifSetHook(nil, func(point string, a, b int64, s string) {
				if point == "m3p_got" && b == 1 {
					mu.Lock()
					charged = append(charged, int(a))
					mu.Unlock()
				}
			})
			col := newCollector()
			proto := m3.Compact
			if !compact {
				proto = m3.Binary
			}
			rep, err := m3.NewReporter(m3.Options{HostPorts: []string{col.s.addr()}, Service: "s", Env: "e", Protocol: proto, MaxQueueSize: 64})
			if err != nil {
				fatal("m3.NewReporter: %v", err)
			}
			var shapes []metricShape
			var kindsOf []string
			for _, nameLen := range []int{1, 127, 128, 600} {
				for _, nt := range []int{0, 1, 3, 15} {
					tags := map[string]string{}
					tsh := tagShape{Set: nt > 0, List: [][2]int{}}
					for i := 0; i < nt; i++ {
						k := fmt.Sprintf("k%02d%s", i, strings.Repeat("k", i%5))
						v := strings.Repeat("v", (i*7)%130)
						tags[k] = v
						tsh.List = append(tsh.List, [2]int{len(k), len(v)})
					}
					name := strings.Repeat("n", nameLen)
					sh := metricShape{Name: nameLen, Type: 1, Count: 10, Timer: 10, Ts: 10, Tags: tsh}
					switch (nameLen + nt) % 3 {
					case 0:
						rep.AllocateCounter(name, tags).ReportCount(1)
						kindsOf = append(kindsOf, "counter")
					case 1:
						rep.AllocateGauge(name, tags).ReportGauge(1)
						kindsOf = append(kindsOf, "gauge")
					default:
						rep.AllocateTimer(name, tags).ReportTimer(1)
						kindsOf = append(kindsOf, "timer")
					}
					kindsOf = append(kindsOf, "counter") // the bucket below
					shapes = append(shapes, sh)
					// a histogram bucket of the same identity: two more tags (bucketid, bucket)
					h := rep.AllocateHistogram(name, tags, tally.ValueBuckets{1})
					h.ValueBucket(1, math.MaxFloat64).ReportSamples(1)
					bsh := sh
					bsh.Tags = tagShape{Set: true, List: append(append([][2]int{}, tsh.List...), [2]int{len("bucketid"), 4}, [2]int{len("bucket"), len("1.000000-infinity")})}
					shapes = append(shapes, bsh)
					// every bucket of a histogram is charged for its own range tag (they differ in length)
					if nt == 1 {
						h3 := rep.AllocateHistogram(name+"w", tags, tally.ValueBuckets{-123456789.5, 1})
						for _, rg := range []struct {
							lo, hi float64
							s      string
						}{{-math.MaxFloat64, -123456789.5, "-infinity--123456789.500000"}, {-123456789.5, 1, "-123456789.500000-1.000000"}, {1, math.MaxFloat64, "1.000000-infinity"}} {
							h3.ValueBucket(rg.lo, rg.hi).ReportSamples(1)
							b3 := sh
							b3.Name = nameLen + 1
							b3.Tags = tagShape{Set: true, List: append(append([][2]int{}, tsh.List...), [2]int{len("bucketid"), 4}, [2]int{len("bucket"), len(rg.s)})}
							shapes = append(shapes, b3)
							kindsOf = append(kindsOf, "counter")
						}
					}
				}
			}
			// concurrent allocation: "size measurement under a lock through one reused protocol" - handles allocated by
			// several goroutines at once, then reported one after the other in a known order
			{
				G, per := 16, 6000
				if cm.tier == "thorough" {
					per = 60000
				}
				type pending struct {
					sh   metricShape
					kind string
					fire func()
				}
				lists := make([][]pending, G)
				var wg sync.WaitGroup
				start := make(chan struct{})
				for g := 0; g < G; g++ {
					g := g
					wg.Add(1)
					go func() {
						defer wg.Done()
						<-start
						for i := 0; i < per; i++ {
							name := fmt.Sprintf("c%d_%d_%s", g, i, strings.Repeat("x", (g*31+i*13)%140))
							tags := map[string]string{}
							tsh := tagShape{List: [][2]int{}}
							for t := 0; t < (g+i)%4; t++ {
								k, v := fmt.Sprintf("t%d", t), strings.Repeat("v", 1+(i*3+t)%17)
								tags[k] = v
								tsh.Set = true
								tsh.List = append(tsh.List, [2]int{len(k), len(v)})
							}
							sh := metricShape{Name: len(name), Type: 1, Count: 10, Timer: 10, Ts: 10, Tags: tsh}
							switch (g + i) % 3 {
							case 0:
								h := rep.AllocateCounter(name, tags)
								lists[g] = append(lists[g], pending{sh, "counter", func() { h.ReportCount(1) }})
							case 1:
								h := rep.AllocateGauge(name, tags)
								lists[g] = append(lists[g], pending{sh, "gauge", func() { h.ReportGauge(1) }})
							default:
								h := rep.AllocateTimer(name, tags)
								lists[g] = append(lists[g], pending{sh, "timer", func() { h.ReportTimer(1) }})
							}
						}
					}()
				}
				close(start)
				wg.Wait()
				for g := 0; g < G; g++ {
					for _, p := range lists[g] {
						p.fire()
						shapes = append(shapes, p.sh)
						kindsOf = append(kindsOf, p.kind)
					}
				}
			}
			rep.Close()
			col.close()
			tally.VerifSetHook(nil, nil)
			mu.Lock()
			ch := charged
			mu.Unlock()
			if len(ch) != len(shapes) {
				tr.Emit(M{"e": "alloc", "compact": compact, "shape": metricShape{Tags: tagShape{List: [][2]int{}}}, "kind": "counter", "charged": -1, "n": len(ch), "want": len(shapes)})
			} else {
				seen := map[string]bool{}
				for i, sh := range shapes {
					evals++
					k := fmt.Sprintf("%s|%s|%d", metricKey(compact, sh), kindsOf[i], ch[i])
					if seen[k] {
						continue // same shape, same kind, same charge: one event
					}
					seen[k] = true
					tr.Emit(M{"e": "alloc", "compact": compact, "shape": sh, "kind": kindsOf[i], "charged": ch[i]})
				}
			}
		}
		if len(samples) < 1 {
			samples = append(samples, M{"metric_shape": metricShape{Name: 128, Type: 5, Count: 10, Timer: 1, Ts: 9, Tags: t15}, "protocols": "compact and binary", "string_bytes": "random incl. NUL and invalid UTF-8"})
		}
		tr.Close()
		writeMeta(cm.out, M{"cases": evals, "events": tr.N, "evals": evals, "distinct": len(distinct), "samples": samples})
	})
}

func metricKey(compact bool, sh metricShape) string {
	k := "b"
	if compact {
		k = "c"
	}
	return k + string(rune('0'+sh.Type)) + string(rune('0'+sh.Count)) + string(rune('0'+sh.Timer)) + string(rune('0'+sh.Ts)) + string(rune('0'+len(sh.Tags.List))) + string(rune('0'+sh.Name%64))
}
