package main

import "math/rand"

var c07Points = []string{"op_sub", "op_inc", "op_close", "op_pass", "rp_visit", "sr_c", "rm_runlock", "rm_lock", "rm_relock",
	"ss_rlock", "ss_found_check", "ss_lock", "cm_c"}

func cycleOps(h, name string, n int) []Op {
	var ops []Op
	for i := 0; i < n; i++ {
		ops = append(ops, Op{Op: "sub", H: h, Name: name}, Op{Op: "inc", H: h, M: "c", V: 1}, Op{Op: "close", H: h})
	}
	return ops
}

func init() {
	scenarioFamilies["c07"] = func(tier string, rng *rand.Rand) []scenarioSet {
		var out []scenarioSet
		thorough := tier == "thorough"
		for _, rep := range []string{"plain", "cached"} {
			// micro: one goroutine cycling obtain / record / Close / obtain again / record against one report pass
			budget := 16000
			pts := []string{"op_sub", "op_inc", "op_close", "rp_visit", "sr_h", "rm_runlock", "rm_lock", "rm_relock", "ss_found_check", "ss_lock"}
			if thorough {
				budget = 3000000
				pts = c07Points
			}
			out = append(out, scenarioSet{mode: "dfs", maxExec: budget, sc: &Scenario{
				Name: "c07-cycle-" + rep, Reporter: rep, Points: pts,
				Threads: []ThreadSpec{
					{Name: "a1", Ops: append(cycleOps("h", "s", 1), Op{Op: "sub", H: "h", Name: "s"}, Op{Op: "inc", H: "h", M: "c", V: 2})},
					{Name: "p1", Ops: []Op{{Op: "pass"}}},
				}}})
			// the same against the real report loop
			lmode, lbudget := "random", 1500
			if thorough {
				lmode, lbudget = "dfs", budget
			}
			out = append(out, scenarioSet{mode: lmode, maxExec: lbudget, sc: &Scenario{
				Name: "c07-cycle-loop-" + rep, Reporter: rep, Loop: true, MaxTicks: 1, Points: append([]string{"rl_select"}, pts...),
				Threads: []ThreadSpec{
					{Name: "a1", Ops: append(cycleOps("h", "s", 1), Op{Op: "sub", H: "h", Name: "s"}, Op{Op: "inc", H: "h", M: "c", V: 2})},
				}}})
			// two goroutines cycling on the same identity, tagged identity in another shard, children of closed scopes, double Close: random over all points
			n := 400
			if thorough {
				n = 30000
			}
			out = append(out, scenarioSet{mode: "random", maxExec: n, sc: &Scenario{
				Name: "c07-two-" + rep, Reporter: rep, Shards: 2, Loop: true, MaxTicks: 2,
				Threads: []ThreadSpec{
					{Name: "a1", Ops: append(cycleOps("h", "s", 2), Op{Op: "sub", H: "h", Name: "s"}, Op{Op: "inc", H: "h", M: "c", V: 1})},
					{Name: "a2", Ops: append(cycleOps("h", "s", 1), Op{Op: "close", H: "h"}, Op{Op: "sub", H: "k", P: "h", Name: "child"}, Op{Op: "inc", H: "k", M: "c", V: 5},
						Op{Op: "sub", H: "h", Name: "s"}, Op{Op: "inc", H: "h", M: "c", V: 1})},
					{Name: "a3", Ops: []Op{{Op: "sub", H: "t", Tags: map[string]string{"k": "v"}}, {Op: "inc", H: "t", M: "c", V: 3}, {Op: "close", H: "t"},
						{Op: "sub", H: "t", Tags: map[string]string{"k": "v"}}, {Op: "inc", H: "t", M: "c", V: 1}}},
					{Name: "p1", Ops: []Op{{Op: "pass"}, {Op: "pass"}}},
				}}})
			// a sanitizer that rewrites the tags: the registry knows such a scope under two keys (as given, as sanitized);
			// close, obtain again with the same raw tags, record across two passes.  (Two DIFFERENT raw spellings of one
			// sanitized identity are not "the same prefix and tags" of C07 and not "inputs the sanitizer leaves unchanged" of
			// C05: such scenarios are deliberately not generated - see DESIGN.md, observations outside the properties.)
			raw := map[string]string{"data-center": "x y"}
			raw2 := raw
			sanOps := []Op{{Op: "sub", H: "h", Tags: raw}, {Op: "inc", H: "h", M: "c", V: 1}, {Op: "close", H: "h"},
				{Op: "sub", H: "h", Tags: raw}, {Op: "inc", H: "h", M: "c", V: 2}}
			out = append(out, scenarioSet{mode: "dfs", maxExec: 4000, sc: &Scenario{
				Name: "c07-sanitized-" + rep, Reporter: rep, Sanitize: true, Points: []string{"op_sub", "op_inc", "op_close", "op_pass"},
				Threads: []ThreadSpec{
					{Name: "a1", Ops: append(append([]Op{}, sanOps...), Op{Op: "inc", H: "h", M: "c", V: 3})},
					{Name: "p1", Ops: []Op{{Op: "pass"}, {Op: "pass"}}},
				}}})
			out = append(out, scenarioSet{mode: "random", maxExec: n / 2, sc: &Scenario{
				Name: "c07-sanitized-two-" + rep, Reporter: rep, Sanitize: true, Shards: 2, Loop: true, MaxTicks: 2,
				Threads: []ThreadSpec{
					{Name: "a1", Ops: append(append([]Op{}, sanOps...), Op{Op: "close", H: "h"}, Op{Op: "sub", H: "h", Tags: raw2}, Op{Op: "inc", H: "h", M: "c", V: 1})},
					{Name: "a2", Ops: []Op{{Op: "sub", H: "g", Tags: raw2}, {Op: "inc", H: "g", M: "c", V: 1}, {Op: "close", H: "g"}, {Op: "sub", H: "g", Tags: raw}, {Op: "inc", H: "g", M: "c", V: 2}}},
					{Name: "p1", Ops: []Op{{Op: "pass"}}},
				}}})
			// "closing a scope never affects any other scope": a SubScope child of a tagged scope is used, closed and
			// retired (by a pass or by being asked for again); its parent, a sibling and a scope derived later keep
			// delivering under their own tags
			kv := map[string]string{"k": "v"}
			out = append(out, scenarioSet{mode: "dfs", maxExec: 2500, sc: &Scenario{
				Name: "c07-sibling-" + rep, Reporter: rep, Points: []string{"op_sub", "op_inc", "op_close", "op_pass"},
				Threads: []ThreadSpec{
					{Name: "a1", Ops: []Op{{Op: "sub", H: "t", Tags: kv}, {Op: "sub", H: "c", P: "t", Name: "x"}, {Op: "sub", H: "d", P: "t", Name: "y"},
						{Op: "inc", H: "c", M: "m", V: 1}, {Op: "close", H: "c"}, {Op: "sub", H: "c2", P: "t", Name: "x"},
						{Op: "inc", H: "t", M: "m", V: 2}, {Op: "inc", H: "d", M: "m", V: 3}, {Op: "inc", H: "c2", M: "m", V: 4},
						{Op: "sub", H: "e", P: "t", Name: "z"}, {Op: "inc", H: "e", M: "m", V: 5}}},
					{Name: "p1", Ops: []Op{{Op: "pass"}, {Op: "pass"}}},
				}}})
			// five sibling sub-scopes in one shard, one closed: the pass that retires it still delivers the others' increments
			sib := []Op{}
			for _, n := range []string{"a", "b", "c", "d", "e"} {
				sib = append(sib, Op{Op: "sub", H: n, Name: n}, Op{Op: "inc", H: n, M: "m", V: 1})
			}
			sib = append(sib, Op{Op: "close", H: "c"}, Op{Op: "inc", H: "a", M: "m", V: 2}, Op{Op: "inc", H: "e", M: "m", V: 3}, Op{Op: "pass"})
			out = append(out, scenarioSet{mode: "random", maxExec: 60, sc: &Scenario{
				Name: "c07-siblings-" + rep, Reporter: rep, Shards: 1, Points: []string{"op_pass"}, NoQuiesce: true,
				Threads: []ThreadSpec{{Name: "a1", Ops: sib}}}})
			// "scopes derived from a closed scope are inert": the child was obtained before its parent was closed, and is
			// derived again - by name and by tags - from the closed parent
			out = append(out, scenarioSet{mode: "dfs", maxExec: 600, sc: &Scenario{
				Name: "c07-derive-from-closed-" + rep, Reporter: rep, Points: []string{"op_sub", "op_inc", "op_close", "op_pass"},
				Threads: []ThreadSpec{
					{Name: "a1", Ops: []Op{{Op: "sub", H: "p", Name: "p"}, {Op: "sub", H: "c", P: "p", Name: "x"}, {Op: "sub", H: "t", P: "p", Tags: kv},
						{Op: "inc", H: "c", M: "m", V: 1}, {Op: "close", H: "p"},
						{Op: "sub", H: "c2", P: "p", Name: "x"}, {Op: "inc", H: "c2", M: "m", V: 2},
						{Op: "sub", H: "t2", P: "p", Tags: kv}, {Op: "inc", H: "t2", M: "m", V: 3}}},
					{Name: "p1", Ops: []Op{{Op: "pass"}}},
				}}})
			// a parent is closed by one goroutine while another derives new scopes from it; afterwards new scopes can still
			// be created in that shard (no lock is left behind)
			out = append(out, scenarioSet{mode: "random", maxExec: 500, sc: &Scenario{
				Name: "c07-close-during-derive-" + rep, Reporter: rep, Shards: 1,
				Points: []string{"op_sub", "op_close", "ss_closed_check", "ss_rlock", "ss_found_check", "ss_lock", "cl_cas"},
				Threads: []ThreadSpec{
					{Name: "a1", Ops: []Op{{Op: "sub", H: "p", Name: "p"}, {Op: "sub", H: "n1", P: "p", Tags: kv}, {Op: "sub", H: "n2", Name: "fresh"}, {Op: "inc", H: "n2", M: "m", V: 1}}},
					{Name: "a2", Ops: []Op{{Op: "sub", H: "p", Name: "p"}, {Op: "close", H: "p"}, {Op: "sub", H: "n3", Name: "other"}, {Op: "inc", H: "n3", M: "m", V: 2}}},
				}}})
		}
		return out
	}
}
