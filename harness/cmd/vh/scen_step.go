package main

import "math/rand"

// Scenarios for the step-level replay through TallyCore.tla: they stay inside the model's universe - one
// sub-scope identity ("s"), one counter per scope object, increments of one, one gauge on the root with the
// values 1 and 2, a single registry shard - and every hook is a scheduling choice.
func init() {
	scenarioFamilies["step"] = func(tier string, rng *rand.Rand) []scenarioSet {
		var out []scenarioSet
		n := 150
		if tier == "thorough" {
			n = 4000
		}
		rinc := Op{Op: "inc", H: "root", M: "r", V: 1}
		sinc := Op{Op: "inc", H: "s", M: "c", V: 1}
		sub := Op{Op: "sub", H: "s", Name: "s"}
		for _, rep := range []string{"plain", "cached"} {
			// C01: two increments of the root's counter against two passes
			out = append(out, scenarioSet{mode: "random", maxExec: n, sc: &Scenario{
				Name: "st-c01-" + rep, Reporter: rep, Shards: 1,
				Threads: []ThreadSpec{{Name: "a1", Ops: []Op{rinc, rinc}}, {Name: "p1", Ops: []Op{{Op: "pass"}}}, {Name: "p2", Ops: []Op{{Op: "pass"}}}}}})
			// C02: two updates of the root's gauge against two passes by one thread and one by another
			out = append(out, scenarioSet{mode: "random", maxExec: n, sc: &Scenario{
				Name: "st-c02-" + rep, Reporter: rep, Shards: 1, Gauge: "plain",
				Threads: []ThreadSpec{{Name: "a1", Ops: []Op{{Op: "upd", H: "root", M: "g", V: 1}, {Op: "upd", H: "root", M: "g", V: 2}}},
					{Name: "p1", Ops: []Op{{Op: "pass"}, {Op: "pass"}}}, {Name: "p2", Ops: []Op{{Op: "pass"}}}}}})
			// C07: sub-scope used, closed, obtained again, used - against passes
			out = append(out, scenarioSet{mode: "random", maxExec: n, sc: &Scenario{
				Name: "st-c07-" + rep, Reporter: rep, Shards: 1,
				Threads: []ThreadSpec{{Name: "a1", Ops: []Op{sub, sinc, {Op: "close", H: "s"}, sub, sinc}}, {Name: "p1", Ops: []Op{{Op: "pass"}, {Op: "pass"}}}}}})
			// C09: two goroutines obtain the sub-scope and its counter for the first time
			out = append(out, scenarioSet{mode: "random", maxExec: n, sc: &Scenario{
				Name: "st-c09-" + rep, Reporter: rep, Shards: 1,
				Threads: []ThreadSpec{{Name: "a1", Ops: []Op{sub, sinc}}, {Name: "a2", Ops: []Op{sub, sinc}}, {Name: "p1", Ops: []Op{{Op: "pass"}}}}}})
			// C08: the report loop (one tick), a recorder and root Close
			out = append(out, scenarioSet{mode: "random", maxExec: n, sc: &Scenario{
				Name: "st-c08-" + rep, Reporter: rep, Shards: 1, Loop: true, MaxTicks: 1, NoQuiesce: true,
				Threads: []ThreadSpec{{Name: "a1", Ops: []Op{rinc, rinc}}, {Name: "z1", Ops: []Op{{Op: "rootclose"}}}}}})
			// C08: a root without an interval, two concurrent Close callers (the close mutex), a recorder
			out = append(out, scenarioSet{mode: "random", maxExec: n, sc: &Scenario{
				Name: "st-c08-two-" + rep, Reporter: rep, Shards: 1, NoQuiesce: true, Closer: true,
				Threads: []ThreadSpec{{Name: "a1", Ops: []Op{rinc}}, {Name: "z1", Ops: []Op{{Op: "rootclose"}}}, {Name: "z2", Ops: []Op{{Op: "rootclose"}}}}}})
		}
		return out
	}
}
