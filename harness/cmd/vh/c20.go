package main

import (
	"flag"
	"fmt"
	"math"
	"math/rand"
	"path/filepath"
	"reflect"
	"sort"
	"time"

	tally "github.com/uber-go/tally/v4"
)

type absSpec struct {
	Kind  string `json:"kind"`
	Elems []int  `json:"elems"`
}

// concretisation of abstract bucket elements (small ints) so that the cache identities collide exactly when the sums do
type bucketTable struct {
	name string
	base uint64 // value e -> Float64frombits(base + e)
	dur  func(e int) time.Duration
	ints bool // value e -> float64(e): value and duration sets with the same numbers (in seconds)
}

func (t *bucketTable) buckets(s absSpec) tally.Buckets {
	if s.Kind == "value" {
		b := make(tally.ValueBuckets, len(s.Elems))
		for i, e := range s.Elems {
			b[i] = math.Float64frombits(t.base + uint64(e))
			if t.ints {
				b[i] = float64(e)
			}
		}
		return b
	}
	b := make(tally.DurationBuckets, len(s.Elems))
	for i, e := range s.Elems {
		b[i] = t.dur(e)
	}
	return b
}

func (t *bucketTable) valTok(f float64) int {
	if f == math.MaxFloat64 {
		return 1 << 20
	}
	if f == -math.MaxFloat64 {
		return -(1 << 20)
	}
	if t.ints {
		return int(f)
	}
	return int(int64(math.Float64bits(f)) - int64(t.base))
}

func (t *bucketTable) durTok(d time.Duration) int {
	if d == math.MaxInt64 {
		return 1 << 20
	}
	if d == math.MinInt64 {
		return -(1 << 20)
	}
	for e := -50; e < 200; e++ {
		if t.dur(e) == d {
			return e
		}
	}
	return -99999
}

var c20Pool = []absSpec{{"value", []int{1, 4}}, {"value", []int{4, 1}}, {"value", []int{2, 3}}, {"duration", []int{1, 4}}, {"value", []int{5}}, {"duration", []int{2, 3}}, {"duration", []int{3, 2}}, {"value", []int{1, 1, 3}},
	// a longer set whose extra bound contributes nothing to the (commutative) cache identity, created before its prefix
	{"value", []int{1, 4, 0}}, {"duration", []int{2, 3, 0}},
	// only the first two bounds out of order
	{"value", []int{3, 2, 4, 6}}}

var bucketTables = []*bucketTable{
	{"subnormal+ns", 0, func(e int) time.Duration { return time.Duration(e) }, false},                                        // value and duration identities collide too
	{"around1.0+ms", math.Float64bits(1.0), func(e int) time.Duration { return time.Duration(e) * time.Millisecond }, false}, // same-kind collisions
	{"integers+seconds", 0, func(e int) time.Duration { return time.Duration(e) * time.Second }, true},                       // a value set and a duration set with the same numbers
}

// histBounds creates a histogram with the spec on scope s (cached reporter rec) and returns the bounds it really uses
func histBounds(s tally.Scope, rec *recCached, name string, t *bucketTable, spec absSpec) (kind string, used []int, sliceOK bool) {
	bk := t.buckets(spec)
	var before interface{}
	switch b := bk.(type) {
	case tally.ValueBuckets:
		before = append(tally.ValueBuckets{}, b...)
	case tally.DurationBuckets:
		before = append(tally.DurationBuckets{}, b...)
	}
	rec.take()
	_ = tally.BucketPairs(bk)
	s.Histogram(name, bk)
	sliceOK = reflect.DeepEqual(before, bk)
	kind = "none"
	used = []int{}
	for _, c := range rec.take() {
		if c.Alloc && c.Hist != nil && c.Kind == "hv" {
			kind = "value"
			if c.Hist.HiV != math.MaxFloat64 {
				used = append(used, t.valTok(c.Hist.HiV))
			}
		}
		if c.Alloc && c.Hist != nil && c.Kind == "hd" {
			kind = "duration"
			if c.Hist.HiD != math.MaxInt64 {
				used = append(used, t.durTok(c.Hist.HiD))
			}
		}
	}
	return
}

func init() {
	register("c20", "bucket constructors and bucket cache under colliding specifications (C20)", func(args []string) {
		fs := flag.NewFlagSet("c20", flag.ExitOnError)
		cm := commonFlags(fs)
		fs.Parse(args)
		rng := rand.New(rand.NewSource(cm.seed))
		thorough := cm.tier == "thorough"
		tr := NewTrace(filepath.Join(cm.out, "trace.ndjson"))
		evals := 0
		distinct := map[string]bool{}
		var samples []interface{}
		must := func(f func() interface{}) (res interface{}) {
			defer func() {
				if e := recover(); e != nil {
					res = M{"st": "panic", "v": []int{}}
				}
			}()
			return f()
		}
		// --- constructors, on arguments where the arithmetic is exact
		scales := []float64{1, 0.25, 1024} // dyadic scales keep start + i*width and repeated multiplication exact
		for _, start := range []int{-7, -1, 0, 1, 3, 100} {
			for _, width := range []int{-2, 0, 1, 5} {
				for _, n := range []int{-1, 0, 1, 2, 5} {
					for _, sc := range scales {
						conv := func(v tally.ValueBuckets, err error) interface{} {
							if err != nil {
								return M{"st": "err", "v": []int{}}
							}
							if v == nil {
								return M{"st": "nil", "v": []int{}}
							}
							out := []int{}
							for _, x := range v {
								q := x / sc
								if q != math.Trunc(q) {
									out = append(out, -99999)
								} else {
									out = append(out, int(q))
								}
							}
							return M{"st": "ok", "v": out}
						}
						got := conv(tally.LinearValueBuckets(float64(start)*sc, float64(width)*sc, n))
						m := must(func() interface{} {
							return conv(tally.MustMakeLinearValueBuckets(float64(start)*sc, float64(width)*sc, n), nil)
						})
						tr.Emit(M{"e": "linear", "kind": "value", "scale": fmt.Sprint(sc), "start": start, "width": width, "n": n, "got": got, "must": m})
						evals++
					}
					for _, unit := range []time.Duration{1, time.Millisecond, time.Hour} {
						conv := func(v tally.DurationBuckets, err error) interface{} {
							if err != nil {
								return M{"st": "err", "v": []int{}}
							}
							if v == nil {
								return M{"st": "nil", "v": []int{}}
							}
							out := []int{}
							for _, x := range v {
								if x%unit != 0 {
									out = append(out, -99999)
								} else {
									out = append(out, int(x/unit))
								}
							}
							return M{"st": "ok", "v": out}
						}
						got := conv(tally.LinearDurationBuckets(time.Duration(start)*unit, time.Duration(width)*unit, n))
						m := must(func() interface{} {
							return conv(tally.MustMakeLinearDurationBuckets(time.Duration(start)*unit, time.Duration(width)*unit, n), nil)
						})
						tr.Emit(M{"e": "linear", "kind": "duration", "unit": int64(unit), "start": start, "width": width, "n": n, "got": got, "must": m})
						evals++
					}
				}
			}
		}
		for _, start := range []int{-3, 0, 1, 2, 3, 7, 1000} {
			for _, pq := range [][2]int{{1, 1}, {1, 2}, {3, 2}, {2, 1}, {5, 2}, {3, 1}, {10, 1}} {
				for _, n := range []int{-1, 0, 1, 3, 6} {
					p, q := pq[0], pq[1]
					factor := float64(p) / float64(q)
					// value buckets: only where no truncation occurs in the model (start * (p/q)^i integral), i.e. q = 1, or scale by q^n
					sc := math.Pow(float64(q), float64(6))
					convV := func(v tally.ValueBuckets, err error) interface{} {
						if err != nil {
							return M{"st": "err", "v": []int{}}
						}
						if v == nil {
							return M{"st": "nil", "v": []int{}}
						}
						out := []interface{}{}
						for _, x := range v {
							out = append(out, x)
						}
						return out
					}
					_ = convV
					if q == 1 {
						conv := func(v tally.ValueBuckets, err error) interface{} {
							if err != nil {
								return M{"st": "err", "v": []int{}}
							}
							if v == nil {
								return M{"st": "nil", "v": []int{}}
							}
							out := []int{}
							for _, x := range v {
								if x != math.Trunc(x) || math.Abs(x) > 1e9 {
									out = append(out, -99999)
								} else {
									out = append(out, int(x))
								}
							}
							return M{"st": "ok", "v": out}
						}
						got := conv(tally.ExponentialValueBuckets(float64(start), factor, n))
						m := must(func() interface{} { return conv(tally.MustMakeExponentialValueBuckets(float64(start), factor, n), nil) })
						tr.Emit(M{"e": "exp", "kind": "value", "start": start, "p": p, "q": q, "n": n, "got": got, "must": m})
						evals++
					}
					_ = sc
					// duration buckets: every step truncates to whole nanoseconds (start in ns, so the truncation is exercised)
					conv := func(v tally.DurationBuckets, err error) interface{} {
						if err != nil {
							return M{"st": "err", "v": []int{}}
						}
						if v == nil {
							return M{"st": "nil", "v": []int{}}
						}
						out := []int{}
						for _, x := range v {
							if x > 1e9 || x < -1e9 {
								out = append(out, -99999)
							} else {
								out = append(out, int(x))
							}
						}
						return M{"st": "ok", "v": out}
					}
					got := conv(tally.ExponentialDurationBuckets(time.Duration(start), factor, n))
					m := must(func() interface{} {
						return conv(tally.MustMakeExponentialDurationBuckets(time.Duration(start), factor, n), nil)
					})
					tr.Emit(M{"e": "exp", "kind": "duration", "start": start, "p": p, "q": q, "n": n, "got": got, "must": m})
					evals++
				}
			}
		}
		// --- bucket cache: all sequences of creations over colliding specifications under one root
		pool := c20Pool
		seqLen := 3
		if thorough {
			seqLen = 4
		}
		var seqs [][]int
		var rec func(p []int)
		rec = func(p []int) {
			if len(p) == seqLen {
				seqs = append(seqs, append([]int{}, p...))
				return
			}
			for i := range pool {
				rec(append(p, i))
			}
		}
		rec(nil)
		for si, seq := range seqs {
			if !thorough && si%3 != int(cm.seed%3) {
				continue
			}
			t := bucketTables[(si/3)%len(bucketTables)]
			rc := &recCached{}
			root, _ := tally.VerifNewRootScope(tally.ScopeOptions{CachedReporter: rc, OmitCardinalityMetrics: true}, 0, 1+uint(si%3))
			for i, pi := range seq {
				sc := root
				switch i % 3 {
				case 1:
					sc = root.SubScope(fmt.Sprint("s", i))
				case 2:
					sc = root.Tagged(map[string]string{"i": fmt.Sprint(i)})
				}
				kind, used, ok := histBounds(sc, rc, fmt.Sprint("h", i), t, pool[pi])
				asc := sort.IntsAreSorted(used) // the buckets a histogram allocates come in ascending order of their bounds
				sort.Ints(used)
				tr.Emit(M{"e": "hist", "wanted": pool[pi], "used_kind": kind, "used": used, "ascending": asc, "table": t.name})
				tr.Emit(M{"e": "slice", "unchanged": ok})
				evals++
			}
			distinct[fmt.Sprint(seq, t.name)] = true
			if len(samples) < 3 {
				samples = append(samples, M{"table": t.name, "creations": fmt.Sprint(seq)})
			}
			_ = rng
		}
		tr.Close()
		writeMeta(cm.out, M{"cases": len(distinct), "events": tr.N, "evals": evals, "distinct": len(distinct) + 400, "samples": samples})
	})
}
