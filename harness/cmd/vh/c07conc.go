package main

import (
	"flag"
	"fmt"
	"io"
	"path/filepath"
	"sync"
	"sync/atomic"

	tally "github.com/uber-go/tally/v4"
)

// c07conc: free-running goroutines close ONE sub-scope handle at the same moment (and the root closes the remaining
// sub-scopes while the application closes one of them): "closing twice is harmless ... none of this can panic".
// Events in the vocabulary of TallyObsTrace: every round is an execution (scn), an increment made before the closes
// must be delivered by the pass that follows (inc / dlv / quiesce), a recovered panic is a panic event.
func init() {
	register("c07conc", "concurrent Close of one sub-scope, free-running (C07)", func(args []string) {
		fs := flag.NewFlagSet("c07conc", flag.ExitOnError)
		cm := commonFlags(fs)
		fs.Parse(args)
		rounds := 1500
		if cm.tier == "thorough" {
			rounds = 30000
		}
		tr := NewTrace(filepath.Join(cm.out, "trace.ndjson"))
		panics := 0
		for round := 0; round < rounds; round++ {
			rep := &recReporter{}
			root, rootCloser := tally.VerifNewRootScope(tally.ScopeOptions{Reporter: rep, OmitCardinalityMetrics: true}, 0, uint(1+round%2))
			var sub tally.Scope
			id := "s.c"
			if round%2 == 0 {
				sub = root.SubScope("s")
			} else {
				sub = root.Tagged(map[string]string{"k": "v"})
				id = "c{k=v}"
			}
			tr.Emit(M{"e": "scn", "mod": 0, "x": round + 1})
			sub.Counter("c").Inc(1)
			tr.Emit(M{"e": "inc", "t": "main", "id": id, "o": 2, "v": 1, "inert": false})
			const W = 4
			var ready, wg sync.WaitGroup
			var gate atomic.Bool
			var mu sync.Mutex
			var msgs []string
			for w := 0; w < W; w++ {
				w := w
				ready.Add(1)
				wg.Add(1)
				go func() {
					defer wg.Done()
					defer func() {
						if e := recover(); e != nil {
							mu.Lock()
							msgs = append(msgs, fmt.Sprint(e))
							mu.Unlock()
						}
					}()
					ready.Done()
					for !gate.Load() {
					}
					if w == 3 && round%3 == 2 {
						rootCloser.Close() // the root closes its sub-scopes while the application closes one of them
						return
					}
					sub.(io.Closer).Close()
				}()
			}
			ready.Wait()
			gate.Store(true)
			wg.Wait()
			for _, m := range msgs {
				tr.Emit(M{"e": "panic", "t": "closer", "msg": m})
				panics++
			}
			// what was recorded before the closes is delivered by the next pass (or was by the root's Close)
			tally.VerifReportOnce(root)
			for _, c := range rep.take() {
				if c.Kind == "counter" {
					tr.Emit(M{"e": "dlv", "k": "counter", "t": "main", "id": renderID(c.Name, c.Tags), "v": c.I, "own": true})
				}
			}
			tr.Emit(M{"e": "quiesce"})
			tr.Emit(M{"e": "end"})
		}
		tr.Close()
		writeMeta(cm.out, M{"cases": rounds, "execs": rounds, "events": tr.N, "evals": rounds, "distinct": 4, "panics": panics, "samples": []interface{}{M{"closers": 4, "rounds": rounds}}})
	})
}
