package main

import "math/rand"

var guPoints = []string{"gu_store_val", "gu_store_flag", "gr_swap", "gr_load", "rp_gauge", "op_upd", "op_pass"}

func init() {
	scenarioFamilies["c02"] = func(tier string, rng *rand.Rand) []scenarioSet {
		var out []scenarioSet
		thorough := tier == "thorough"
		tabs := []string{"plain", "nan", "tiny", "snan"}
		for _, rep := range []string{"plain", "cached"} {
			for ti, tab := range tabs {
				// one updater (2-3 updates) against one pass thread running passes back to back: every interleaving
				// of the two stores of Update with swap / load / deliver of the report
				upds := [][]int64{{1, 2}, {3, 4}, {2, 2}, {4, 1}}[ti]
				passes := []Op{{Op: "pass"}, {Op: "pass"}}
				mode, maxe := "dfs", 30000
				if thorough {
					passes = append(passes, Op{Op: "pass"})
				} else if (ti+len(rep))%2 == 0 {
					mode, maxe = "random", 400
				}
				out = append(out, scenarioSet{mode: mode, maxExec: maxe, sc: &Scenario{
					Name: "c02-micro-" + rep + "-" + tab, Reporter: rep, Gauge: tab, Points: guPoints,
					Threads: []ThreadSpec{
						{Name: "u1", Ops: []Op{{Op: "upd", H: "root", M: "g", V: upds[0]}, {Op: "upd", H: "root", M: "g", V: upds[1]}}},
						{Name: "p1", Ops: passes},
					}}})
			}
			// the report loop as the pass source, three updates, ticks at any point
			lupd := []Op{{Op: "upd", H: "root", M: "g", V: 1}, {Op: "upd", H: "root", M: "g", V: 2}}
			lticks, lmax := 2, 30000
			if thorough {
				lupd = append(lupd, Op{Op: "upd", H: "root", M: "g", V: 1})
				lticks, lmax = 3, 400000
			}
			out = append(out, scenarioSet{mode: "dfs", maxExec: lmax, sc: &Scenario{
				Name: "c02-loop-" + rep, Reporter: rep, Gauge: "nan", Loop: true, MaxTicks: lticks,
				Points:  append([]string{"rl_select", "rl_tick"}, guPoints...),
				Threads: []ThreadSpec{{Name: "u1", Ops: lupd}}}})
			// two gauges in two scopes, one updater each, loop + explicit sequential passes by the same thread: random over all points
			n := 300
			if thorough {
				n = 20000
			}
			out = append(out, scenarioSet{mode: "random", maxExec: n, sc: &Scenario{
				Name: "c02-mixed-" + rep, Reporter: rep, Gauge: "tiny", Shards: 2,
				Threads: []ThreadSpec{
					{Name: "u1", Ops: []Op{{Op: "upd", H: "root", M: "g", V: 1}, {Op: "upd", H: "root", M: "g", V: 2}, {Op: "upd", H: "root", M: "g", V: 3}}},
					{Name: "u2", Ops: []Op{{Op: "sub", H: "s", Name: "s"}, {Op: "upd", H: "s", M: "g", V: 4}, {Op: "upd", H: "s", M: "g", V: 1}}},
					{Name: "p1", Ops: []Op{{Op: "pass"}, {Op: "pass"}, {Op: "pass"}, {Op: "pass"}}},
				}}})
			// two goroutines obtain a gauge of a scope for the first time at the same moment (one of them updates it), on a
			// root whose sanitizer rewrites the name: the update must reach the reporter with the next pass
			out = append(out, scenarioSet{mode: "dfs", maxExec: 1500, sc: &Scenario{
				Name: "c02-firstuse-sanitized-" + rep, Reporter: rep, Gauge: "plain", Sanitize: true,
				Points: []string{"op_get", "gg_probe", "gg_lock", "rp_alloc", "op_upd", "op_pass"},
				Threads: []ThreadSpec{
					{Name: "u1", Ops: []Op{{Op: "get", H: "root", M: "x-y", K: "gauge"}, {Op: "upd", H: "root", M: "x-y", V: 1}, {Op: "pass"}}},
					{Name: "u2", Ops: []Op{{Op: "get", H: "root", M: "x-y", K: "gauge"}}},
				}}})
			// a gauge handle kept from a sub-scope that was closed and obtained again: updates through the stale handle
			// are not delivered under any live gauge (in particular not under a gauge created afterwards)
			kv := map[string]string{"k": "v"}
			out = append(out, scenarioSet{mode: "dfs", maxExec: 2500, sc: &Scenario{
				Name: "c02-stale-handle-" + rep, Reporter: rep, Gauge: "plain", Points: []string{"op_sub", "op_get", "op_upd", "op_close", "op_pass"},
				Threads: []ThreadSpec{
					{Name: "u1", Ops: []Op{{Op: "sub", H: "h", Tags: kv}, {Op: "get", H: "h", M: "g", K: "gauge"}, {Op: "upd", H: "h", M: "g", V: 1}, {Op: "close", H: "h"},
						{Op: "sub", H: "h", Tags: kv}, {Op: "upd", H: "h", M: "g2", V: 2}, {Op: "upd", H: "h", M: "g3", V: 3},
						{Op: "upd", H: "h", M: "g", V: 4}, {Op: "upd", H: "h", M: "g2", V: 2}}},
					{Name: "p1", Ops: []Op{{Op: "pass"}, {Op: "pass"}}},
				}}})
			// several sub-scopes in one registry shard, one of them closed: the pass that retires the closed one still
			// visits every other scope (gauges updated before it are fresh after it)
			sib := []Op{}
			for _, n := range []string{"a", "b", "c", "d", "e"} {
				sib = append(sib, Op{Op: "sub", H: n, Name: n}, Op{Op: "upd", H: n, M: "g", V: 1})
			}
			sib = append(sib, Op{Op: "close", H: "c"}, Op{Op: "upd", H: "a", M: "g", V: 2}, Op{Op: "upd", H: "e", M: "g", V: 3}, Op{Op: "pass"})
			out = append(out, scenarioSet{mode: "random", maxExec: 60, sc: &Scenario{
				Name: "c02-siblings-" + rep, Reporter: rep, Gauge: "plain", Shards: 1, Points: []string{"op_pass"},
				Threads: []ThreadSpec{{Name: "u1", Ops: sib}}}})
		}
		return out
	}
}
