package main

import (
	"bytes"
	"flag"
	"fmt"
	"io"
	"log"
	"math"
	"math/rand"
	"os"
	"path/filepath"
	"sort"
	"strings"
	"sync"
	"time"

	prom "github.com/prometheus/client_golang/prometheus"
	dto "github.com/prometheus/client_model/go"
	tally "github.com/uber-go/tally/v4"
	tprom "github.com/uber-go/tally/v4/prometheus"
)

// C17: first-use / record histories on the real Prometheus reporter - directly and underneath real
// tally scopes - with a fresh prometheus Registry per case; the registry is gathered after a report pass.

var c17Names = []string{"alpha", "beta_total", "alpha_k"}
var c17Vals = []string{"v1", "v2"}

// concretisation of bound token 2i (i = 1..4): value buckets and duration buckets
var c17ValueBounds = [][]float64{
	{0.001, 1, 1000.5, 1e9},
	{-5, 0, 2.5, 7},
	{math.SmallestNonzeroFloat64, 1e-300, 1e300, math.MaxFloat64 / 4},
}
var c17DurBounds = [][]time.Duration{
	{time.Millisecond, time.Second, time.Minute, time.Hour},
	{1, 3, 1000, 1 << 40},
	{1128 * time.Millisecond, 1140 * time.Millisecond, 1253 * time.Millisecond, 16777217 * time.Nanosecond * 1000},
	// a specification that starts below zero and has the bound 0 itself (tally's first buckets are (-inf, -1s], (-1s, 0])
	{-time.Second, 0, time.Millisecond, time.Second},
}

type c17Case struct {
	reg      *prom.Registry
	rep      tprom.Reporter
	cbCount  int
	logBuf   *bytes.Buffer
	cbObs    bool // callback invocations are observable
	cbPanics bool
	root     tally.Scope
	closer   io.Closer
}

var c17PathSeq int

// families to declare through Register* at the start of the next case
var c17Prereg []struct {
	as   string
	name string
	tm   map[string]string
}

// newC17Case builds the reporter with one of the callback flavours
func newC17Case(cbKind string, flavour string) *c17Case {
	c := &c17Case{reg: prom.NewRegistry()}
	tt := tprom.SummaryTimerType
	if flavour == "histogram" {
		tt = tprom.HistogramTimerType
	}
	switch cbKind {
	case "custom": // Options.OnRegisterError that returns
		c.cbObs = true
		c.rep = tprom.NewReporter(tprom.Options{Registerer: c.reg, DefaultTimerType: tt, OnRegisterError: func(error) { c.cbCount++ }})
	case "default": // nil callback: the documented default panics
		c.cbPanics = true
		c.rep = tprom.NewReporter(tprom.Options{Registerer: c.reg, DefaultTimerType: tt})
	case "custompanic":
		c.cbObs, c.cbPanics = true, true
		c.rep = tprom.NewReporter(tprom.Options{Registerer: c.reg, DefaultTimerType: tt, OnRegisterError: func(e error) { c.cbCount++; panic(e) }})
	default: // through Configuration.NewReporter: onError none | log | stderr | "" (panic) | cfgcustom
		c17PathSeq++
		cfg := tprom.Configuration{HandlerPath: fmt.Sprintf("/verif-c17-%d-%d", os.Getpid(), c17PathSeq), TimerType: flavour}
		opts := tprom.ConfigurationOptions{Registry: c.reg}
		switch cbKind {
		case "cfg-none":
			cfg.OnError = "none"
		case "cfg-log":
			cfg.OnError = "log"
			c.logBuf = &bytes.Buffer{}
			log.SetOutput(c.logBuf)
			c.cbObs = true
		case "cfg-stderr":
			cfg.OnError = "stderr"
		case "cfg-default":
			c.cbPanics = true
		case "cfg-custom":
			c.cbObs = true
			opts.OnError = func(error) { c.cbCount++ }
		}
		r, err := cfg.NewReporter(opts)
		if err != nil {
			fatal("Configuration.NewReporter: %v", err)
		}
		c.rep = r
	}
	return c
}

func (c *c17Case) callbacks() int {
	if c.logBuf != nil {
		return strings.Count(c.logBuf.String(), "tally prometheus reporter error")
	}
	return c.cbCount
}

func tmPairs(tm map[string]string) [][2]string {
	out := [][2]string{}
	keys := make([]string, 0, len(tm))
	for k := range tm {
		keys = append(keys, k)
	}
	sort.Strings(keys)
	for _, k := range keys {
		out = append(out, [2]string{k, tm[k]})
	}
	return out
}

// gather renders the registry as the trace's series list. bounds maps float upper bounds to tokens per family name.
func (c *c17Case) gather(boundTok map[string]map[float64]int, gaugeTok map[float64]int) ([]M, string) {
	fams, err := c.reg.Gather()
	if err != nil {
		return nil, err.Error()
	}
	out := []M{}
	for _, f := range fams {
		name := f.GetName()
		if strings.HasPrefix(name, "tally_internal") {
			continue
		}
		for _, m := range f.GetMetric() {
			tm := map[string]string{}
			for _, lp := range m.GetLabel() {
				tm[lp.GetName()] = lp.GetValue()
			}
			s := M{"name": name, "tm": tmPairs(tm), "sum": 0, "last": 0, "count": 0, "cum": [][2]int{}}
			switch f.GetType() {
			case dto.MetricType_COUNTER:
				s["kind"] = "counter"
				v := m.GetCounter().GetValue()
				if v != math.Trunc(v) || math.Abs(v) > 1e9 {
					s["sum"] = -1
				} else {
					s["sum"] = int(v)
				}
			case dto.MetricType_GAUGE:
				s["kind"] = "gauge"
				t, ok := gaugeTok[m.GetGauge().GetValue()]
				if !ok {
					t = -1
				}
				s["last"] = t
			case dto.MetricType_SUMMARY:
				s["kind"] = "summary"
				s["count"] = int(m.GetSummary().GetSampleCount())
			case dto.MetricType_HISTOGRAM:
				s["kind"] = "histogram"
				s["count"] = int(m.GetHistogram().GetSampleCount())
				cum := [][2]int{}
				for _, b := range m.GetHistogram().GetBucket() {
					if t, ok := boundTok[name][b.GetUpperBound()]; ok {
						cum = append(cum, [2]int{t, int(b.GetCumulativeCount())})
					} else if !math.IsInf(b.GetUpperBound(), 1) && boundTok[name] != nil {
						cum = append(cum, [2]int{-1, int(b.GetCumulativeCount())}) // a bound that is not in the spec
					}
				}
				s["cum"] = cum
			default:
				s["kind"] = "other"
			}
			out = append(out, s)
		}
	}
	return out, ""
}

func init() {
	register("c17", "first-use and record histories on the real Prometheus reporter, directly and under tally scopes (C17)", func(args []string) {
		fs := flag.NewFlagSet("c17", flag.ExitOnError)
		cm := commonFlags(fs)
		fs.Parse(args)
		rng := rand.New(rand.NewSource(cm.seed))
		thorough := cm.tier == "thorough"
		tr := NewTrace(filepath.Join(cm.out, "trace.ndjson"))
		devnull, _ := os.OpenFile(os.DevNull, os.O_WRONLY, 0)
		realStderr := os.Stderr
		cbKinds := []string{"custom", "default", "custompanic", "cfg-none", "cfg-log", "cfg-stderr", "cfg-default", "cfg-custom"}
		kinds := []string{"counter", "gauge", "timer", "histogram"}
		tagmaps := []map[string]string{{}, {"k": "v1"}, {"k": "v2"}}
		cases, evals := 0, 0
		distinct := map[string]bool{}
		var samples []interface{}
		gaugeVals := []float64{0.5, -3, 1e300, 5e-324, 42, -0.25, 7}
		gaugeTok := map[float64]int{}
		for i, g := range gaugeVals {
			gaugeTok[g] = i + 1
		}

		type allocOp struct {
			as   string
			name string
			tm   map[string]string
		}
		// runCase: ops = first uses; each live use is followed by nrep reports; via = "reporter" | "scope"
		runCase := func(cbKind, flavour, via string, ops []allocOp, nrep int, specTok map[string][]int, durations bool, table int) {
			os.Stderr = devnull
			c := newC17Case(cbKind, flavour)
			defer func() {
				os.Stderr = realStderr
				log.SetOutput(realStderr)
				if c.closer != nil {
					func() {
						defer func() { recover() }()
						c.closer.Close()
					}()
				}
			}()
			// bounds per name
			boundTok := map[string]map[float64]int{}
			specs := M{}
			bucketsOf := map[string]tally.Buckets{}
			for _, nm := range c17Names {
				toks := specTok[nm]
				specs[nm] = toks
				boundTok[nm] = map[float64]int{}
				if durations {
					var ds tally.DurationBuckets
					for _, t := range toks {
						d := c17DurBounds[table%len(c17DurBounds)][t/2-1]
						ds = append(ds, d)
						boundTok[nm][float64(d)/float64(time.Second)] = t
					}
					bucketsOf[nm] = ds
				} else {
					var vs tally.ValueBuckets
					for _, t := range toks {
						v := c17ValueBounds[table%len(c17ValueBounds)][t/2-1]
						vs = append(vs, v)
						boundTok[nm][v] = t
					}
					bucketsOf[nm] = vs
				}
			}
			tr.Emit(M{"e": "new", "flavour": flavour, "cb": cbKind, "cbPanics": c.cbPanics, "cbObs": c.cbObs, "via": via, "specs": specs, "durations": durations})
			if via == "scope" {
				c.root, c.closer = tally.VerifNewRootScope(tally.ScopeOptions{CachedReporter: c.rep, Separator: tprom.DefaultSeparator,
					SanitizeOptions: &tprom.DefaultSanitizerOpts, OmitCardinalityMetrics: rng.Intn(2) == 0}, 0, 1)
			}
			for _, pr := range c17Prereg {
				keys := []string{"z", "a"}
				var err error
				switch pr.as {
				case "counter":
					_, err = c.rep.RegisterCounter(pr.name, keys, pr.name+" counter")
				case "gauge":
					_, err = c.rep.RegisterGauge(pr.name, keys, pr.name+" gauge")
				case "timer":
					_, err = c.rep.RegisterTimer(pr.name, keys, pr.name+" "+flavour, nil)
				}
				res := "ok"
				if err != nil {
					res = "err"
				}
				tr.Emit(M{"e": "register", "as": pr.as, "name": pr.name, "keys": keys, "res": res})
			}
			// sample token -> concrete value for histogram `nm`
			sampleVal := func(tok int) (float64, time.Duration) {
				K := 4
				if durations {
					tb := c17DurBounds[table%len(c17DurBounds)]
					if tok%2 == 0 {
						return 0, tb[tok/2-1]
					}
					i := tok / 2 // between bound i and i+1 (1-based), i=0: below the first, i=K: above the last
					switch {
					case i == 0:
						return 0, tb[0] - 1
					case i == K:
						return 0, tb[K-1] + 12345
					default:
						return 0, tb[i-1] + (tb[i]-tb[i-1])/2
					}
				}
				tb := c17ValueBounds[table%len(c17ValueBounds)]
				if tok%2 == 0 {
					return tb[tok/2-1], 0
				}
				i := tok / 2
				switch {
				case i == 0:
					return tb[0] - math.Abs(tb[0]) - 1, 0
				case i == K:
					return tb[K-1]*2 + 1, 0
				default:
					return tb[i-1] + (tb[i]-tb[i-1])/2, 0
				}
			}
			type handle struct {
				as  string
				nm  string
				obj interface{}
				tm  map[string]string
			}
			var handles []handle
			hist := []string{cbKind, flavour, via}
			scopeSeen := map[string]bool{}
			for _, op := range ops {
				if via == "scope" {
					// a scope allocates from the reporter on the first use of an identity only
					id := fmt.Sprint(op.as, "|", op.name, "|", tmPairs(op.tm))
					if scopeSeen[id] {
						continue
					}
					scopeSeen[id] = true
				}
				before := c.callbacks()
				res := "live"
				var obj interface{}
				func() {
					defer func() {
						if r := recover(); r != nil {
							res = "panic"
						}
					}()
					if via == "reporter" {
						switch op.as {
						case "counter":
							obj = c.rep.AllocateCounter(op.name, op.tm)
						case "gauge":
							obj = c.rep.AllocateGauge(op.name, op.tm)
						case "timer":
							obj = c.rep.AllocateTimer(op.name, op.tm)
						case "histogram":
							obj = c.rep.AllocateHistogram(op.name, op.tm, bucketsOf[op.name])
						}
						if strings.Contains(fmt.Sprintf("%T", obj), "noop") {
							res = "noop"
						}
					} else {
						sc := c.root
						if len(op.tm) > 0 {
							sc = c.root.Tagged(op.tm)
						}
						switch op.as {
						case "counter":
							obj = sc.Counter(op.name)
						case "gauge":
							obj = sc.Gauge(op.name)
						case "timer":
							obj = sc.Timer(op.name)
						case "histogram":
							obj = sc.Histogram(op.name, bucketsOf[op.name])
						}
						res = "unknown" // live or noop: hidden inside the scope's metric, decided by what Gather shows
					}
				}()
				cb := c.callbacks() - before
				if !c.cbObs {
					cb = -1
				}
				h := 0
				if res != "panic" {
					handles = append(handles, handle{op.as, op.name, obj, op.tm})
					h = len(handles)
				}
				tr.Emit(M{"e": "alloc", "as": op.as, "name": op.name, "tm": tmPairs(op.tm), "h": h, "res": res, "cb": cb})
				hist = append(hist, fmt.Sprintf("%s:%s%v=%s", op.as, op.name, op.tm, res))
				evals++
				if res == "panic" {
					continue
				}
				// reports through the new handle
				for k := 0; k < nrep; k++ {
					v := 0
					rres := "ok"
					func() {
						defer func() {
							if r := recover(); r != nil {
								rres = "panic"
							}
						}()
						switch op.as {
						case "counter":
							v = 1 + rng.Intn(1000)
							if via == "reporter" {
								obj.(tally.CachedCount).ReportCount(int64(v))
							} else {
								obj.(tally.Counter).Inc(int64(v))
							}
						case "gauge":
							v = 1 + rng.Intn(len(gaugeVals))
							if via == "reporter" {
								obj.(tally.CachedGauge).ReportGauge(gaugeVals[v-1])
							} else {
								obj.(tally.Gauge).Update(gaugeVals[v-1])
							}
						case "timer":
							v = 1 + rng.Intn(9)
							d := time.Duration(rng.Int63n(int64(time.Hour)))
							if via == "reporter" {
								obj.(tally.CachedTimer).ReportTimer(d)
							} else {
								obj.(tally.Timer).Record(d)
							}
						case "histogram":
							v = 1 + rng.Intn(9)
							fv, dv := sampleVal(v)
							if via == "reporter" {
								// at reporter level the bucket is chosen by the harness the way tally does: first bound >= sample
								bp := tally.BucketPairs(bucketsOf[op.name])
								for _, p := range bp {
									if durations && dv <= p.UpperBoundDuration() {
										obj.(tally.CachedHistogram).DurationBucket(p.LowerBoundDuration(), p.UpperBoundDuration()).ReportSamples(1)
										break
									}
									if !durations && fv <= p.UpperBoundValue() {
										obj.(tally.CachedHistogram).ValueBucket(p.LowerBoundValue(), p.UpperBoundValue()).ReportSamples(1)
										break
									}
								}
							} else if durations {
								obj.(tally.Histogram).RecordDuration(dv)
							} else {
								obj.(tally.Histogram).RecordValue(fv)
							}
						}
					}()
					tr.Emit(M{"e": "rep", "h": h, "v": v, "res": rres})
					evals++
				}
			}
			pres := "ok"
			if via == "scope" {
				func() {
					defer func() {
						if r := recover(); r != nil {
							pres = "panic"
						}
					}()
					tally.VerifReportOnce(c.root)
				}()
			}
			series, gerr := c.gather(boundTok, gaugeTok)
			tr.Emit(M{"e": "gather", "pass": pres, "err": gerr, "series": series})
			cases++
			key := strings.Join(hist, " ")
			distinct[key] = true
			if len(samples) < 5 && rng.Intn(200) == 0 {
				samples = append(samples, M{"history": key, "gathered_series": len(series)})
			}
		}

		// (A) conflicts: every sequence of <= L first uses over 2 names x 4 kinds x {no tags, k}, per callback flavour x timer flavour, reporter level
		L := 3
		if thorough {
			L = 4
		}
		var allocAlpha []allocOp
		for _, nm := range c17Names[:2] {
			for _, k := range kinds {
				for _, tm := range tagmaps[:2] {
					allocAlpha = append(allocAlpha, allocOp{k, nm, tm})
				}
			}
		}
		spec2 := map[string][]int{"alpha": {2, 6}, "beta_total": {4}, "alpha_k": {2, 6}}
		var seqs [][]allocOp
		var rec func(prefix []allocOp)
		rec = func(prefix []allocOp) {
			if len(prefix) > 0 {
				seqs = append(seqs, append([]allocOp{}, prefix...))
			}
			if len(prefix) == L {
				return
			}
			for _, o := range allocAlpha {
				rec(append(prefix, o))
			}
		}
		rec(nil)
		for i, s := range seqs {
			// all flavours for short sequences, a rotating one for the longest
			for ci, cbKind := range cbKinds {
				for fi, fl := range []string{"summary", "histogram"} {
					if len(s) >= 3 && (i+ci+fi)%8 != 0 && !thorough {
						continue
					}
					if len(s) >= 4 && (i+ci*2+fi)%16 != 0 {
						continue
					}
					via := "reporter"
					if (i+ci)%3 == 0 {
						via = "scope"
					}
					runCase(cbKind, fl, via, s, 1, spec2, i%2 == 0, i)
				}
			}
		}
		// (A') ids that collide when name and keys are flattened carelessly (alpha+[k] vs alpha_k+[]), same kind:
		//      two legitimate, distinct families
		for ci, cbKind := range []string{"custom", "cfg-none", "default"} {
			for _, k := range kinds {
				for _, order := range [][2]allocOp{{{k, "alpha", tagmaps[1]}, {k, "alpha_k", tagmaps[0]}}, {{k, "alpha_k", tagmaps[0]}, {k, "alpha", tagmaps[2]}}} {
					via := "reporter"
					if ci == 1 {
						via = "scope"
					}
					runCase(cbKind, "histogram", via, []allocOp{order[0], order[1], order[0]}, 2, spec2, false, ci)
				}
			}
		}
		// (B) values: random record histories, names not reused across kinds, several tag values, all bucket specs
		nv := 400
		if thorough {
			nv = 4000
		}
		for i := 0; i < nv; i++ {
			// name -> kind assignment without reuse
			kindOf := map[string]string{c17Names[0]: kinds[rng.Intn(4)], c17Names[1]: kinds[rng.Intn(4)], c17Names[2]: kinds[rng.Intn(4)]}
			prereg := i%3 == 1 // families declared up front through Register*, label keys in the caller's own (non-alphabetical) order
			specTok := map[string][]int{}
			for _, nm := range c17Names {
				var toks []int
				for t := 2; t <= 8; t += 2 {
					if rng.Intn(2) == 0 {
						toks = append(toks, t)
					}
				}
				if len(toks) == 0 {
					toks = []int{2 * (1 + rng.Intn(4))}
				}
				specTok[nm] = toks
			}
			var ops []allocOp
			no := 1 + rng.Intn(5)
			withTags := rng.Intn(2) == 0
			for k := 0; k < no; k++ {
				nm := c17Names[rng.Intn(3)]
				tm := map[string]string{}
				if withTags {
					tm = map[string]string{"k": c17Vals[rng.Intn(2)]}
				}
				if prereg {
					tm = map[string]string{"a": c17Vals[rng.Intn(2)], "z": c17Vals[rng.Intn(2)]}
				}
				ops = append(ops, allocOp{kindOf[nm], nm, tm})
			}
			via := "scope"
			if i%4 == 0 {
				via = "reporter"
			}
			fl := "summary"
			if rng.Intn(2) == 0 {
				fl = "histogram"
			}
			c17Prereg = nil
			if prereg {
				for _, nm := range c17Names {
					if kindOf[nm] != "histogram" {
						c17Prereg = append(c17Prereg, allocOp{kindOf[nm], nm, nil})
					}
				}
			}
			runCase("custom", fl, via, ops, 1+rng.Intn(6), specTok, rng.Intn(2) == 0, rng.Intn(6))
			c17Prereg = nil
		}
		// (C) concurrent first use of one family (same name and tag keys, different tag values) from several goroutines:
		//     get-or-register must be atomic - nobody's registration is rejected, every series is there
		nc := 400
		if thorough {
			nc = 4000
		}
		for i := 0; i < nc; i++ {
			const G = 4
			c := newC17Case("custom", "summary")
			kind := kinds[i%4]
			tr.Emit(M{"e": "new", "flavour": "summary", "cb": "custom", "cbPanics": false, "cbObs": false, "via": "reporter-concurrent", "specs": M{"alpha": []int{2, 6}, "beta_total": []int{4}, "alpha_k": []int{2, 6}}, "durations": false})
			objs := make([]interface{}, G)
			var wg sync.WaitGroup
			start := make(chan struct{})
			for g := 0; g < G; g++ {
				g := g
				wg.Add(1)
				go func() {
					defer wg.Done()
					defer func() { recover() }()
					tm := map[string]string{"k": fmt.Sprintf("w%d", g)}
					<-start
					switch kind {
					case "counter":
						objs[g] = c.rep.AllocateCounter("alpha", tm)
					case "gauge":
						objs[g] = c.rep.AllocateGauge("alpha", tm)
					case "timer":
						objs[g] = c.rep.AllocateTimer("alpha", tm)
					case "histogram":
						objs[g] = c.rep.AllocateHistogram("alpha", tm, tally.ValueBuckets{0.001, 1000.5})
					}
				}()
			}
			close(start)
			wg.Wait()
			for g := 0; g < G; g++ {
				res := "live"
				if objs[g] == nil {
					res = "panic"
				} else if strings.Contains(fmt.Sprintf("%T", objs[g]), "noop") {
					res = "noop"
				}
				h := 0
				if res != "panic" {
					h = g + 1
				}
				tr.Emit(M{"e": "alloc", "as": kind, "name": "alpha", "tm": [][2]string{{"k", fmt.Sprintf("w%d", g)}}, "h": h, "res": res, "cb": -1})
				evals++
				if res == "panic" {
					continue
				}
				v := g + 1
				switch kind {
				case "counter":
					objs[g].(tally.CachedCount).ReportCount(int64(v))
				case "gauge":
					objs[g].(tally.CachedGauge).ReportGauge(gaugeVals[v-1])
				case "timer":
					objs[g].(tally.CachedTimer).ReportTimer(time.Second)
				case "histogram":
					objs[g].(tally.CachedHistogram).ValueBucket(0.001, 1000.5).ReportSamples(1)
					v = 3
				}
				tr.Emit(M{"e": "rep", "h": h, "v": v, "res": "ok"})
			}
			tr.Emit(M{"e": "cbtotal", "n": c.callbacks()})
			series, gerr := c.gather(map[string]map[float64]int{"alpha": {0.001: 2, 1000.5: 6}}, gaugeTok)
			tr.Emit(M{"e": "gather", "pass": "ok", "err": gerr, "series": series})
			cases++
		}
		distinct["concurrent-first-use"] = true
		// one pass can carry any number of samples for one bucket (a burst between two report passes): the exposed
		// count is the sum of what was reported, whatever the size of the burst
		for _, burst := range []int64{1, 65535, 65536, 65537, 200000} {
			reg := prom.NewRegistry()
			rep := tprom.NewReporter(tprom.Options{Registerer: reg})
			hb := rep.AllocateHistogram("bulk", map[string]string{"k": "v"}, tally.ValueBuckets{1, 2})
			hb.ValueBucket(1, 2).ReportSamples(burst)
			hb.ValueBucket(1, 2).ReportSamples(3)
			hb.ValueBucket(2, math.MaxFloat64).ReportSamples(2)
			exposed := int64(-1)
			if fams, err := reg.Gather(); err == nil {
				for _, f := range fams {
					if f.GetName() == "bulk" && len(f.GetMetric()) == 1 {
						exposed = int64(f.GetMetric()[0].GetHistogram().GetSampleCount())
					}
				}
			}
			tr.Emit(M{"e": "bulk", "reported": burst + 5, "exposed": exposed})
			evals++
		}
		tr.Close()
		writeMeta(cm.out, M{"cases": cases, "events": tr.N, "evals": evals, "distinct": len(distinct), "samples": samples})
	})
}
