package main

import (
	"net"
	"syscall"
	"time"

	m3thrift "github.com/uber-go/tally/v4/m3/thrift/v2"
	"github.com/uber-go/tally/v4/thirdparty/github.com/apache/thrift/lib/go/thrift"
)

// udpSink is a loopback UDP listener.  Sends on loopback are synchronous: when the sender's write
// returns the datagram is in the sink's receive queue, so draining with a short deadline after a
// call observes exactly what that call put on the wire.
type udpSink struct {
	conn *net.UDPConn
	buf  []byte
}

func newUDPSink() *udpSink {
	c, err := net.ListenUDP("udp", &net.UDPAddr{IP: net.IPv4(127, 0, 0, 1)})
	if err != nil {
		fatal("listen udp: %v", err)
	}
	c.SetReadBuffer(8 << 20)
	return &udpSink{conn: c, buf: make([]byte, 1<<17)}
}

func (s *udpSink) addr() string { return s.conn.LocalAddr().String() }

// drain returns the datagrams queued right now (copies). wait is how long to wait for the first one
// (0 = do not wait: non-blocking receives until the queue is empty).
func (s *udpSink) drain(wait time.Duration) [][]byte {
	var out [][]byte
	if wait == 0 {
		rc, err := s.conn.SyscallConn()
		if err != nil {
			fatal("syscallconn: %v", err)
		}
		rc.Read(func(fd uintptr) bool {
			for {
				n, _, err := syscall.Recvfrom(int(fd), s.buf, syscall.MSG_DONTWAIT)
				if err != nil {
					if err == syscall.EINTR {
						continue
					}
					return true
				}
				out = append(out, append([]byte(nil), s.buf[:n]...))
			}
		})
		return out
	}
	for {
		s.conn.SetReadDeadline(time.Now().Add(wait))
		n, _, err := s.conn.ReadFromUDP(s.buf)
		if err != nil {
			return out
		}
		out = append(out, append([]byte(nil), s.buf[:n]...))
		wait = 200 * time.Microsecond
	}
}

// drainN waits (at most `timeout`) until n datagrams have been read, then takes whatever else is queued.
// Loopback delivery is usually complete when the sender's write returns, but the receive side runs in a
// softirq that a busy machine may defer: what the sender is KNOWN to have sent is waited for.
func (s *udpSink) drainN(n int, timeout time.Duration) [][]byte {
	out := s.drain(0)
	deadline := time.Now().Add(timeout)
	for len(out) < n && time.Now().Before(deadline) {
		out = append(out, s.drain(200*time.Microsecond)...)
	}
	return out
}

func (s *udpSink) close() { s.conn.Close() }

// decodeBatch decodes one datagram as the one-way thrift call emitMetricBatchV2(MetricBatch).
// ok=false when it is not exactly one well-formed message.
func decodeBatch(dgram []byte, compact bool) (batch m3thrift.MetricBatch, seq int32, ok bool, why string) {
	defer func() {
		if r := recover(); r != nil {
			ok, why = false, "panic while decoding"
		}
	}()
	mb := thrift.NewTMemoryBuffer()
	mb.Write(dgram)
	var proto thrift.TProtocol
	if compact {
		proto = thrift.NewTCompactProtocol(mb)
	} else {
		proto = thrift.NewTBinaryProtocolTransport(mb)
	}
	name, typ, seqid, err := proto.ReadMessageBegin()
	if err != nil {
		return batch, 0, false, "message begin: " + err.Error()
	}
	if name != "emitMetricBatchV2" || typ != thrift.ONEWAY {
		return batch, 0, false, "not a one-way emitMetricBatchV2 message"
	}
	args := m3thrift.M3EmitMetricBatchV2Args{}
	if err := args.Read(proto); err != nil {
		return batch, 0, false, "args: " + err.Error()
	}
	if err := proto.ReadMessageEnd(); err != nil {
		return batch, 0, false, "message end: " + err.Error()
	}
	if mb.Len() != 0 {
		return batch, 0, false, "trailing bytes after the message"
	}
	return args.Batch, seqid, true, ""
}

// deadUDPAddr returns a loopback address nobody listens on: a connected UDP socket sending there gets
// ECONNREFUSED on every other send (the ICMP answer to the previous datagram).
var deadSock *net.UDPConn

// deadUDPAddr is a loopback UDP address on which nobody listens: sends to it are answered with "port
// unreachable" (the next write on a connected sender socket fails with ECONNREFUSED).  The port stays
// reserved for the life of the process - a socket bound to it and connected to another peer does not match
// datagrams from anybody else - so that no sink created later can be given the same port.
func deadUDPAddr() string {
	if deadSock == nil {
		c, err := net.DialUDP("udp", &net.UDPAddr{IP: net.IPv4(127, 0, 0, 1)}, &net.UDPAddr{IP: net.IPv4(127, 0, 0, 1), Port: 9})
		if err != nil {
			fatal("dial udp: %v", err)
		}
		deadSock = c
	}
	return deadSock.LocalAddr().String()
}
