package main

import (
	"errors"
	"flag"
	"math/rand"
	"path/filepath"
	"time"

	tally "github.com/uber-go/tally/v4"
	"github.com/uber-go/tally/v4/instrument"
)

// c10seq: stopwatches and instrumented calls over a harness-driven clock (C10).
func init() {
	register("c10seq", "stopwatch / instrument.Call histories over a driven clock (C10)", func(args []string) {
		fs := flag.NewFlagSet("c10seq", flag.ExitOnError)
		cm := commonFlags(fs)
		fs.Parse(args)
		rng := rand.New(rand.NewSource(cm.seed))
		tr := NewTrace(filepath.Join(cm.out, "trace.ndjson"))
		nHist := 300
		if cm.tier == "thorough" {
			nHist = 6000
		}
		var clk int64
		unit := time.Duration(1) // one clock unit in ns; varied per history
		base := time.Unix(1700000000, 0)
		tally.VerifSetNow(func() time.Time { return base.Add(time.Duration(clk) * unit) })
		defer tally.VerifSetNow(nil)
		var samples []interface{}
		evals := 0
		distinct := map[string]bool{}
		for h := 0; h < nHist; h++ {
			clk = 0
			unit = []time.Duration{1, 7, time.Millisecond, time.Second, 3 * time.Hour}[h%5]
			path := []string{"plain", "cached", "test", "hist-plain", "hist-cached"}[(h/5)%5]
			tr.Emit(M{"e": "reset", "path": path, "unit": int64(unit)})
			var plain *recReporter
			var cached *recCached
			var scope tally.Scope
			var ts tally.TestScope
			opts := tally.ScopeOptions{OmitCardinalityMetrics: true}
			switch path {
			case "plain", "hist-plain":
				plain = &recReporter{}
				opts.Reporter = plain
				scope, _ = tally.VerifNewRootScope(opts, 0, 1)
			case "cached", "hist-cached":
				cached = &recCached{}
				opts.CachedReporter = cached
				scope, _ = tally.VerifNewRootScope(opts, 0, 1)
			case "test":
				ts = tally.VerifNewTestScope("", nil, 1)
				scope = ts
			}
			// duration histogram whose bucket upper bounds are -30..40 clock units: the bucket identifies the elapsed time exactly
			var hb tally.DurationBuckets
			for i := -30; i <= 40; i++ { // negative: the clock may be stepped back between Start and Stop
				hb = append(hb, time.Duration(i)*unit)
			}
			timer := scope.Timer("t")
			hist := scope.Histogram("h", hb)
			call := instrument.NewCall(scope, "op")
			take := func() (timers []time.Duration, counters map[string]int64, hups []time.Duration) {
				counters = map[string]int64{}
				var calls []recCall
				switch {
				case plain != nil:
					tally.VerifReportOnce(scope)
					calls = plain.take()
				case cached != nil:
					tally.VerifReportOnce(scope)
					calls = cached.take()
				}
				for _, c := range calls {
					if c.Alloc {
						continue
					}
					switch c.Kind {
					case "timer":
						timers = append(timers, c.D)
					case "counter":
						counters[renderID(c.Name, c.Tags)] += c.I
					case "hd":
						for i := int64(0); i < c.Hist.Count; i++ {
							hups = append(hups, c.Hist.HiD)
						}
					}
				}
				return
			}
			var snapTimers map[string]int
			var snapCounters map[string]int64
			var snapHist map[time.Duration]int64
			if ts != nil {
				snapTimers, snapCounters, snapHist = map[string]int{}, map[string]int64{}, map[time.Duration]int64{}
			}
			takeTest := func() (timers []time.Duration, counters map[string]int64, hups []time.Duration) {
				counters = map[string]int64{}
				sn := ts.Snapshot()
				for id, t := range sn.Timers() {
					vs := t.Values()
					timers = append(timers, vs[snapTimers[id]:]...)
					snapTimers[id] = len(vs)
				}
				for _, c := range sn.Counters() {
					id := renderID(c.Name(), c.Tags())
					counters[id] = c.Value() - snapCounters[id]
					snapCounters[id] = c.Value()
				}
				for _, hs := range sn.Histograms() {
					for up, n := range hs.Durations() {
						for i := int64(0); i < n-snapHist[up]; i++ {
							hups = append(hups, up)
						}
						snapHist[up] = n
					}
				}
				return
			}
			obs := take
			if ts != nil {
				obs = takeTest
			}
			type swInfo struct {
				sw   tally.Stopwatch
				hist bool
			}
			var sws []swInfo
			open := []int{}
			nops := 4 + rng.Intn(8)
			desc := ""
			for i := 0; i < nops; i++ {
				switch k := rng.Intn(5); {
				case k == 0:
					d := int64(1 + rng.Intn(3))
					if rng.Intn(5) == 0 {
						d = -int64(1 + rng.Intn(2)) // the clock is stepped back: elapsed times may be negative
					}
					clk += d
					tr.Emit(M{"e": "tick", "d": d})
					desc += "T"
				case k == 1 && len(sws) < 6:
					useHist := path == "hist-plain" || path == "hist-cached" || (path == "test" && rng.Intn(2) == 0)
					if useHist {
						sws = append(sws, swInfo{hist.Start(), true})
					} else {
						sws = append(sws, swInfo{timer.Start(), false})
					}
					open = append(open, len(sws))
					tr.Emit(M{"e": "start", "sw": len(sws)})
					desc += "S"
				case k == 2 && len(open) > 0:
					j := rng.Intn(len(open))
					id := open[j]
					open = append(open[:j], open[j+1:]...)
					obs() // discard anything pending
					sws[id-1].sw.Stop()
					timers, _, hups := obs()
					got := int64(-999)
					if sws[id-1].hist && len(hups) == 1 && len(timers) == 0 {
						got = int64(hups[0] / unit)
					} else if !sws[id-1].hist && len(timers) == 1 && len(hups) == 0 && timers[0]%unit == 0 {
						got = int64(timers[0] / unit)
					}
					tr.Emit(M{"e": "stop", "sw": id, "got": got})
					evals++
					desc += "P"
				default:
					obs()
					outcome := []string{"ok", "err"}[rng.Intn(2)]
					d := int64(rng.Intn(3))
					want := errors.New("boom")
					if outcome == "err" && rng.Intn(3) == 0 {
						// a non-nil error value that wraps a nil pointer: `err != nil` holds for it, Exec must treat it as an error
						// and hand back the very same value
						want = error((*c10TypedErr)(nil))
					}
					ran := 0
					var ret error
					func() {
						defer func() { recover() }()
						ret = call.Exec(func() error {
							ran++
							clk += d
							if outcome == "err" {
								return want
							}
							return nil
						})
					}()
					timers, counters, _ := obs()
					lat := []int64{}
					for _, t := range timers {
						if t%unit == 0 {
							lat = append(lat, int64(t/unit))
						} else {
							lat = append(lat, -999)
						}
					}
					same := (outcome == "err" && ret == want) || (outcome == "ok" && ret == nil)
					tr.Emit(M{"e": "exec", "outcome": outcome, "d": d, "ran": ran, "lat": lat,
						"succ": counters["op{result_type=success}"], "errs": counters["op{result_type=error}"], "same": same})
					evals++
					desc += "E" + outcome[:1]
				}
			}
			distinct[path+desc] = true
			if len(samples) < 5 {
				samples = append(samples, M{"path": path, "unit_ns": int64(unit), "history": desc})
			}
		}
		tr.Close()
		writeMeta(cm.out, M{"histories": nHist, "events": tr.N, "evals": evals, "distinct": len(distinct), "samples": samples})
	})
}

type c10TypedErr struct{}

func (*c10TypedErr) Error() string { return "typed nil" }
