package main

import (
	"flag"
	"fmt"
	"math/rand"
	"path/filepath"
	"runtime"
	"sort"
	"strings"
	"sync"
	"sync/atomic"
	"time"

	tally "github.com/uber-go/tally/v4"
	"github.com/uber-go/tally/v4/m3"
	m3thrift "github.com/uber-go/tally/v4/m3/thrift/v2"

	"verif/harness/sched"
)

// Scheduler-driven scenarios on the real M3 reporter (C13, C14, batching part of C12): producers, Flush
// callers and Close callers are harness goroutines parked at the m3r_/m3f_/m3c_ hook points; the reporter's
// own batching goroutine is adopted at m3p_recv. The clock goroutine has no hook points and runs freely.
// Every datagram a loopback sink receives is decoded with the repository's thrift types.

type m3Scenario struct {
	Name       string   `json:"name"`
	Producers  int      `json:"producers"`
	NRep       int      `json:"nrep"`
	Flushers   int      `json:"flushers"`
	Closers    int      `json:"closers"`
	QCap       int      `json:"qcap"`
	Compact    bool     `json:"compact"`
	MaxPacket  int      `json:"max_packet"`
	Late       bool     `json:"late"`        // each closer reports once more after its Close returned
	SameBucket bool     `json:"same_bucket"` // all producers report through ONE histogram bucket handle
	Dests      int      `json:"dests"`
	Dead       int      `json:"dead"`        // the first Dead destinations are ports nobody listens on (send errors)
	CloseAfter int      `json:"close_after"` // Close callers start only after this many report calls have returned
	Points     []string `json:"points,omitempty"`
}

type m3Run struct {
	sc                           *m3Scenario
	s                            *sched.Sched
	mu                           sync.Mutex
	ev                           []M
	rep                          m3.Reporter
	sinks                        []*udpSink
	constructedLo, constructedHi int64
	callLo, callHi               map[string]int64 // per report id: wall clock just before the call / just after it returned
	cid                          map[string]int   // report key (name#value) -> index of its call event (1-based, per execution)
	tn                           map[string]int   // per thread: number of report calls made
	emits                        atomic.Int64     // batches the batching goroutine has handed to the transport
	received                     []int            // datagrams drained so far, per sink
	nret                         int              // report calls that have returned
	metClosed                    bool
	sinceSpin                    map[string]int
	panics                       []string
}

func (r *m3Run) log(m M) {
	r.mu.Lock()
	r.ev = append(r.ev, m)
	r.mu.Unlock()
}

func tagPairs(tags []m3thrift.MetricTag) [][2]string {
	out := make([][2]string, 0, len(tags))
	for _, t := range tags {
		out = append(out, [2]string{t.Name, t.Value})
	}
	sort.Slice(out, func(i, j int) bool { return out[i][0] < out[j][0] || out[i][0] == out[j][0] && out[i][1] < out[j][1] })
	return out
}

func metricKindValue(m m3thrift.Metric) (string, string) {
	switch m.Value.MetricType {
	case m3thrift.MetricType_COUNTER:
		return "counter", fmt.Sprint(m.Value.Count)
	case m3thrift.MetricType_GAUGE:
		return "gauge", fbits(m.Value.Gauge)
	case m3thrift.MetricType_TIMER:
		return "timer", fmt.Sprint(m.Value.Timer)
	}
	return "invalid", ""
}

// drain decodes what the sinks received and logs one emit event per datagram
func (r *m3Run) drain(commonWant map[string]string) {
	if r.received == nil {
		r.received = make([]int, len(r.sinks))
	}
	for si, s := range r.sinks {
		if s == nil {
			continue
		}
		// what the sender is known to have emitted is waited for (loopback delivery may lag on a busy machine)
		want := int(r.emits.Load()) - r.received[si]
		dgs := s.drainN(want, 300*time.Millisecond)
		r.received[si] += len(dgs)
		if len(dgs) < want {
			// an emit that produced no datagram here (refused by the transport): written off, not waited for again
			r.received[si] += want - len(dgs)
		}
		for _, d := range dgs {
			b, _, ok, why := decodeBatch(d, r.sc.Compact)
			ev := M{"e": "emit", "dest": si + 1, "len": len(d), "ok": ok, "why": why, "mets": []M{}, "common_ok": true, "alone_ok": true, "nall": 0}
			if ok {
				ct := map[string]string{}
				for _, t := range b.CommonTags {
					ct[t.Name] = t.Value
				}
				cok := len(ct) == len(commonWant) && len(b.CommonTags) == len(commonWant)
				for k, v := range commonWant {
					if ct[k] != v {
						cok = false
					}
				}
				ev["common_ok"] = cok
				// C12's proviso "provided each single metric fits on its own": envelope + that metric alone within the limit
				sum, largest := 0, 0
				for _, m := range b.Metrics {
					n := encodedMetricLen(m, r.sc.Compact)
					sum += n
					if n > largest {
						largest = n
					}
				}
				maxp := r.sc.MaxPacket
				if maxp == 0 {
					maxp = 1440
				}
				ev["alone_ok"] = len(d)-sum+largest <= maxp
				ev["nall"] = len(b.Metrics)
				mets := []M{}
				for _, m := range b.Metrics {
					if strings.HasPrefix(m.Name, "tally.internal") {
						continue
					}
					k, v := metricKindValue(m)
					id := m.Name + "#" + v
					rel := "ok"
					r.mu.Lock()
					hi, seen := r.callHi[id]
					cid := r.cid[id]
					r.mu.Unlock()
					switch {
					case m.Timestamp < r.constructedLo:
						rel = "before-construction"
					case seen && hi != 0 && m.Timestamp > hi:
						rel = "after-return"
					}
					mets = append(mets, M{"cid": cid, "name": m.Name, "kind": k, "v": v, "tags": tagPairs(m.Tags), "ts": rel})
				}
				ev["mets"] = mets
			}
			r.log(ev)
		}
	}
}

func reporterGoroutinesAlive() bool {
	buf := make([]byte, 1<<20)
	n := runtime.Stack(buf, true)
	st := string(buf[:n])
	return strings.Contains(st, "m3.(*reporter).process") || strings.Contains(st, "m3.(*reporter).timeLoop")
}

var m3Leaked bool

// Step-level traces (validated against M3StepTrace.tla): one file per scenario, whose first line gives the model
// constants of the scenario (thread sets, reports per producer, queue capacity).
var m3StepOut string
var m3StepSides = map[string]*Trace{}

func m3StepTraceOf(sc *m3Scenario) *Trace {
	if m3StepOut == "" {
		return nil
	}
	tr := m3StepSides[sc.Name]
	if tr == nil {
		tr = NewTrace(filepath.Join(m3StepOut, "steps-"+sc.Name+".ndjson"))
		m3StepSides[sc.Name] = tr
		names := func(prefix string, n int) []string {
			out := []string{}
			for i := 1; i <= n; i++ {
				out = append(out, fmt.Sprintf("%s%d", prefix, i))
			}
			return out
		}
		tr.Emit(M{"e": "cfg", "scenario": sc.Name, "producers": names("p", sc.Producers), "nrep": max1(sc.NRep), "flushers": names("f", sc.Flushers),
			"closers": names("z", sc.Closers), "qcap": sc.QCap})
	}
	return tr
}

var m3Common = map[string]string{"service": "svc", "env": "test", "dc": "x1"}

func m3Execute(sc *m3Scenario, choose sched.Chooser) (ev []M, steps []sched.Step, stuck string) {
	r := &m3Run{sc: sc, callLo: map[string]int64{}, callHi: map[string]int64{}, sinceSpin: map[string]int{}, cid: map[string]int{}, tn: map[string]int{}}
	r.s = sched.New()
	s := r.s
	if sc.Points != nil {
		s.Interesting = map[string]bool{}
		for _, p := range sc.Points {
			s.Interesting[p] = true
		}
	}
	s.Adopt("m3p_", "proc")
	s.Terminal["m3p_exit"] = true
	s.Daemon["proc"] = true // an idle batching goroutine is not a deadlock; a Close waiting for it is
	s.MayBlock["m3c_wait"] = true
	s.StuckWait = 3 * time.Second
	tally.VerifSetHook(s.Hook, func(point string, a, b int64, str string) {
		if point == "m3p_emit" {
			r.emits.Add(1) // the batching goroutine has handed a batch to the transport: one datagram per destination is on its way
		}
	})
	defer tally.VerifSetHook(nil, nil)
	dests := sc.Dests
	if dests < 1 {
		dests = 1
	}
	var addrs []string
	for i := 0; i < dests; i++ {
		if i < sc.Dead {
			r.sinks = append(r.sinks, nil)
			addrs = append(addrs, deadUDPAddr())
			continue
		}
		sk := newUDPSink()
		r.sinks = append(r.sinks, sk)
		addrs = append(addrs, sk.addr())
	}
	defer func() {
		for _, sk := range r.sinks {
			if sk != nil {
				sk.close()
			}
		}
	}()
	proto := m3.Compact
	if !sc.Compact {
		proto = m3.Binary
	}
	maxPacket := sc.MaxPacket
	if maxPacket == 0 {
		maxPacket = 1440
	}
	r.constructedLo = time.Now().UnixNano()
	rep, err := m3.NewReporter(m3.Options{HostPorts: addrs, Service: "svc", Env: "test", CommonTags: map[string]string{"dc": "x1"},
		Protocol: proto, MaxQueueSize: sc.QCap, MaxPacketSizeBytes: int32(maxPacket)})
	if err != nil {
		fatal("m3.NewReporter: %v", err)
	}
	r.constructedHi = time.Now().UnixNano()
	r.rep = rep
	if err := s.WaitParked("proc"); err != nil {
		return nil, nil, "reporter's batching goroutine did not reach its first receive: " + err.Error()
	}
	// the batching goroutine can receive when the queue is non-empty or (observed) closed
	s.Override["m3p_recv"] = func() bool {
		return m3.VerifStateOf(rep).QueueLen > 0 || r.metClosed
	}
	// a spin iteration of Close that found pending > 0 is repeated only after somebody else moved
	s.Override["m3c_spin"] = func() bool { return true }
	spun := map[string]bool{}
	s.Override["m3c_spin"] = func() bool {
		for t, n := range r.sinceSpin {
			if spun[t] && n == 0 {
				_ = t
				return false
			}
		}
		return true
	}
	s.StepHook = func(st sched.Step) {
		if m3StepTrace := m3StepTraceOf(sc); m3StepTrace != nil {
			// step-level trace: the step about to be taken and the projection of the reporter before it
			ps := m3.VerifStateOf(rep)
			m3StepTrace.Emit(M{"e": "step", "t": st.Thread, "p": st.Point, "pending": int(ps.Pending), "done": ps.Done, "qlen": ps.QueueLen})
		}
		r.drain(m3Common)
		if st.Point == "m3c_spin" {
			spun[st.Thread] = true
			r.sinceSpin[st.Thread] = 0
		} else {
			for t := range r.sinceSpin {
				r.sinceSpin[t]++
			}
		}
	}
	s.ParkHook = func(thread, point string) {
		if point == "m3c_wait" {
			r.metClosed = true
		}
	}
	guard := func(t string, f func()) func() {
		return func() {
			defer func() {
				if p := recover(); p != nil {
					r.mu.Lock()
					r.panics = append(r.panics, fmt.Sprint(p))
					r.mu.Unlock()
					r.log(M{"e": "panic", "t": t, "msg": fmt.Sprint(p)})
				}
			}()
			f()
		}
	}
	report := func(t string, h interface{}, kind, name string, tags map[string]string, v int64) {
		var vs string
		switch kind {
		case "counter", "bucket":
			vs = fmt.Sprint(v)
		case "gauge":
			vs = fbits(float64(v) + 0.5)
		case "timer":
			vs = fmt.Sprint(v * 1000003)
		}
		id := name + "#" + vs
		k := kind
		if kind == "bucket" {
			k = "counter"
		}
		want := tags
		if kind == "bucket" {
			// ValueBuckets{1, 2}.ValueBucket(1, 2) is the second of three buckets: the bucket tags the reporter appends
			want = map[string]string{"bucketid": "0001", "bucket": "1.000000-2.000000"}
			if strings.HasSuffix(sc.Name, "-dur") {
				want["bucket"] = "1s-2s"
			}
			for k2, v2 := range tags {
				want[k2] = v2
			}
		}
		r.mu.Lock()
		r.tn[t]++
		r.cid[id] = len(r.cid) + 1
		r.ev = append(r.ev, M{"e": "call", "t": t, "op": "report", "cid": r.cid[id], "tn": r.tn[t], "name": name, "kind": k, "v": vs, "tags": tmPairs(want), "bucket": kind == "bucket"})
		r.callLo[id] = time.Now().UnixNano()
		r.mu.Unlock()
		switch kind {
		case "counter":
			h.(tally.CachedCount).ReportCount(v)
		case "gauge":
			h.(tally.CachedGauge).ReportGauge(float64(v) + 0.5)
		case "timer":
			h.(tally.CachedTimer).ReportTimer(time.Duration(v * 1000003))
		case "bucket":
			h.(tally.CachedHistogramBucket).ReportSamples(v)
		}
		r.mu.Lock()
		r.callHi[id] = time.Now().UnixNano()
		r.mu.Unlock()
		r.mu.Lock()
		c := r.cid[id]
		r.nret++
		r.mu.Unlock()
		r.log(M{"e": "ret", "t": t, "op": "report", "cid": c, "name": name, "v": vs})
	}
	kinds := []string{"counter", "gauge", "timer", "bucket"}
	var sharedBucket tally.CachedHistogramBucket
	if sc.SameBucket {
		if strings.HasSuffix(sc.Name, "-dur") {
			sharedBucket = rep.AllocateHistogram("hshared", map[string]string{"t": "all"}, tally.DurationBuckets{time.Second, 2 * time.Second}).DurationBucket(time.Second, 2*time.Second)
		} else {
			sharedBucket = rep.AllocateHistogram("hshared", map[string]string{"t": "all"}, tally.ValueBuckets{1, 2}).ValueBucket(1, 2)
		}
	}
	for pi := 0; pi < sc.Producers; pi++ {
		t := fmt.Sprintf("p%d", pi+1)
		kind := kinds[pi%len(kinds)]
		name := "m_" + t
		tags := map[string]string{"t": t, "k": kind}
		var h interface{}
		switch kind {
		case "counter":
			h = rep.AllocateCounter(name, tags)
		case "gauge":
			h = rep.AllocateGauge(name, tags)
		case "timer":
			h = rep.AllocateTimer(name, tags)
		case "bucket":
			h = rep.AllocateHistogram(name, tags, tally.ValueBuckets{1, 2}).ValueBucket(1, 2)
		}
		if sc.SameBucket {
			kind, name, tags, h = "bucket", "hshared", map[string]string{"t": "all"}, sharedBucket
		}
		pi := pi
		s.Go(t, guard(t, func() {
			for i := 1; i <= sc.NRep; i++ {
				report(t, h, kind, name, tags, int64(100*(pi+1)+i))
			}
		}))
	}
	for fi := 0; fi < sc.Flushers; fi++ {
		t := fmt.Sprintf("f%d", fi+1)
		s.Go(t, guard(t, func() {
			r.log(M{"e": "call", "t": t, "op": "flush"})
			rep.Flush()
			r.log(M{"e": "ret", "t": t, "op": "flush"})
		}))
	}
	for ci := 0; ci < sc.Closers; ci++ {
		t := fmt.Sprintf("z%d", ci+1)
		var late tally.CachedCount
		if sc.Late {
			late = rep.AllocateCounter("late_"+t, map[string]string{"t": t})
		}
		s.Go(t, guard(t, func() {
			if sc.CloseAfter > 0 {
				s.YieldIf("z_gate", func() bool {
					r.mu.Lock()
					defer r.mu.Unlock()
					return r.nret >= sc.CloseAfter
				})
			}
			r.log(M{"e": "call", "t": t, "op": "close"})
			err := rep.Close()
			alive := false
			if err == nil && !m3Leaked {
				alive = reporterGoroutinesAlive()
			}
			r.log(M{"e": "ret", "t": t, "op": "close", "err": err != nil, "alive": alive})
			if sc.Late {
				report(t, late, "counter", "late_"+t, map[string]string{"t": t}, 7)
			}
		}))
	}
	s.Run(choose)
	steps = s.Steps
	stuck = s.Stuck
	dead := s.Deadlock
	over := s.Overrun
	st := m3.VerifStateOf(rep)
	s.Abandon()
	time.Sleep(200 * time.Microsecond)
	r.drain(m3Common)
	if dead {
		pts := []string{}
		for _, n := range []string{"proc", "p1", "p2", "p3", "f1", "z1", "z2"} {
			if p := s.PointOf(n); p != "" {
				pts = append(pts, n+"@"+p)
			}
		}
		r.log(M{"e": "deadlock", "where": strings.Join(pts, " ")})
	}
	if over {
		stuck = "step bound exceeded"
	}
	r.log(M{"e": "end", "pending": int(st.Pending), "qlen": st.QueueLen, "done": st.Done})
	r.mu.Lock()
	ev = r.ev
	r.ev = nil
	r.mu.Unlock()
	// shut the reporter down completely before the next execution installs its scheduler: a goroutine of this
	// execution that reached a hook later would be taken for a thread of the next one
	tally.VerifSetHook(nil, nil)
	closed := make(chan struct{})
	go func() {
		defer close(closed)
		defer func() { recover() }()
		rep.Close()
	}()
	select {
	case <-closed:
	case <-time.After(2 * time.Second):
	}
	for i := 0; i < 2000 && !m3Leaked && reporterGoroutinesAlive(); i++ {
		time.Sleep(time.Millisecond)
	}
	if !m3Leaked && reporterGoroutinesAlive() {
		if stuck == "" && !dead && len(r.panics) == 0 {
			stuck = "reporter goroutines of a finished execution did not end"
		}
		// goroutines of an execution that deadlocked or panicked stay behind: from now on "alive after Close" cannot be observed
		m3Leaked = true
	}
	return ev, steps, stuck
}

type m3Stats struct {
	execs, events, steps, stuck int
	broken                      int
	distinct                    map[string]bool
	exhausted                   bool
	stuckMsg                    string
}

func m3Emit(tr *Trace, side *Trace, sc *m3Scenario, ev []M, steps []sched.Step, stuck string, st *m3Stats) {
	execSeq++
	if m3StepTrace := m3StepTraceOf(sc); m3StepTrace != nil {
		m3StepTrace.Emit(M{"e": "endx", "x": execSeq, "scenario": sc.Name})
	}
	tr.Emit(M{"e": "scn", "x": execSeq, "scenario": sc.Name, "producers": sc.Producers, "nrep": sc.NRep, "closers": sc.Closers, "flushers": sc.Flushers,
		"qcap": sc.QCap, "max_packet": sc.MaxPacket, "dests": max1(sc.Dests), "alive": aliveList(max1(sc.Dests), sc.Dead)})
	for _, e := range ev {
		tr.Emit(e)
	}
	tr.Emit(M{"e": "endx"})
	ss := schedString(steps)
	side.Emit(M{"x": execSeq, "scenario": sc.Name, "sched": ss, "stuck": stuck})
	st.execs++
	for _, e := range ev {
		if e["e"] == "deadlock" || e["e"] == "panic" {
			st.broken++ // executions that ended in a deadlock or a panic: each costs seconds (blocked goroutines are waited for)
			break
		}
	}
	st.events += len(ev) + 2
	st.steps += len(steps)
	if stuck != "" {
		st.stuck++
		st.stuckMsg = stuck
	}
	st.distinct[sc.Name+"|"+ss] = true
}

// aliveList: destinations 1..n except the first `dead` ones
func aliveList(n, dead int) []int {
	out := []int{}
	for d := dead + 1; d <= n; d++ {
		out = append(out, d)
	}
	return out
}

func max1(n int) int {
	if n < 1 {
		return 1
	}
	return n
}

func m3DFS(sc *m3Scenario, tr, side *Trace, st *m3Stats, maxExecs int, descending bool) {
	type node struct{ n, idx int }
	var stack []node
	for {
		depth := 0
		choose := func(enabled, points []string, cur int) int {
			if depth < len(stack) {
				nd := stack[depth]
				depth++
				k := nd.idx
				if k >= len(enabled) {
					k = 0
				}
				if descending {
					return len(enabled) - 1 - k
				}
				return k
			}
			stack = append(stack, node{n: len(enabled), idx: 0})
			depth++
			if descending {
				return len(enabled) - 1
			}
			return 0
		}
		if m3StepTrace := m3StepTraceOf(sc); m3StepTrace != nil {
			m3StepTrace.Emit(M{"e": "scn", "scenario": sc.Name})
		}
		ev, steps, stuck := m3Execute(sc, choose)
		m3Emit(tr, side, sc, ev, steps, stuck, st)
		if depth < len(stack) {
			stack = stack[:depth]
		}
		for len(stack) > 0 && stack[len(stack)-1].idx+1 >= stack[len(stack)-1].n {
			stack = stack[:len(stack)-1]
		}
		if len(stack) == 0 {
			st.exhausted = true
			return
		}
		stack[len(stack)-1].idx++
		if st.execs >= maxExecs || st.broken >= m3MaxBroken {
			return
		}
	}
}

func m3Random(sc *m3Scenario, tr, side *Trace, st *m3Stats, n int, rng *rand.Rand) {
	for i := 0; i < n; i++ {
		stay := []int{0, 30, 60, 85}[rng.Intn(4)]
		choose := func(enabled, points []string, cur int) int {
			if cur >= 0 && rng.Intn(100) < stay {
				return cur
			}
			return rng.Intn(len(enabled))
		}
		if m3StepTrace := m3StepTraceOf(sc); m3StepTrace != nil {
			m3StepTrace.Emit(M{"e": "scn", "scenario": sc.Name})
		}
		ev, steps, stuck := m3Execute(sc, choose)
		m3Emit(tr, side, sc, ev, steps, stuck, st)
		if st.broken >= m3MaxBroken {
			return
		}
	}
}

// a scenario is not explored further once this many of its executions ended in a deadlock or a panic (the point is made)
const m3MaxBroken = 20

type m3Set struct {
	sc   *m3Scenario
	mode string
	n    int
}

func m3Scenarios(tier string) []m3Set {
	big := tier == "thorough"
	hs := []string{"m3r_inc", "m3r_done", "m3r_send", "m3r_dec", "m3f_inc", "m3f_done", "m3f_send", "m3f_dec", "m3c_cas", "m3c_spin", "m3c_closedone", "m3c_closemet", "m3c_wait", "m3p_recv"}
	q := func(n int) int {
		if big {
			return n * 6
		}
		return n
	}
	return []m3Set{
		// the handshake: one producer against Close, every interleaving of enter/exit with CAS/spin/close/close/wait
		{&m3Scenario{Name: "hs-1p-1c", Producers: 1, NRep: 1, Closers: 1, QCap: 1, Compact: true, Late: true, Points: hs}, "dfs", q(1500)},
		{&m3Scenario{Name: "hs-1p-2c", Producers: 1, NRep: 1, Closers: 2, QCap: 1, Compact: true, Points: hs}, "dfs", q(1500)},
		{&m3Scenario{Name: "hs-flush-close", Flushers: 1, Closers: 1, QCap: 1, Compact: false, Points: hs}, "dfs", q(1500)},
		{&m3Scenario{Name: "hs-2p-1c-q1", Producers: 2, NRep: 1, Closers: 1, QCap: 1, Compact: true, Points: hs}, "dfs", q(1500)},
		{&m3Scenario{Name: "mix-2p-f-2c", Producers: 2, NRep: 2, Flushers: 1, Closers: 2, QCap: 1, Compact: true, Late: true}, "random", q(250)},
		{&m3Scenario{Name: "mix-3p-f-c-q2-binary", Producers: 3, NRep: 3, Flushers: 1, Closers: 1, QCap: 2, Compact: false, Late: true}, "random", q(250)},
		{&m3Scenario{Name: "mix-4p-q4096-3dest", Producers: 4, NRep: 4, Flushers: 1, Closers: 1, QCap: 4096, Compact: true, Dests: 3}, "random", q(120)},
		{&m3Scenario{Name: "small-packets", Producers: 4, NRep: 6, Flushers: 1, Closers: 1, QCap: 3, Compact: true, MaxPacket: 420}, "random", q(120)},
		{&m3Scenario{Name: "same-bucket-2p", Producers: 2, NRep: 2, Closers: 1, QCap: 2, Compact: true, SameBucket: true}, "random", q(200)},
		// two goroutines report through ONE bucket handle (what two overlapping report passes over a histogram do):
		// every interleaving of "store the value in the handle" / "hand the metric to the reporter"
		{&m3Scenario{Name: "same-bucket-dfs", Producers: 2, NRep: 1, QCap: 4, Compact: true, SameBucket: true, Points: []string{"m3b_set", "m3r_inc"}}, "dfs", q(400)},
		{&m3Scenario{Name: "same-bucket-dfs-dur", Producers: 2, NRep: 1, QCap: 4, Compact: false, SameBucket: true, Points: []string{"m3b_set", "m3r_inc"}}, "dfs", q(400)},
		// send errors: the first destination is a port nobody listens on (every second write fails), every metric is a
		// batch of its own, the queue holds one entry
		{&m3Scenario{Name: "dead-dest-q1", Producers: 4, NRep: 12, Closers: 1, CloseAfter: 40, QCap: 1, Compact: true, MaxPacket: 230, Dests: 2, Dead: 1}, "random", q(60)},
		{&m3Scenario{Name: "dead-dest-q1-flush-binary", Producers: 3, NRep: 10, Flushers: 1, Closers: 1, CloseAfter: 24, QCap: 1, Compact: false, MaxPacket: 260, Dests: 2, Dead: 1}, "random", q(40)},
		{&m3Scenario{Name: "no-close-3p-f", Producers: 3, NRep: 2, Flushers: 1, QCap: 1, Compact: true}, "random", q(100)},
	}
}

func init() {
	register("m3sched", "scheduler-driven scenarios on the real M3 reporter against loopback sinks (C13 C14 C12)", func(args []string) {
		fs := flag.NewFlagSet("m3sched", flag.ExitOnError)
		cm := commonFlags(fs)
		part := fs.String("part", "0/1", "i/n")
		only := fs.String("only", "", "run only the scenario with this name")
		fs.Parse(args)
		var pi, pn int
		fmt.Sscanf(*part, "%d/%d", &pi, &pn)
		if pn < 1 {
			pn = 1
		}
		rng := rand.New(rand.NewSource(cm.seed + int64(pi)*7919))
		tr := NewTrace(filepath.Join(cm.out, "trace.ndjson"))
		side := NewTrace(filepath.Join(cm.out, "scheds.ndjson"))
		m3StepOut = cm.out
		tot := &m3Stats{distinct: map[string]bool{}}
		var per []M
		var samples []interface{}
		t0 := time.Now()
		for si, set := range m3Scenarios(cm.tier) {
			if si%pn != pi || (*only != "" && set.sc.Name != *only) {
				continue
			}
			st := &m3Stats{distinct: tot.distinct}
			if set.mode == "dfs" {
				m3DFS(set.sc, tr, side, st, set.n, false)
				if !st.exhausted {
					m3DFS(set.sc, tr, side, st, set.n+set.n/2, true)
				}
			} else {
				m3Random(set.sc, tr, side, st, set.n, rng)
			}
			per = append(per, M{"scenario": set.sc.Name, "mode": set.mode, "execs": st.execs, "exhausted": st.exhausted, "steps": st.steps, "stuck": st.stuck})
			tot.execs += st.execs
			tot.events += st.events
			tot.steps += st.steps
			tot.stuck += st.stuck
			if st.stuckMsg != "" {
				tot.stuckMsg = st.stuckMsg
			}
		}
		for k := range tot.distinct {
			if len(samples) < 4 && len(k) > 60 {
				samples = append(samples, k)
			}
		}
		tr.Close()
		side.Close()
		stepFiles, stepEvents := []string{}, 0
		for name, t := range m3StepSides {
			t.Close()
			stepFiles = append(stepFiles, "steps-"+name+".ndjson")
			stepEvents += t.N
		}
		sort.Strings(stepFiles)
		writeMeta(cm.out, M{"step_files": stepFiles, "step_events": stepEvents, "execs": tot.execs, "cases": tot.execs, "events": tr.N, "steps": tot.steps, "distinct": len(tot.distinct), "stuck": tot.stuck, "stuck_msg": tot.stuckMsg,
			"scenarios": per, "samples": samples, "evals": tot.execs, "wall_s": time.Since(t0).Seconds()})
		fmt.Printf("m3sched: %d executions, %d events, %d steps in %.1fs\n", tot.execs, tr.N, tot.steps, time.Since(t0).Seconds())
	})
}
