package main

import (
	"flag"
	"math/rand"
	"path/filepath"
	"sync"
	"sync/atomic"

	tally "github.com/uber-go/tally/v4"
)

// pool: tally.ObjectPool against ObjectPool.tla (growth of the specification, bin/extra).
type poolObj struct {
	id   int
	held atomic.Int32
}

func init() {
	register("pool", "tally.ObjectPool: sequential histories and concurrent ownership (extra)", func(args []string) {
		fs := flag.NewFlagSet("pool", flag.ExitOnError)
		cm := commonFlags(fs)
		fs.Parse(args)
		rng := rand.New(rand.NewSource(cm.seed))
		tr := NewTrace(filepath.Join(cm.out, "trace.ndjson"))
		cases, nops := 60, 60
		if cm.tier == "thorough" {
			cases, nops = 600, 200
		}
		evals := 0
		for c := 0; c < cases; c++ {
			capn := rng.Intn(5)
			var ids int
			p := tally.NewObjectPool(capn)
			p.Init(func() interface{} { ids++; return &poolObj{id: ids} })
			tr.Emit(M{"e": "new", "cap": capn})
			seen := ids
			var held []*poolObj
			for i := 0; i < nops; i++ {
				if len(held) == 0 || rng.Intn(2) == 0 {
					o := p.Get().(*poolObj)
					fresh := ids > seen
					seen = ids
					held = append(held, o)
					tr.Emit(M{"e": "get", "t": "m", "obj": o.id, "fresh": fresh})
				} else {
					k := rng.Intn(len(held))
					o := held[k]
					held = append(held[:k], held[k+1:]...)
					p.Put(o)
					tr.Emit(M{"e": "put", "t": "m", "obj": o.id})
				}
				evals++
			}
		}
		// concurrent: every object carries an ownership flag; a Get that returns an object somebody still holds is counted
		for c := 0; c < cases/6+1; c++ {
			capn := 1 + rng.Intn(4)
			var idc atomic.Int64
			p := tally.NewObjectPool(capn)
			p.Init(func() interface{} { return &poolObj{id: int(idc.Add(1))} })
			var double atomic.Int64
			var wg sync.WaitGroup
			for g := 0; g < 6; g++ {
				wg.Add(1)
				go func() {
					defer wg.Done()
					for i := 0; i < 20000; i++ {
						o := p.Get().(*poolObj)
						if !o.held.CompareAndSwap(0, 1) {
							double.Add(1)
						}
						o.held.Store(0)
						p.Put(o)
					}
				}()
			}
			wg.Wait()
			tr.Emit(M{"e": "conc", "double": int(double.Load()), "cap": capn, "goroutines": 6, "ops": 120000})
			evals += 120000
		}
		tr.Close()
		writeMeta(cm.out, M{"cases": cases + cases/6 + 1, "events": tr.N, "evals": evals, "distinct": cases, "samples": []interface{}{}})
	})
}
