package main

import (
	"flag"
	"fmt"
	"path/filepath"
	"sync"
	"sync/atomic"

	tally "github.com/uber-go/tally/v4"
)

// c09free: the first metrics of a FRESH sub-scope are requested by several goroutines at the same moment (different
// names, all four kinds), free-running: the window between a probe and the lock that follows it has no hook inside, so
// the controlled scheduler cannot put two goroutines into it at once.  Asking again for the same metric returns the
// object handed out the first time ("they all receive the same object").  Events in the vocabulary of TallyObsTrace.
func init() {
	register("c09free", "concurrent first metrics of a fresh sub-scope, free-running (C09)", func(args []string) {
		fs := flag.NewFlagSet("c09free", flag.ExitOnError)
		cm := commonFlags(fs)
		fs.Parse(args)
		rounds := 600
		if cm.tier == "thorough" {
			rounds = 12000
		}
		tr := NewTrace(filepath.Join(cm.out, "trace.ndjson"))
		evals := 0
		for round := 0; round < rounds; round++ {
			var root tally.Scope
			if round%2 == 0 {
				root = tally.VerifNewTestScope("", nil, uint(1+round%3))
			} else {
				root, _ = tally.VerifNewRootScope(tally.ScopeOptions{CachedReporter: &recCached{}, OmitCardinalityMetrics: true}, 0, uint(1+round%3))
			}
			sub := root.SubScope("fresh")
			if round%4 >= 2 {
				sub = root.Tagged(map[string]string{"k": "v"})
			}
			tr.Emit(M{"e": "scn", "mod": 0, "x": round + 1})
			const G = 6
			kinds := []string{"timer", "counter", "gauge", "histogram", "timer", "timer"}
			first := make([]interface{}, G)
			var wg sync.WaitGroup
			var arrived atomic.Int32
			get := func(g int) interface{} {
				name := fmt.Sprintf("m%d", g)
				switch kinds[g] {
				case "timer":
					return sub.Timer(name)
				case "counter":
					return sub.Counter(name)
				case "gauge":
					return sub.Gauge(name)
				}
				return sub.Histogram(name, tally.ValueBuckets{1, 2})
			}
			for g := 0; g < G; g++ {
				g := g
				wg.Add(1)
				go func() {
					defer wg.Done()
					arrived.Add(1)
					for arrived.Load() < G {
					}
					first[g] = get(g)
				}()
			}
			wg.Wait()
			ids := map[interface{}]int{}
			idOf := func(x interface{}) int {
				if _, ok := ids[x]; !ok {
					ids[x] = len(ids) + 1
				}
				return ids[x]
			}
			for g := 0; g < G; g++ {
				id := fmt.Sprintf("m%d", g)
				tr.Emit(M{"e": "got", "t": "main", "k": kinds[g], "id": id, "so": 2, "obj": idOf(first[g])})
				tr.Emit(M{"e": "got", "t": "main", "k": kinds[g], "id": id, "so": 2, "obj": idOf(get(g))})
				evals++
			}
			tr.Emit(M{"e": "end"})
			// the root's own identity asked for again, by the spelling it was created with, on a root whose sanitizer rewrites
			// that spelling (the registry finds the root in whatever shard the request hashes to)
			if round%3 == 0 {
				vc := tally.ValidCharacters{Ranges: tally.AlphanumericRange, Characters: tally.UnderscoreCharacters}
				so := &tally.SanitizeOptions{NameCharacters: vc, KeyCharacters: vc, ValueCharacters: vc, ReplacementCharacter: '_'}
				raw := map[string]string{"data-center": "dc-1"}
				aroot, _ := tally.VerifNewRootScope(tally.ScopeOptions{Tags: map[string]string{"data-center": "dc-1"}, CachedReporter: &recCached{}, SanitizeOptions: so, OmitCardinalityMetrics: true}, 0, 16)
				tr.Emit(M{"e": "scn", "mod": 0, "x": rounds + round + 1})
				var same [4]bool
				var ag sync.WaitGroup
				for w := 0; w < 4; w++ {
					w := w
					ag.Add(1)
					go func() {
						defer ag.Done()
						same[w] = aroot.Tagged(raw) == aroot
					}()
				}
				ag.Wait()
				tr.Emit(M{"e": "got", "t": "main", "k": "scope", "id": "root", "so": 1, "obj": 1})
				for w := 0; w < 4; w++ {
					o := 1
					if !same[w] {
						o = 2 + w
					}
					tr.Emit(M{"e": "got", "t": "main", "k": "scope", "id": "root", "so": 1, "obj": o})
				}
				tr.Emit(M{"e": "end"})
			}
		}
		tr.Close()
		writeMeta(cm.out, M{"cases": rounds, "execs": rounds, "events": tr.N, "evals": evals, "distinct": 4, "samples": []interface{}{M{"goroutines": 6, "rounds": rounds}}})
	})
}
