package main

import (
	"flag"
	"fmt"
	"math"
	"path/filepath"
	"sync"
	"sync/atomic"
	"time"

	tally "github.com/uber-go/tally/v4"
)

// c02free: one goroutine updates a gauge and then runs a report pass, again and again, while another goroutine keeps
// creating other gauges in the same scope through a cached reporter whose AllocateGauge is slow (it is called with the
// scope's gauge lock held for writing).  "Once updates to a gauge have stopped, the first report pass that starts
// afterwards leaves the reporter's most recent value equal to the last update" - also when the pass meets a busy lock.
// The updater's own sequence (update, pass, deliveries) is logged in the vocabulary of TallyObsTrace.
type slowCached struct {
	recCached
	delay time.Duration
}

func (r *slowCached) AllocateGauge(name string, tags map[string]string) tally.CachedGauge {
	time.Sleep(r.delay)
	return r.recCached.AllocateGauge(name, tags)
}

// gateFlush: a plain reporter whose first Flush blocks until released (a slow backend), so that the next pass overlaps it.
type gateFlush struct {
	recReporter
	n       atomic.Int32
	entered chan struct{}
	gate    chan struct{}
	onFlush func(first bool)
}

func (r *gateFlush) Flush() {
	first := r.n.Add(1) == 1
	r.onFlush(first)
	if first {
		close(r.entered)
		<-r.gate
	}
}

func init() {
	register("c02free", "gauge freshness while the scope's gauge lock is busy, free-running (C02)", func(args []string) {
		fs := flag.NewFlagSet("c02free", flag.ExitOnError)
		cm := commonFlags(fs)
		fs.Parse(args)
		rounds, per := 6, 150
		if cm.tier == "thorough" {
			rounds, per = 40, 400
		}
		tr := NewTrace(filepath.Join(cm.out, "trace.ndjson"))
		gtab := gaugeTables["plain"]
		evals := 0
		for round := 0; round < rounds; round++ {
			rep := &slowCached{delay: 200 * time.Microsecond}
			root, _ := tally.VerifNewRootScope(tally.ScopeOptions{CachedReporter: rep, OmitCardinalityMetrics: true}, 0, 1)
			sc := root
			id := "g"
			if round%2 == 1 {
				sc = root.Tagged(map[string]string{"k": "v"})
				id = "g{k=v}"
			}
			g := sc.Gauge("g")
			tr.Emit(M{"e": "scn", "mod": 0, "x": round + 1})
			var stop atomic.Bool
			var wg sync.WaitGroup
			wg.Add(1)
			go func() {
				defer wg.Done()
				for j := 0; !stop.Load(); j++ {
					sc.Gauge(fmt.Sprintf("other%d", j)) // first use: AllocateGauge under the scope's gauge write lock
				}
			}()
			for i := 0; i < per; i++ {
				tok := 1 + i%4
				tr.Emit(M{"e": "updcall", "t": "u", "id": id, "v": tok, "inert": false, "o": 1})
				g.Update(math.Float64frombits(gtab[tok]))
				tr.Emit(M{"e": "updret", "t": "u", "id": id, "inert": false, "o": 1})
				p := fmt.Sprintf("u#%d", i+1)
				tr.Emit(M{"e": "passb", "p": p, "t": "u"})
				tally.VerifReportOnce(root)
				for _, c := range rep.take() {
					if c.Kind == "gauge" && !c.Alloc && renderID(c.Name, c.Tags) == id {
						tok := -99
						for k, b := range gtab {
							if math.Float64bits(c.F) == b {
								tok = k
							}
						}
						tr.Emit(M{"e": "dlv", "k": "gauge", "t": "u", "id": id, "v": tok, "own": true})
					}
				}
				tr.Emit(M{"e": "flush", "t": "u", "own": true})
				tr.Emit(M{"e": "passe", "p": p, "t": "u"})
				evals++
			}
			stop.Store(true)
			wg.Wait()
			tr.Emit(M{"e": "end"})
		}
		// Second part: a pass that starts while an earlier pass is still inside the reporter's Flush.  The earlier pass has
		// made all its deliveries (it is logged as ended when Flush is entered: nothing more can come from it), the gauge is
		// updated once more, and the next pass - a report pass or the final pass of Close - must leave the last update
		// as the reporter's most recent value "whatever reports were running concurrently".
		rounds2 := 12
		if cm.tier == "thorough" {
			rounds2 = 120
		}
		for round := 0; round < rounds2; round++ {
			rep := &gateFlush{entered: make(chan struct{}), gate: make(chan struct{})}
			root, closer := tally.VerifNewRootScope(tally.ScopeOptions{Reporter: rep, OmitCardinalityMetrics: true}, 0, uint(1+round%2))
			sc := root
			id := "g"
			if round%4 >= 2 {
				sc = root.Tagged(map[string]string{"k": "v"})
				id = "g{k=v}"
			}
			g := sc.Gauge("g")
			tr.Emit(M{"e": "scn", "mod": 0, "x": rounds + round + 1})
			cur := "a"
			rep.onFlush = func(first bool) {
				for _, c := range rep.take() {
					if c.Kind == "gauge" && renderID(c.Name, c.Tags) == id {
						tok := -99
						for k, b := range gtab {
							if math.Float64bits(c.F) == b {
								tok = k
							}
						}
						tr.Emit(M{"e": "dlv", "k": "gauge", "t": cur, "id": id, "v": tok, "own": true})
					}
				}
				tr.Emit(M{"e": "flush", "t": cur, "own": true})
				if first {
					tr.Emit(M{"e": "passe", "p": "a#1", "t": "a"})
				}
			}
			upd := func(tok int) {
				tr.Emit(M{"e": "updcall", "t": "u", "id": id, "v": tok, "inert": false, "o": 1})
				g.Update(math.Float64frombits(gtab[tok]))
				tr.Emit(M{"e": "updret", "t": "u", "id": id, "inert": false, "o": 1})
			}
			upd(1 + round%4)
			tr.Emit(M{"e": "passb", "p": "a#1", "t": "a"})
			adone := make(chan struct{})
			go func() { defer close(adone); tally.VerifReportOnce(root) }()
			select {
			case <-rep.entered:
			case <-time.After(10 * time.Second):
				fatal("c02free: the first pass never reached the reporter's Flush")
			}
			cur = "u"
			upd(1 + (round+1)%4)
			tr.Emit(M{"e": "passb", "p": "u#1", "t": "u"})
			if round%2 == 0 {
				tally.VerifReportOnce(root)
			} else {
				closer.Close() // the final pass of Close is a report pass like any other
			}
			tr.Emit(M{"e": "passe", "p": "u#1", "t": "u"})
			close(rep.gate)
			<-adone
			tr.Emit(M{"e": "end"})
			evals++
		}
		tr.Close()
		writeMeta(cm.out, M{"cases": rounds + rounds2, "execs": rounds + rounds2, "events": tr.N, "evals": evals, "distinct": rounds + rounds2, "samples": []interface{}{M{"updates_and_passes": per, "rounds": rounds}, M{"passes_overlapping_a_blocked_flush": rounds2}}})
	})
}
