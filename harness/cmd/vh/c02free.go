package main

import (
	"flag"
	"fmt"
	"math"
	"path/filepath"
	"sync"
	"sync/atomic"
	"time"

	tally "github.com/uber-go/tally/v4"
)

// c02free: one goroutine updates a gauge and then runs a report pass, again and again, while another goroutine keeps
// creating other gauges in the same scope through a cached reporter whose AllocateGauge is slow (it is called with the
// scope's gauge lock held for writing).  "Once updates to a gauge have stopped, the first report pass that starts
// afterwards leaves the reporter's most recent value equal to the last update" - also when the pass meets a busy lock.
// The updater's own sequence (update, pass, deliveries) is logged in the vocabulary of TallyObsTrace.
type slowCached struct {
	recCached
	delay time.Duration
}

func (r *slowCached) AllocateGauge(name string, tags map[string]string) tally.CachedGauge {
	time.Sleep(r.delay)
	return r.recCached.AllocateGauge(name, tags)
}

func init() {
	register("c02free", "gauge freshness while the scope's gauge lock is busy, free-running (C02)", func(args []string) {
		fs := flag.NewFlagSet("c02free", flag.ExitOnError)
		cm := commonFlags(fs)
		fs.Parse(args)
		rounds, per := 6, 150
		if cm.tier == "thorough" {
			rounds, per = 40, 400
		}
		tr := NewTrace(filepath.Join(cm.out, "trace.ndjson"))
		gtab := gaugeTables["plain"]
		evals := 0
		for round := 0; round < rounds; round++ {
			rep := &slowCached{delay: 200 * time.Microsecond}
			root, _ := tally.VerifNewRootScope(tally.ScopeOptions{CachedReporter: rep, OmitCardinalityMetrics: true}, 0, 1)
			sc := root
			id := "g"
			if round%2 == 1 {
				sc = root.Tagged(map[string]string{"k": "v"})
				id = "g{k=v}"
			}
			g := sc.Gauge("g")
			tr.Emit(M{"e": "scn", "mod": 0, "x": round + 1})
			var stop atomic.Bool
			var wg sync.WaitGroup
			wg.Add(1)
			go func() {
				defer wg.Done()
				for j := 0; !stop.Load(); j++ {
					sc.Gauge(fmt.Sprintf("other%d", j)) // first use: AllocateGauge under the scope's gauge write lock
				}
			}()
			for i := 0; i < per; i++ {
				tok := 1 + i%4
				tr.Emit(M{"e": "updcall", "t": "u", "id": id, "v": tok, "inert": false, "o": 1})
				g.Update(math.Float64frombits(gtab[tok]))
				tr.Emit(M{"e": "updret", "t": "u", "id": id, "inert": false, "o": 1})
				p := fmt.Sprintf("u#%d", i+1)
				tr.Emit(M{"e": "passb", "p": p, "t": "u"})
				tally.VerifReportOnce(root)
				for _, c := range rep.take() {
					if c.Kind == "gauge" && !c.Alloc && renderID(c.Name, c.Tags) == id {
						tok := -99
						for k, b := range gtab {
							if math.Float64bits(c.F) == b {
								tok = k
							}
						}
						tr.Emit(M{"e": "dlv", "k": "gauge", "t": "u", "id": id, "v": tok, "own": true})
					}
				}
				tr.Emit(M{"e": "flush", "t": "u", "own": true})
				tr.Emit(M{"e": "passe", "p": p, "t": "u"})
				evals++
			}
			stop.Store(true)
			wg.Wait()
			tr.Emit(M{"e": "end"})
		}
		tr.Close()
		writeMeta(cm.out, M{"cases": rounds, "execs": rounds, "events": tr.N, "evals": evals, "distinct": rounds, "samples": []interface{}{M{"updates_and_passes": per, "rounds": rounds}}})
	})
}
