package main

import (
	"flag"
	"fmt"
	"io"
	"math/rand"
	"path/filepath"
	"sync"
	"unicode/utf8"
	"unsafe"

	tally "github.com/uber-go/tally/v4"
	"github.com/uber-go/tally/v4/m3"
	"github.com/uber-go/tally/v4/prometheus"
)

func validIn(vc tally.ValidCharacters, r rune) bool {
	for _, rg := range vc.Ranges {
		if r >= rg[0] && r <= rg[1] {
			return true
		}
	}
	for _, c := range vc.Characters {
		if c == r {
			return true
		}
	}
	return false
}

func okRune(r rune) bool { return r >= 0 && r <= 0x10FFFF && !(r >= 0xD800 && r <= 0xDFFF) }

// classTable: one concrete image per rune class of Sanitize.tla for a given ValidCharacters / replacement.
type classTable struct {
	img      map[string]string
	inv      map[rune]string
	rep      rune
	vc       tally.ValidCharacters
	fffd     bool
	repValid bool
	classes  []string
}

func buildClassTable(vc tally.ValidCharacters, rep rune, rng *rand.Rand) *classTable {
	t := &classTable{img: map[string]string{}, inv: map[rune]string{}, rep: rep, vc: vc}
	t.fffd = validIn(vc, utf8.RuneError)
	t.repValid = validIn(vc, rep)
	used := map[rune]bool{rep: true, utf8.RuneError: true}
	put := func(class string, r rune) bool {
		if !okRune(r) || used[r] {
			return false
		}
		used[r] = true
		t.img[class] = string(r)
		t.inv[r] = class
		return true
	}
	var cand []rune
	for _, rg := range vc.Ranges {
		for _, r := range []rune{rg[0], rg[1], rg[0] + 1, rg[1] - 1, (rg[0] + rg[1]) / 2} {
			cand = append(cand, r)
		}
	}
	cand = append(cand, vc.Characters...)
	rng.Shuffle(len(cand), func(i, j int) { cand[i], cand[j] = cand[j], cand[i] })
	// E: a rune sitting exactly at an end of a range
	for _, rg := range vc.Ranges {
		e := rg[1]
		if rng.Intn(3) == 0 {
			e = rg[0]
		}
		if rg[0] <= rg[1] && put("E", e) {
			break
		}
	}
	for _, r := range cand {
		if !validIn(vc, r) {
			continue
		}
		if utf8.RuneLen(r) == 1 && t.img["V"] == "" {
			put("V", r)
		} else if utf8.RuneLen(r) > 1 && t.img["W"] == "" {
			put("W", r)
		}
	}
	// invalid runes: just outside the ends of the ranges first
	var out []rune
	for _, rg := range vc.Ranges {
		out = append(out, rg[0]-1, rg[1]+1)
	}
	out = append(out, '!', '~', ' ', 0x7f, 0x00e9, 0x4e16, 0x1f600, 0x10ffff, 0)
	for _, r := range out {
		if !okRune(r) || validIn(vc, r) {
			continue
		}
		if utf8.RuneLen(r) == 1 && t.img["I"] == "" {
			put("I", r)
		} else if utf8.RuneLen(r) > 1 && t.img["J"] == "" {
			put("J", r)
		}
	}
	t.img["R"] = string(rep)
	if rep != utf8.RuneError {
		t.img["F"] = string(utf8.RuneError)
	}
	// one invalid byte: never-valid bytes, a stray continuation byte, and lead bytes of 2-, 3- and 4-byte sequences
	// that are not followed by their continuation (0xEF is the lead byte of U+FFFD itself)
	xs := []string{"\xff", "\xc3", "\xfe", "\xc0", "\xef", "\xed", "\xf0", "\x80", "\xe0"}
	t.img["X"] = xs[rng.Intn(len(xs))]
	if t.fffd && rng.Intn(2) == 0 {
		t.img["X"] = "\xef"
	}
	for _, c := range []string{"V", "W", "E", "I", "J", "R", "F", "X"} {
		if t.img[c] != "" {
			t.classes = append(t.classes, c)
		}
	}
	return t
}

func (t *classTable) conc(in []string) string {
	s := ""
	for _, c := range in {
		s += t.img[c]
	}
	return s
}

func (t *classTable) abst(s string) []string {
	out := []string{}
	for len(s) > 0 {
		r, w := utf8.DecodeRuneInString(s)
		switch {
		case r == utf8.RuneError && w == 1:
			out = append(out, "X")
		case r == t.rep:
			out = append(out, "R")
		case r == utf8.RuneError:
			out = append(out, "F")
		default:
			if c, ok := t.inv[r]; ok {
				out = append(out, c)
			} else {
				out = append(out, "?")
			}
		}
		s = s[w:]
	}
	return out
}

func randomValid(rng *rand.Rand) tally.ValidCharacters {
	var vc tally.ValidCharacters
	doms := [][2]rune{{0x20, 0x7e}, {0x20, 0x7e}, {0xa0, 0x24f}, {0x4e00, 0x4eff}, {0x1f600, 0x1f64f}, {0xfff0, 0xffff}, {0, 0x10ffff}}
	for i, n := 0, rng.Intn(4); i < n; i++ {
		d := doms[rng.Intn(len(doms))]
		lo := d[0] + rune(rng.Intn(int(d[1]-d[0])+1))
		hi := lo + rune(rng.Intn(int(d[1]-lo)+1))
		switch rng.Intn(6) {
		case 0:
			hi = lo // single-rune range
		case 1:
			lo, hi = hi+1, lo // empty range
		}
		vc.Ranges = append(vc.Ranges, tally.SanitizeRange{lo, hi})
	}
	for i, n := 0, rng.Intn(4); i < n; i++ {
		d := doms[rng.Intn(5)]
		vc.Characters = append(vc.Characters, d[0]+rune(rng.Intn(int(d[1]-d[0])+1)))
	}
	return vc
}

func enumSeqs(classes []string, maxLen int) [][]string {
	out := [][]string{{}}
	var rec func(p []string)
	rec = func(p []string) {
		if len(p) == maxLen {
			return
		}
		for _, c := range classes {
			q := append(append([]string{}, p...), c)
			out = append(out, q)
			rec(q)
		}
	}
	rec(nil)
	return out
}

func init() {
	register("c06", "sanitizer on class sequences, scope-level sanitising, pooled buffers under concurrency (C06)", func(args []string) {
		fs := flag.NewFlagSet("c06", flag.ExitOnError)
		cm := commonFlags(fs)
		fs.Parse(args)
		rng := rand.New(rand.NewSource(cm.seed))
		thorough := cm.tier == "thorough"
		tr := NewTrace(filepath.Join(cm.out, "trace.ndjson"))
		type optSet struct {
			name string
			o    tally.SanitizeOptions
		}
		sets := []optSet{
			{"m3-default", m3.DefaultSanitizerOpts},
			{"prometheus-default", prometheus.DefaultSanitizerOpts},
			{"all-runes", tally.SanitizeOptions{NameCharacters: tally.ValidCharacters{Ranges: []tally.SanitizeRange{{0, 0x10ffff}}},
				KeyCharacters: tally.ValidCharacters{Ranges: []tally.SanitizeRange{{0xfffd, 0xfffd}, {'a', 'z'}}}, ValueCharacters: tally.ValidCharacters{}, ReplacementCharacter: '_'}},
		}
		nrand := 5
		maxLen := 3
		if thorough {
			nrand, maxLen = 60, 4
		}
		reps := []rune{'_', '-', '?', 0xe9, 0x4e16, 0x1f600, 'z'}
		for i := 0; i < nrand; i++ {
			o := tally.SanitizeOptions{NameCharacters: randomValid(rng), KeyCharacters: randomValid(rng), ValueCharacters: randomValid(rng), ReplacementCharacter: reps[rng.Intn(len(reps))]}
			if rng.Intn(3) == 0 && len(o.NameCharacters.Ranges) > 0 {
				o.ReplacementCharacter = o.NameCharacters.Ranges[0][0] // a replacement that is itself allowed (for names)
				if !okRune(o.ReplacementCharacter) {
					o.ReplacementCharacter = '_'
				}
			}
			sets = append(sets, optSet{fmt.Sprintf("rand%d", i), o})
		}
		evals, cases := 0, 0
		distinct := map[string]bool{}
		var samples []interface{}
		for _, set := range sets {
			sz := tally.NewSanitizer(set.o)
			roles := []struct {
				role string
				vc   tally.ValidCharacters
				fn   func(string) string
			}{{"name", set.o.NameCharacters, sz.Name}, {"key", set.o.KeyCharacters, sz.Key}, {"value", set.o.ValueCharacters, sz.Value}}
			for _, rl := range roles {
				t := buildClassTable(rl.vc, set.o.ReplacementCharacter, rng)
				for _, seq := range enumSeqs(t.classes, maxLen) {
					in := t.conc(seq)
					out := rl.fn(in)
					same := len(in) == len(out) && (len(in) == 0 || unsafe.StringData(in) == unsafe.StringData(out))
					again := rl.fn(out)
					tr.Emit(M{"e": "san", "opts": set.name, "role": rl.role, "repValid": t.repValid, "fffdAllowed": t.fffd, "in": seq, "out": t.abst(out), "same": same, "again": t.abst(again)})
					evals++
				}
				// long strings: unit^k of at least 4 KiB (the loop has no length dependent state besides buf = nil)
				units := enumSeqs(t.classes, 3)
				for k := 0; k < 6; k++ {
					unit := units[1+rng.Intn(len(units)-1)]
					n := 0
					in := ""
					for len(in) < 4096 {
						in += t.conc(unit)
						n++
					}
					out := rl.fn(in)
					same := len(in) == len(out) && unsafe.StringData(in) == unsafe.StringData(out)
					toks := t.abst(out)
					type run struct {
						C []string `json:"c"`
						N int      `json:"n"`
					}
					var runs []run
					for i := 0; i < len(toks); i += len(unit) {
						j := i + len(unit)
						if j > len(toks) {
							j = len(toks)
						}
						c := toks[i:j]
						if len(runs) > 0 && fmt.Sprint(runs[len(runs)-1].C) == fmt.Sprint(c) {
							runs[len(runs)-1].N++
						} else if len(runs) < 50 {
							runs = append(runs, run{c, 1})
						}
					}
					tr.Emit(M{"e": "sanlong", "opts": set.name, "role": rl.role, "bytes": len(in), "repValid": t.repValid, "fffdAllowed": t.fffd, "unit": unit, "k": n, "outruns": runs, "same": same, "againsame": rl.fn(out) == out})
					evals++
				}
				cases++
				distinct[set.name+rl.role] = true
				if len(samples) < 6 {
					samples = append(samples, M{"opts": set.name, "role": rl.role, "ranges": fmt.Sprint(rl.vc.Ranges), "chars": fmt.Sprint(rl.vc.Characters), "replacement": fmt.Sprintf("%U", set.o.ReplacementCharacter), "class_images": fmt.Sprintf("%q", t.img)})
				}
			}
			// everything handed to a reporter by a scope with these options
			o := set.o
			rec := &recReporter{}
			dirty := []string{"a b", "x\xffy", "é.ü", "", "z9_-.", "🙂", "tally.internal", "k=v,w+u"}
			pick := func() string { return dirty[rng.Intn(len(dirty))] }
			root, _ := tally.VerifNewRootScope(tally.ScopeOptions{Prefix: pick(), Separator: []string{"", ".", "::", "\xfe"}[rng.Intn(4)], Tags: map[string]string{pick(): pick(), "env!": "pr od"},
				Reporter: rec, SanitizeOptions: &o, CardinalityMetricsTags: map[string]string{pick(): pick()}}, 0, 2)
			sc := root
			for d := 0; d < 3; d++ {
				if rng.Intn(2) == 0 {
					sc = sc.SubScope(pick())
				} else {
					tg := map[string]string{pick(): pick(), pick(): pick()}
					parent := sc
					sc = parent.Tagged(tg)
					if rng.Intn(2) == 0 {
						// close the sub-scope and obtain it again before any report pass removed it: the scope that
						// replaces it must be built from sanitized tags like the first one
						sc.Counter(pick()).Inc(1)
						if cl, ok := sc.(io.Closer); ok {
							cl.Close()
						}
						sc = parent.Tagged(tg)
					}
				}
				sc.Counter(pick()).Inc(1)
				sc.Gauge(pick()).Update(1)
				sc.Timer(pick()).Record(1)
				sc.Histogram(pick(), tally.ValueBuckets{1}).RecordValue(1)
			}
			// a root without tags of its own: a map that needs no sanitizing is handed to Tagged, and the caller goes on
			// using (and dirtying) its map afterwards - what the scope delivers stays sanitized
			root2, _ := tally.VerifNewRootScope(tally.ScopeOptions{Reporter: rec, SanitizeOptions: &o, OmitCardinalityMetrics: true}, 0, 1)
			own := map[string]string{"k": "v", "route": "list"}
			s2 := root2.Tagged(own)
			s2.Counter("m").Inc(1)
			own["k"] = pick()
			own["route"] = "GET /a?b=1"
			own[pick()] = pick()
			s2.Counter("m").Inc(1)
			s2.SubScope("n").Gauge("g").Update(1)
			tally.VerifReportOnce(root2)
			tally.VerifReportOnce(root)
			count := func(s string, vc tally.ValidCharacters) int {
				bad := 0
				for len(s) > 0 {
					r, w := utf8.DecodeRuneInString(s)
					if !(r == o.ReplacementCharacter || (validIn(vc, r) && !(r == utf8.RuneError && w == 1))) {
						bad++
					}
					s = s[w:]
				}
				return bad
			}
			for _, c := range rec.take() {
				if c.Kind == "flush" {
					continue
				}
				tr.Emit(M{"e": "reported", "opts": set.name, "role": "name", "s": fmt.Sprintf("%q", c.Name), "bad": count(c.Name, o.NameCharacters)})
				for k, v := range c.Tags {
					tr.Emit(M{"e": "reported", "opts": set.name, "role": "key", "s": fmt.Sprintf("%q", k), "bad": count(k, o.KeyCharacters)})
					tr.Emit(M{"e": "reported", "opts": set.name, "role": "value", "s": fmt.Sprintf("%q", v), "bad": count(v, o.ValueCharacters)})
				}
				evals++
			}
		}
		// pooled buffers under concurrency: results must not change after they were returned
		sz := tally.NewSanitizer(m3.DefaultSanitizerOpts)
		var wg sync.WaitGroup
		type res struct{ got, want string }
		results := make([][]res, 8)
		for g := 0; g < 8; g++ {
			g := g
			wg.Add(1)
			go func() {
				defer wg.Done()
				defer func() {
					// a panic inside the sanitizer (two goroutines in one pooled buffer) is an observation, not a crash of the harness
					if e := recover(); e != nil {
						results[g] = append(results[g], res{"PANIC: " + fmt.Sprint(e), ""})
					}
				}()
				for i := 0; i < 4000; i++ {
					in := fmt.Sprintf("g%d!i%d!%s", g, i, "pad ding"[:1+i%8])
					want := ""
					for _, r := range in {
						if validIn(m3.DefaultSanitizerOpts.NameCharacters, r) {
							want += string(r)
						} else {
							want += "_"
						}
					}
					results[g] = append(results[g], res{sz.Name(in), want})
				}
			}()
		}
		wg.Wait()
		stable := true
		for g := range results {
			for _, r := range results[g] {
				if r.got != r.want {
					stable = false
				}
			}
		}
		tr.Emit(M{"e": "conc", "stable": stable, "goroutines": 8, "calls": 32000})
		tr.Close()
		writeMeta(cm.out, M{"cases": cases, "events": tr.N, "evals": evals, "distinct": len(distinct), "samples": samples})
	})
}
