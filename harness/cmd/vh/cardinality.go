package main

import (
	"flag"
	"fmt"
	"math/rand"
	"path/filepath"
	"strings"

	tally "github.com/uber-go/tally/v4"
)

// cardinality: the tally.internal.*_cardinality gauges a report pass delivers (CardinalityMetrics.tla).
// Not a listed property: part of the growth of the specification.
func init() {
	register("cardinality", "internal cardinality gauges vs CardinalityMetrics.tla", func(args []string) {
		fs := flag.NewFlagSet("cardinality", flag.ExitOnError)
		cm := commonFlags(fs)
		fs.Parse(args)
		rng := rand.New(rand.NewSource(cm.seed))
		tr := NewTrace(filepath.Join(cm.out, "trace.ndjson"))
		n := 120
		if cm.tier == "thorough" {
			n = 1500
		}
		for c := 0; c < n; c++ {
			sanitize := c%2 == 1
			shards := uint(1 + c%4)
			rec := &recReporter{}
			opts := tally.ScopeOptions{Reporter: rec}
			if sanitize {
				vc := tally.ValidCharacters{Ranges: tally.AlphanumericRange, Characters: tally.UnderscoreCharacters}
				opts.SanitizeOptions = &tally.SanitizeOptions{NameCharacters: tally.ValidCharacters{Ranges: tally.AlphanumericRange, Characters: []rune{'_', '.'}}, KeyCharacters: vc, ValueCharacters: vc, ReplacementCharacter: '_'}
			}
			root, _ := tally.VerifNewRootScope(opts, 0, shards)
			tr.Emit(M{"e": "new", "sanitize": sanitize, "shards": int(shards)})
			scopes := []tally.Scope{root}
			nops := 2 + rng.Intn(10)
			for i := 0; i < nops; i++ {
				switch r := rng.Intn(10); {
				case r < 3:
					// a new sub-scope; with the sanitizer, tags that are rewritten make it an aliased (two-key) entry
					aliased := sanitize && rng.Intn(2) == 0
					k, v := fmt.Sprintf("k%d", len(scopes)), "v"
					if aliased {
						k, v = fmt.Sprintf("k-%d", len(scopes)), "v w"
					}
					scopes = append(scopes, root.Tagged(map[string]string{k: v}))
					tr.Emit(M{"e": "scope", "aliased": aliased})
				case r < 9:
					s := rng.Intn(len(scopes))
					kind := []string{"counter", "gauge", "histogram", "timer"}[rng.Intn(4)]
					name := fmt.Sprintf("m%d", i)
					switch kind {
					case "counter":
						scopes[s].Counter(name)
					case "gauge":
						scopes[s].Gauge(name)
					case "histogram":
						scopes[s].Histogram(name, tally.ValueBuckets{1})
					case "timer":
						scopes[s].Timer(name)
					}
					tr.Emit(M{"e": "metric", "s": s, "kind": kind})
				default:
					tally.VerifReportOnce(root)
					g := M{"counters": -1, "gauges": -1, "histograms": -1, "scopes": -1}
					for _, cl := range rec.take() {
						if cl.Kind == "gauge" && strings.HasPrefix(cl.Name, "tally.internal.") || strings.HasPrefix(cl.Name, "tally_internal_") {
							switch {
							case strings.Contains(cl.Name, "counter_cardinality"):
								g["counters"] = int(cl.F)
							case strings.Contains(cl.Name, "gauge_cardinality"):
								g["gauges"] = int(cl.F)
							case strings.Contains(cl.Name, "histogram_cardinality"):
								g["histograms"] = int(cl.F)
							case strings.Contains(cl.Name, "num_active_scopes"):
								g["scopes"] = int(cl.F)
							}
						}
					}
					tr.Emit(M{"e": "pass", "got": g})
				}
			}
		}
		tr.Close()
		writeMeta(cm.out, M{"cases": n, "events": tr.N, "evals": tr.N, "distinct": n, "samples": []interface{}{M{"note": "random scope / metric creation histories with and without a rewriting sanitizer, 1-4 shards"}}})
	})
}
