// Package sched is a controlled scheduler for real goroutines of the code under
// verification. Goroutines that belong to a scenario park at hook points
// (verifhook.At*, or Yield calls made by the harness itself) and continue only
// when the controller grants them one step, so exactly one scenario goroutine
// runs at a time and an execution is determined by the sequence of granted
// thread names (plus the choices the code makes by itself, which are logged).
package sched

import (
	"fmt"
	"runtime"
	"sort"
	"strings"
	"sync"
	"sync/atomic"
	"time"
)

// Step is one granted step.
type Step struct {
	Thread string `json:"t"`
	Point  string `json:"p"`
	A      int64  `json:"a,omitempty"`
	B      int64  `json:"b,omitempty"`
}

type thread struct {
	name     string
	grant    chan struct{}
	point    string
	enabled  func() bool
	a, b     int64
	parked   bool
	finished bool
	adopted  bool
	adopted0 bool // adopted and not yet parked once
	blocked  bool // let into a blocking action and not seen since
}

type event struct {
	th   *thread
	kind int // 0 park, 1 finish
}

// Chooser picks the thread to run next among the enabled ones (sorted by name).
// cur is the index in enabled of the thread that ran last, or -1.
type Chooser func(enabled []string, points []string, cur int) int

// Sched is one execution's scheduler. Create a fresh one per execution.
type Sched struct {
	mu          sync.Mutex
	byGoid      map[int64]*thread
	threads     map[string]*thread
	adopt       []adoptRule
	events      chan event
	Quiet       map[string]bool // points where the running thread continues without a scheduling choice
	Interesting map[string]bool // when non-nil: every point not listed here is quiet
	Terminal    map[string]bool // points after which the thread never reports again
	Daemon      map[string]bool // threads that may stay parked forever (idle library goroutines)
	MayBlock    map[string]bool // points whose action may really block (no enabledness predicate available): the thread is let into it and watched
	BlockProbe  time.Duration
	SlowProbe   time.Duration
	Blocks      int // how often a granted thread was found really blocked
	nblocked    atomic.Int32
	Override    map[string]func() bool // enabledness by point name, overriding the hook's own predicate
	Steps       []Step
	Deadlock    bool
	Stuck       string
	MaxSteps    int
	Overrun     bool
	StepHook    func(st Step)              // called by the controller before each grant (all threads parked)
	ParkHook    func(thread, point string) // called by the controller when a granted thread has parked again
	Current     string                     // name of the thread that was granted last
	StuckWait   time.Duration
	running     bool
	abandoned   atomic.Bool
	cur         *thread // the thread that was granted last and has not parked since
}

type adoptRule struct {
	prefix string
	name   string
}

// New returns an empty scheduler.
func New() *Sched {
	return &Sched{
		byGoid:   map[int64]*thread{},
		threads:  map[string]*thread{},
		events:   make(chan event, 1024),
		Quiet:    map[string]bool{},
		Terminal: map[string]bool{},
		Daemon:   map[string]bool{},
		MayBlock: map[string]bool{},
		// how long a granted thread may stay away before it is taken to be inside a really blocking operation.
		// At MayBlock points that is expected (short probe); anywhere else it only happens when the code under
		// test blocks where no hook announces it, so the probe is long enough not to mistake a goroutine that
		// was merely descheduled on a busy machine for a blocked one (two scenario goroutines would then run
		// at the same time).
		BlockProbe: 1 * time.Millisecond,
		SlowProbe:  400 * time.Millisecond,
		Override:   map[string]func() bool{},
		MaxSteps:   100000,
		StuckWait:  5 * time.Second,
	}
}

func goid() int64 {
	var buf [64]byte
	n := runtime.Stack(buf[:], false)
	// "goroutine 123 ["
	var id int64
	for _, c := range buf[10:n] {
		if c < '0' || c > '9' {
			break
		}
		id = id*10 + int64(c-'0')
	}
	return id
}

// Adopt makes the first unregistered goroutine that reaches a hook whose point
// starts with prefix a scenario thread called name (library goroutines).
func (s *Sched) Adopt(prefix, name string) {
	s.adopt = append(s.adopt, adoptRule{prefix, name})
}

// Go starts a scenario thread. It parks at point "start" before running f.
func (s *Sched) Go(name string, f func()) {
	th := &thread{name: name, grant: make(chan struct{})}
	s.mu.Lock()
	s.threads[name] = th
	s.mu.Unlock()
	ready := make(chan struct{})
	go func() {
		id := goid() // once per thread
		s.mu.Lock()
		s.byGoid[id] = th
		s.mu.Unlock()
		close(ready)
		s.park(th, "start", nil, 0, 0)
		f()
		s.mu.Lock()
		delete(s.byGoid, id)
		s.mu.Unlock()
		if !s.abandoned.Load() {
			s.events <- event{th, 1}
		}
	}()
	<-ready
}

func (s *Sched) park(th *thread, point string, enabled func() bool, a, b int64) {
	if s.abandoned.Load() {
		return
	}
	th.point, th.enabled, th.a, th.b = point, enabled, a, b
	s.events <- event{th, 0}
	<-th.grant
}

// UseGoid makes thread lookup go through the goroutine id (slow, exact) instead
// of "the thread that was granted last" (exactly one scenario goroutine runs at a time).
var UseGoid = false

func (s *Sched) lookup(point string) *thread {
	if UseGoid || s.nblocked.Load() > 0 {
		id := goid()
		s.mu.Lock()
		defer s.mu.Unlock()
		if th, ok := s.byGoid[id]; ok {
			return th
		}
		return s.adoptLocked(point, id)
	}
	s.mu.Lock()
	defer s.mu.Unlock()
	if th := s.adoptLocked(point, -1); th != nil {
		return th
	}
	return s.cur
}

func (s *Sched) adoptLocked(point string, id int64) *thread {
	for _, r := range s.adopt {
		if strings.HasPrefix(point, r.prefix) {
			if _, taken := s.threads[r.name]; taken {
				continue
			}
			th := &thread{name: r.name, grant: make(chan struct{}), adopted: true, adopted0: true}
			s.threads[r.name] = th
			if id == -1 {
				id = goid() // once per adopted goroutine
			}
			s.byGoid[id] = th
			return th
		}
	}
	return nil
}

// Hook is the function to install with VerifSetHook.
func (s *Sched) Hook(point string, enabled func() bool, a, b int64) {
	th := s.lookup(point)
	if th == nil || th.finished {
		return
	}
	// fast path: at a quiet, enabled, non-terminal point the running thread simply continues
	// (it is the only scenario goroutine running, so it may evaluate the predicate and log the step itself)
	if s.isQuiet(point) && !s.Terminal[point] && !th.adopted0 && len(s.Steps) < s.MaxSteps && !s.abandoned.Load() {
		th.point, th.enabled, th.a, th.b = point, enabled, a, b
		if s.isEnabled(th) {
			st := Step{Thread: th.name, Point: point, A: a, B: b}
			if s.StepHook != nil {
				s.StepHook(st)
			}
			s.Steps = append(s.Steps, st)
			return
		}
	}
	th.adopted0 = false
	s.park(th, point, enabled, a, b)
}

// Yield is a schedule point inside harness code (scenario threads only).
func (s *Sched) Yield(point string) { s.Hook(point, nil, 0, 0) }

// YieldIf is Yield before an action that blocks unless enabled().
func (s *Sched) YieldIf(point string, enabled func() bool) { s.Hook(point, enabled, 0, 0) }

// Finished reports whether the named thread has finished (or was never created).
func (s *Sched) Finished(name string) bool {
	s.mu.Lock()
	defer s.mu.Unlock()
	th, ok := s.threads[name]
	return !ok || th.finished
}

// Exists reports whether a thread of that name was created or adopted.
func (s *Sched) Exists(name string) bool {
	s.mu.Lock()
	defer s.mu.Unlock()
	_, ok := s.threads[name]
	return ok
}

// WaitParked blocks until the named threads exist and are parked (used after
// constructing objects that start library goroutines).
func (s *Sched) WaitParked(names ...string) error {
	deadline := time.After(s.StuckWait)
	for {
		all := true
		s.mu.Lock()
		for _, n := range names {
			th, ok := s.threads[n]
			if !ok || !(th.parked || th.finished) {
				all = false
			}
		}
		s.mu.Unlock()
		if all {
			return nil
		}
		select {
		case ev := <-s.events:
			s.apply(ev)
		case <-deadline:
			return fmt.Errorf("threads %v did not park", names)
		}
	}
}

func (s *Sched) apply(ev event) {
	s.mu.Lock()
	if ev.th.blocked {
		ev.th.blocked = false
		s.nblocked.Add(-1)
	}
	if ev.kind == 0 {
		ev.th.parked = true
	} else {
		ev.th.finished = true
		ev.th.parked = false
		if s.cur == ev.th {
			s.cur = nil
		}
	}
	s.mu.Unlock()
}

func (s *Sched) isEnabled(th *thread) bool {
	if f, ok := s.Override[th.point]; ok {
		return f()
	}
	if th.enabled == nil {
		return true
	}
	return th.enabled()
}

func (s *Sched) isQuiet(point string) bool {
	if s.Interesting != nil {
		return !s.Interesting[point]
	}
	return s.Quiet[point]
}

// PointOf returns the point the named thread is parked at ("" if not parked).
func (s *Sched) PointOf(name string) string {
	s.mu.Lock()
	defer s.mu.Unlock()
	if th, ok := s.threads[name]; ok && th.parked {
		return th.point
	}
	return ""
}

// Run drives the execution until every thread has finished, a deadlock is
// found (Deadlock), a granted thread neither parks nor finishes (Stuck), or
// MaxSteps is exceeded (Overrun).
func (s *Sched) Run(choose Chooser) {
	// wait until all known threads are parked
	names := []string{}
	s.mu.Lock()
	for n := range s.threads {
		names = append(names, n)
	}
	s.mu.Unlock()
	if err := s.WaitParked(names...); err != nil {
		s.Stuck = err.Error()
		return
	}
	last := ""
	for {
		// drain late events (adoptions)
		for drained := false; !drained; {
			select {
			case ev := <-s.events:
				s.apply(ev)
			default:
				drained = true
			}
		}
		var live, en []*thread
		s.mu.Lock()
		for _, th := range s.threads {
			if !th.finished {
				live = append(live, th)
			}
		}
		s.mu.Unlock()
		if len(live) == 0 {
			return
		}
		for _, th := range live {
			if th.parked && s.isEnabled(th) {
				en = append(en, th)
			}
		}
		if len(en) == 0 {
			if s.nblocked.Load() > 0 {
				// somebody is inside a really blocking action and nobody can move: give it time to come back
				select {
				case ev := <-s.events:
					s.apply(ev)
					continue
				case <-time.After(s.StuckWait / 5):
				}
			}
			for _, th := range live {
				if !s.Daemon[th.name] {
					s.Deadlock = true
				}
			}
			return
		}
		sort.Slice(en, func(i, j int) bool { return en[i].name < en[j].name })
		var pick *thread
		cur := -1
		for i, th := range en {
			if th.name == last {
				cur = i
			}
		}
		if cur >= 0 && s.isQuiet(en[cur].point) {
			pick = en[cur]
		} else if len(en) == 1 {
			pick = en[0]
		} else {
			ns := make([]string, len(en))
			ps := make([]string, len(en))
			for i, th := range en {
				ns[i], ps[i] = th.name, th.point
			}
			k := choose(ns, ps, cur)
			if k < 0 || k >= len(en) {
				s.Overrun = true
				return
			}
			pick = en[k]
		}
		if len(s.Steps) >= s.MaxSteps {
			s.Overrun = true
			return
		}
		st := Step{Thread: pick.name, Point: pick.point, A: pick.a, B: pick.b}
		if s.StepHook != nil {
			s.StepHook(st)
		}
		s.Steps = append(s.Steps, st)
		last = pick.name
		s.Current = pick.name
		s.mu.Lock()
		pick.parked = false
		s.cur = pick
		terminal := s.Terminal[pick.point]
		if terminal {
			pick.finished = true
			s.cur = nil
		}
		s.mu.Unlock()
		pick.grant <- struct{}{}
		if terminal {
			continue
		}
		// wait for pick to park again or finish.  If it does neither for a while it is inside a really
		// blocking operation (expected at MayBlock points; elsewhere only when the code under test blocks
		// somewhere no hook announces): it is marked blocked, and the others go on.
		probe := s.SlowProbe
		if s.MayBlock[st.Point] {
			probe = s.BlockProbe
		}
		var timer *time.Timer
		blocked := false
	wait:
		for {
			var ev event
			select {
			case ev = <-s.events:
			default:
				if timer == nil {
					timer = time.NewTimer(probe)
				}
				select {
				case ev = <-s.events:
				case <-timer.C:
					blocked = true
					break wait
				}
			}
			s.apply(ev)
			if ev.th == pick {
				if ev.kind == 0 && s.ParkHook != nil {
					s.ParkHook(pick.name, pick.point)
				}
				break wait
			}
		}
		if timer != nil {
			timer.Stop()
		}
		if blocked {
			s.mu.Lock()
			pick.blocked = true
			s.nblocked.Add(1)
			s.cur = nil
			s.mu.Unlock()
			s.Blocks++
			last = ""
		}
	}
}

// Abandon releases every parked thread so that goroutines of an abandoned
// execution can run to completion (hooks become pass-through).
func (s *Sched) Abandon() {
	s.abandoned.Store(true)
	s.mu.Lock()
	ths := make([]*thread, 0, len(s.threads))
	for _, th := range s.threads {
		if !th.finished && th.parked {
			ths = append(ths, th)
		}
		th.finished = true
	}
	s.byGoid = map[int64]*thread{}
	s.mu.Unlock()
	for _, th := range ths {
		select {
		case th.grant <- struct{}{}:
		case <-time.After(100 * time.Millisecond):
		}
	}
}
