module verif/harness

go 1.23

require github.com/uber-go/tally/v4 v4.0.0

require (
	github.com/golang/mock v1.6.0 // indirect
	github.com/twmb/murmur3 v1.1.8 // indirect
	go.uber.org/atomic v1.11.0 // indirect
)

replace github.com/uber-go/tally/v4 => /repo
