module verif/harness

go 1.23

require (
	github.com/cactus/go-statsd-client/v5 v5.0.0
	github.com/prometheus/client_golang v1.11.0
	github.com/prometheus/client_model v0.2.0
	github.com/uber-go/tally/v4 v4.0.0
)

require (
	github.com/beorn7/perks v1.0.1 // indirect
	github.com/cespare/xxhash/v2 v2.3.0 // indirect
	github.com/golang/mock v1.6.0 // indirect
	github.com/golang/protobuf v1.4.3 // indirect
	github.com/matttproud/golang_protobuf_extensions v1.0.1 // indirect
	github.com/pkg/errors v0.9.1 // indirect
	github.com/prometheus/common v0.26.0 // indirect
	github.com/prometheus/procfs v0.6.0 // indirect
	github.com/twmb/murmur3 v1.1.8 // indirect
	go.uber.org/atomic v1.11.0 // indirect
	golang.org/x/sys v0.0.0-20210603081109-ebe580a85c40 // indirect
	google.golang.org/protobuf v1.26.0-rc.1 // indirect
)

replace github.com/uber-go/tally/v4 => /repo
